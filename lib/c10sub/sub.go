// Package c10sub lists the subjects of C10 (shapes whose Evaluate is called concurrently); it is shared
// by the scheduler harness (checks/C10) and the free-running race-detector pass (checks/C10/aux).
package c10sub

import (
	"fmt"
	"strings"

	"github.com/deadsy/sdfx/sdf"
	v2 "github.com/deadsy/sdfx/vec/v2"
	v3 "github.com/deadsy/sdfx/vec/v3"

	"verif/lib/shapes"
)

// Subject is one shape under test.
type Subject struct {
	Name string
	Dim  int
	B2   func() (sdf.SDF2, error)
	B3   func() (sdf.SDF3, error)
}

// Subjects: every leaf, and two instances (thorough: all instances) of every combinator class
// (root constructor + parameter class) of the one-operator trees, plus wrappers and size thresholds
// that the tree menus do not contain.
func Subjects(thorough bool) []Subject {
	var out []Subject
	l2, l3 := shapes.LeafNodes2(), shapes.LeafNodes3()
	perClass := map[string]int{}
	class := func(name, root string) string {
		if i := strings.Index(name, "["); i > 0 {
			if j := strings.Index(name, "]"); j > i {
				p := name[i+1 : j]
				if k := strings.IndexAny(p, "(=0123456789 -"); k > 0 {
					p = p[:k]
				}
				return root + "[" + p + "]"
			}
		}
		return root
	}
	for _, n := range shapes.Nodes2(0) {
		k := class(n.Name, n.Root)
		if n.Depth == 0 || (n.Depth == 1 && (thorough || perClass[k] < 2)) {
			perClass[k]++
			out = append(out, Subject{Name: n.Name, Dim: 2, B2: n.Build})
		}
	}
	for _, n := range shapes.Nodes3(0) {
		k := class(n.Name, n.Root)
		if n.Depth == 0 || (n.Depth == 1 && (thorough || perClass[k] < 2)) {
			perClass[k]++
			out = append(out, Subject{Name: n.Name, Dim: 3, B3: n.Build})
		}
	}
	c1, _ := sdf.Circle2D(0.4)
	for _, k := range []int{2, 8, 9, 17} {
		k := k
		out = append(out, Subject{Name: fmt.Sprintf("Union2D(%d circles)", k), Dim: 2, B2: func() (sdf.SDF2, error) {
			var ops []sdf.SDF2
			for i := 0; i < k; i++ {
				ops = append(ops, sdf.Transform2D(c1, sdf.Translate2d(v2.Vec{X: float64(i), Y: float64(i%3) * 0.5})))
			}
			return sdf.Union2D(ops...), nil
		}})
		out = append(out, Subject{Name: fmt.Sprintf("Union3D(%d spheres)", k), Dim: 3, B3: func() (sdf.SDF3, error) {
			s, _ := sdf.Sphere3D(0.4)
			var ops []sdf.SDF3
			for i := 0; i < k; i++ {
				ops = append(ops, sdf.Transform3D(s, sdf.Translate3d(v3.Vec{X: float64(i), Y: float64(i%3) * 0.5})))
			}
			return sdf.Union3D(ops...), nil
		}})
	}
	// unions / intersections / differences blended with every blend function of the library, three operands (the
	// blend function is a closure installed in the shape: state captured by it is shared by all evaluators)
	for _, bl := range []struct {
		name string
		f    sdf.MinFunc
	}{{"RoundMin(0.3)", sdf.RoundMin(0.3)}, {"ChamferMin(0.3)", sdf.ChamferMin(0.3)}, {"ExpMin(8)", sdf.ExpMin(8)}, {"PowMin(4)", sdf.PowMin(4)}, {"PolyMin(0.3)", sdf.PolyMin(0.3)}} {
		bl := bl
		out = append(out, Subject{Name: "Union3D[" + bl.name + "](3 spheres)", Dim: 3, B3: func() (sdf.SDF3, error) {
			s, _ := sdf.Sphere3D(0.4)
			var ops []sdf.SDF3
			for i := 0; i < 3; i++ {
				ops = append(ops, sdf.Transform3D(s, sdf.Translate3d(v3.Vec{X: float64(i) * 0.6, Y: float64(i%2) * 0.3})))
			}
			u := sdf.Union3D(ops...)
			u.(*sdf.UnionSDF3).SetMin(bl.f)
			return u, nil
		}})
		out = append(out, Subject{Name: "Union2D[" + bl.name + "](3 circles)", Dim: 2, B2: func() (sdf.SDF2, error) {
			var ops []sdf.SDF2
			for i := 0; i < 3; i++ {
				ops = append(ops, sdf.Transform2D(c1, sdf.Translate2d(v2.Vec{X: float64(i) * 0.6, Y: float64(i%2) * 0.3})))
			}
			u := sdf.Union2D(ops...)
			u.(*sdf.UnionSDF2).SetMin(bl.f)
			return u, nil
		}})
	}
	out = append(out, Subject{Name: "Difference3D[PolyMax(0.3)](sphere, sphere)", Dim: 3, B3: func() (sdf.SDF3, error) {
		s, _ := sdf.Sphere3D(0.6)
		d := sdf.Difference3D(s, sdf.Transform3D(s, sdf.Translate3d(v3.Vec{X: 0.5})))
		d.(*sdf.DifferenceSDF3).SetMax(sdf.PolyMax(0.3))
		return d, nil
	}})
	for _, txt := range []string{"ABCDEFGHIJKL", "iii"} {
		txt := txt
		out = append(out, Subject{Name: fmt.Sprintf("Text2D(%q)", txt), Dim: 2, B2: func() (sdf.SDF2, error) {
			f, err := sdf.LoadFont(shapes.FontPath)
			if err != nil {
				return nil, err
			}
			return sdf.Text2D(f, sdf.NewText(txt), 10)
		}})
	}
	for _, l := range shapes.Rep3(l3) {
		l := l
		out = append(out, Subject{Name: "NewVoxelSDF3[3](" + l.Name + ")", Dim: 3, B3: func() (sdf.SDF3, error) {
			s, err := l.Build()
			if err != nil {
				return nil, err
			}
			return sdf.NewVoxelSDF3(s, 3, nil), nil
		}})
	}
	for _, l := range shapes.Rep2(l2) {
		l := l
		out = append(out, Subject{Name: "Extrude3D[1](Cache2D(" + l.Name + "))", Dim: 3, B3: func() (sdf.SDF3, error) {
			s, err := l.Build()
			if err != nil {
				return nil, err
			}
			return sdf.Extrude3D(sdf.Cache2D(s), 1), nil
		}})
	}
	return out
}

// Pts3 / Pts2 are the colliding evaluation points: centre, two generic interior/exterior points, a
// point on the centre plane; thorough adds the box corners' inward neighbours.
func Pts3(bb sdf.Box3, thorough bool) []v3.Vec {
	c, s := bb.Center(), bb.Size()
	p := []v3.Vec{c, bb.Min.Add(s.MulScalar(0.3)), bb.Max.Add(s.MulScalar(0.1)), c.Add(v3.Vec{X: 0.25 * s.X})}
	if thorough {
		p = append(p, bb.Min.Add(s.MulScalar(0.05)), bb.Max.Sub(s.MulScalar(0.05)), c.Add(v3.Vec{Y: -0.4 * s.Y, Z: 0.4 * s.Z}), c.Add(v3.Vec{X: -0.125 * s.X, Y: 0.125 * s.Y}))
	}
	return p
}

func Pts2(bb sdf.Box2, thorough bool) []v2.Vec {
	c, s := bb.Center(), bb.Size()
	p := []v2.Vec{c, bb.Min.Add(s.MulScalar(0.3)), bb.Max.Add(s.MulScalar(0.1)), c.Add(v2.Vec{X: 0.25 * s.X})}
	if thorough {
		p = append(p, bb.Min.Add(s.MulScalar(0.05)), bb.Max.Sub(s.MulScalar(0.05)), c.Add(v2.Vec{Y: -0.4 * s.Y}), c.Add(v2.Vec{X: -0.125 * s.X, Y: 0.125 * s.Y}))
	}
	return p
}
