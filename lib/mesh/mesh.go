// Package mesh is the independent mesh / contour checker of Engine L: vertex welding, directed-edge
// balance, repeated vertices, signed volume, connected components.
package mesh

import (
	"math"

	"github.com/deadsy/sdfx/sdf"
	v2 "github.com/deadsy/sdfx/vec/v2"
	v3 "github.com/deadsy/sdfx/vec/v3"
)

// Welder3 identifies vertices closer than tol (grid hash with neighbour lookup).
type Welder3 struct {
	tol  float64
	grid map[[3]int64][]int
	Pts  []v3.Vec
}

// NewWelder3 returns a welder with the given tolerance.
func NewWelder3(tol float64) *Welder3 {
	return &Welder3{tol: tol, grid: map[[3]int64][]int{}}
}

// ID returns the id of the welded vertex for p.
func (w *Welder3) ID(p v3.Vec) int {
	c := [3]int64{int64(math.Floor(p.X / w.tol)), int64(math.Floor(p.Y / w.tol)), int64(math.Floor(p.Z / w.tol))}
	for dx := int64(-1); dx <= 1; dx++ {
		for dy := int64(-1); dy <= 1; dy++ {
			for dz := int64(-1); dz <= 1; dz++ {
				for _, id := range w.grid[[3]int64{c[0] + dx, c[1] + dy, c[2] + dz}] {
					q := w.Pts[id]
					if math.Abs(q.X-p.X) <= w.tol && math.Abs(q.Y-p.Y) <= w.tol && math.Abs(q.Z-p.Z) <= w.tol {
						return id
					}
				}
			}
		}
	}
	id := len(w.Pts)
	w.Pts = append(w.Pts, p)
	w.grid[c] = append(w.grid[c], id)
	return id
}

// Report3 is the result of checking a triangle mesh.
type Report3 struct {
	Triangles      int
	Vertices       int
	Unbalanced     int       // undirected edges whose two directions do not occur equally often
	UnbalancedEdge [2]v3.Vec // one example
	Repeated       int       // triangles with two identical welded vertices
	RepeatedTri    sdf.Triangle3
	NonManifold    int // edges used by more than 2 triangles (informational)
	Volume         float64
	Components     int
	CompVolumes    []float64
	NaN            int
	Tris           [][3]int // welded vertex ids per (finite) triangle
	Src            []int    // index into the input of each entry of Tris
	// RepeatedExact counts triangles with two bit-identical vertices (Repeated counts identity after welding,
	// which also flags legitimate micro-triangles of a surface passing within the weld tolerance of a corner)
	RepeatedExact    int
	RepeatedExactTri sdf.Triangle3
	W                *Welder3
}

func finite3(t *sdf.Triangle3) bool {
	s := t[0].X + t[0].Y + t[0].Z + t[1].X + t[1].Y + t[1].Z + t[2].X + t[2].Y + t[2].Z
	return !math.IsNaN(s) && !math.IsInf(s, 0)
}

// Check3 welds the vertices with tolerance tol and checks closedness and orientation consistency.
func Check3(ts []*sdf.Triangle3, tol float64) *Report3 {
	r := &Report3{Triangles: len(ts)}
	w := NewWelder3(tol)
	r.W = w
	type edge struct{ a, b int }
	bal := map[edge]int{}
	use := map[edge]int{}
	for k, t := range ts {
		if !finite3(t) {
			r.NaN++
			continue
		}
		id := [3]int{w.ID(t[0]), w.ID(t[1]), w.ID(t[2])}
		r.Tris = append(r.Tris, id)
		r.Src = append(r.Src, k)
		if id[0] == id[1] || id[1] == id[2] || id[0] == id[2] {
			if r.Repeated == 0 {
				r.RepeatedTri = *t
			}
			r.Repeated++
		}
		if t[0] == t[1] || t[1] == t[2] || t[0] == t[2] {
			if r.RepeatedExact == 0 {
				r.RepeatedExactTri = *t
			}
			r.RepeatedExact++
		}
		for i := 0; i < 3; i++ {
			a, b := id[i], id[(i+1)%3]
			if a == b {
				continue
			}
			if a < b {
				bal[edge{a, b}]++
				use[edge{a, b}]++
			} else {
				bal[edge{b, a}]--
				use[edge{b, a}]++
			}
		}
		// signed tetrahedra against a point of the mesh, not the origin (no cancellation for meshes far away)
		r.Volume += t[0].Sub(ts[0][0]).Dot(t[1].Sub(ts[0][0]).Cross(t[2].Sub(ts[0][0]))) / 6
	}
	r.Vertices = len(w.Pts)
	for e, n := range bal {
		if n != 0 {
			if r.Unbalanced == 0 {
				r.UnbalancedEdge = [2]v3.Vec{w.Pts[e.a], w.Pts[e.b]}
			}
			r.Unbalanced++
		}
		if use[e] > 2 {
			r.NonManifold++
		}
	}
	// connected components over shared edges
	parent := make([]int, len(r.Tris))
	for i := range parent {
		parent[i] = i
	}
	find := func(x int) int {
		for parent[x] != x {
			parent[x] = parent[parent[x]]
			x = parent[x]
		}
		return x
	}
	first := map[edge]int{}
	for ti, id := range r.Tris {
		for i := 0; i < 3; i++ {
			a, b := id[i], id[(i+1)%3]
			if a > b {
				a, b = b, a
			}
			if a == b {
				continue
			}
			if o, ok := first[edge{a, b}]; ok {
				parent[find(ti)] = find(o)
			} else {
				first[edge{a, b}] = ti
			}
		}
	}
	vol := map[int]float64{}
	for ti := range r.Tris {
		t := ts[r.Src[ti]]
		vol[find(ti)] += t[0].Sub(ts[0][0]).Dot(t[1].Sub(ts[0][0]).Cross(t[2].Sub(ts[0][0]))) / 6
	}
	r.Components = len(vol)
	for _, v := range vol {
		r.CompVolumes = append(r.CompVolumes, v)
	}
	return r
}

// ---------------------------------------------------------------------------------------------

// Report2 is the result of checking a segment set.
type Report2 struct {
	Segments  int
	Vertices  int
	OddDegree int
	OddVertex v2.Vec
	Imbalance int // vertices whose in-degree differs from out-degree
	ImbVertex v2.Vec
	Degree    map[int]int // histogram of degrees
	ZeroLen   int
	Length    float64
	Area      float64 // signed area enclosed (shoelace over directed segments)
	NaN       int
	Pts       []v2.Vec
}

// Check2 welds endpoints with tolerance tol and checks degrees.
func Check2(ls []*sdf.Line2, tol float64) *Report2 {
	r := &Report2{Segments: len(ls), Degree: map[int]int{}}
	var pts []v2.Vec
	grid := map[[2]int64][]int{}
	id := func(p v2.Vec) int {
		c := [2]int64{int64(math.Floor(p.X / tol)), int64(math.Floor(p.Y / tol))}
		for dx := int64(-1); dx <= 1; dx++ {
			for dy := int64(-1); dy <= 1; dy++ {
				for _, i := range grid[[2]int64{c[0] + dx, c[1] + dy}] {
					q := pts[i]
					if math.Abs(q.X-p.X) <= tol && math.Abs(q.Y-p.Y) <= tol {
						return i
					}
				}
			}
		}
		pts = append(pts, p)
		grid[c] = append(grid[c], len(pts)-1)
		return len(pts) - 1
	}
	in := map[int]int{}
	out := map[int]int{}
	for _, l := range ls {
		s := l[0].X + l[0].Y + l[1].X + l[1].Y
		if math.IsNaN(s) || math.IsInf(s, 0) {
			r.NaN++
			continue
		}
		a, b := id(l[0]), id(l[1])
		if a == b {
			r.ZeroLen++
			continue
		}
		out[a]++
		in[b]++
		r.Length += l[1].Sub(l[0]).Length()
		r.Area += (l[0].X*l[1].Y - l[1].X*l[0].Y) / 2
	}
	r.Vertices = len(pts)
	r.Pts = pts
	for i := range pts {
		d := in[i] + out[i]
		r.Degree[d]++
		if d%2 != 0 {
			if r.OddDegree == 0 {
				r.OddVertex = pts[i]
			}
			r.OddDegree++
		}
		if in[i] != out[i] {
			if r.Imbalance == 0 {
				r.ImbVertex = pts[i]
			}
			r.Imbalance++
		}
	}
	return r
}
