package shapes

import (
	"fmt"

	"github.com/deadsy/sdfx/obj"
	"github.com/deadsy/sdfx/sdf"
	v2 "github.com/deadsy/sdfx/vec/v2"
)

// Leaves2 returns the menu of 2D leaf shapes: every 2D primitive of package sdf, every 2D part of
// package obj (with parameter sets that are valid per the constructor's validation, preferably the
// ones used in /repo/examples), and positioned (translated) variants of a representative subset.
// Every call returns fresh closures; every Build constructs a fresh shape.
func Leaves2() []Leaf2 {
	var ls []Leaf2
	ls = append(ls, sdfLeaves2()...)
	ls = append(ls, objLeaves2()...)
	ls = append(ls, positioned2(ls, positions2)...)
	return ls
}

// positions2 selects the leaves that also get a translated copy (into the negative quadrant).
var positions2 = map[string]v2.Vec{
	"Circle2D(r=1)":                               xy(-5, -5),
	"Box2D(2x1,r=0.25)":                           xy(-5, -5),
	"Line2D(l=4,r=0.5)":                           xy(-5, -5),
	"Polygon2D(L-shape)":                          xy(-5, -5),
	"Mesh2D(triangle)":                            xy(-5, -5),
	"FlatFlankCam2D(d=4,rb=2,rn=1)":               xy(-5, -5),
	"ThreeArcCam2D(d=4,rb=2,rn=1,rf=min+)":        xy(-5, -5),
	"NewFlange1(d=4,rc=2,rs=1)":                   xy(-5, -5),
	"GearRack2D(n=4,m=0.5,pa=20,bl=0.0625,h=0.5)": xy(-5, -5),
	"ArcSpiral2D(a=0.25,k=1,0..2tau,d=0.125)":     xy(-5, -5),
	"CubicSpline2D(5 knots)":                      xy(-5, -5),
	"ISOThread(r=2,p=0.5,external)":               xy(-5, -5),
	"obj.Hex2D(r=2,round=0.25)":                   xy(-5, -5),
	"obj.Washer2D(ri=1,ro=2)":                     xy(-5, -5),
}

//-----------------------------------------------------------------------------
// package sdf

func sdfLeaves2() []Leaf2 {
	var ls []Leaf2
	add := func(l Leaf2) { ls = append(ls, l) }

	// Circle2D (exact)
	for _, r := range []float64{1, 0.5, 3.5} {
		r := r
		add(mk2(fmt.Sprintf("Circle2D(r=%s)", g(r)), "Circle2D", true, true, func() (sdf.SDF2, error) {
			return sdf.Circle2D(r)
		}))
	}

	// Box2D (exact, any rounding). 4x4,r=2 is the maximum rounding (a circle).
	for _, k := range []struct{ x, y, r float64 }{
		{2, 1, 0}, {2, 1, 0.25}, {3, 0.5, 0}, {4, 4, 2}, {2, 1, 0.5},
	} {
		k := k
		add(mk2(fmt.Sprintf("Box2D(%sx%s,r=%s)", g(k.x), g(k.y), g(k.r)), "Box2D", true, true, func() (sdf.SDF2, error) {
			return ok2(sdf.Box2D(xy(k.x, k.y), k.r))
		}))
	}

	// Line2D (exact). round=0 is a zero thickness segment: Evaluate >= 0 everywhere,
	// the bounding box has zero height.
	for _, k := range []struct{ l, r float64 }{
		{4, 0}, {4, 0.5}, {1, 2}, {10, 3},
	} {
		k := k
		add(mk2(fmt.Sprintf("Line2D(l=%s,r=%s)", g(k.l), g(k.r)), "Line2D", true, true, func() (sdf.SDF2, error) {
			return ok2(sdf.Line2D(k.l, k.r))
		}))
	}

	// Polygon2D of simple polygons (exact)
	for _, k := range []struct {
		name string
		v    func() []v2.Vec
	}{
		{"triangle", polyTriangle},
		{"triangle-cw", polyTriangleCW},
		{"L-shape", polyL},
		{"rect4x2+collinear", polyRectCollinear},
		// rectilinear plates with inner edges on the centre / quarter lines of their bounding square, at sizes for
		// which the quadtree's split coordinate rounds differently (polygon quadtree alignments, see C04)
		{"L-plate 2x2 x5", func() []v2.Vec { return scalePts(pts(0, 0, 2, 0, 2, 1, 1, 1, 1, 2, 0, 2), 5) }},
		{"L-plate 2x2 x13", func() []v2.Vec { return scalePts(pts(0, 0, 2, 0, 2, 1, 1, 1, 1, 2, 0, 2), 13) }},
		{"T-plate 4x4 x3", func() []v2.Vec { return scalePts(pts(0, 0, 4, 0, 4, 1, 3, 1, 3, 4, 1, 4, 1, 1, 0, 1), 3) }},
		{"flange-and-hub 20x1.8 (hub edge on the centre line)", func() []v2.Vec { return pts(0, 0, 20, 0, 20, 1, 10, 1, 10, 1.8, 0, 1.8) }},
		{"flange-and-hub 24x1.8", func() []v2.Vec { return pts(0, 0, 24, 0, 24, 1, 12, 1, 12, 1.8, 0, 1.8) }},
		{"T on its side 34x3", func() []v2.Vec { return pts(0, 0, 17, 0, 17, 1, 34, 1, 34, 2, 17, 2, 17, 3, 0, 3) }},
		{"hub-plate 4x4 x0.7", func() []v2.Vec {
			return scalePts(pts(0, 0, 4, 0, 4, 2, 2, 2, 2, 4, 0, 4, 0, 3, 1, 3, 1, 1, 0, 1), 0.7)
		}},
	} {
		k := k
		add(mk2("Polygon2D("+k.name+")", "Polygon2D", true, true, func() (sdf.SDF2, error) {
			return sdf.Polygon2D(k.v())
		}))
	}

	// Nagon based polygons (exact)
	for _, k := range []struct {
		n int
		r float64
	}{
		{3, 1}, {5, 2}, {8, 1.5},
	} {
		k := k
		add(mk2(fmt.Sprintf("Polygon2D(Nagon(n=%d,r=%s))", k.n, g(k.r)), "Polygon2D", true, true, func() (sdf.SDF2, error) {
			return sdf.Polygon2D(sdf.Nagon(k.n, k.r))
		}))
	}

	// Mesh2D / Mesh2DSlow from the line segments of a simple polygon (exact)
	for _, k := range []struct {
		name string
		m    func() []*sdf.Line2
	}{
		{"triangle", func() []*sdf.Line2 { return sdf.VertexToLine(polyTriangle(), true) }},
		{"L-shape", func() []*sdf.Line2 { return sdf.VertexToLine(polyL(), true) }},
		{"square-shuffled-segments", squareSegmentsShuffled},
	} {
		k := k
		add(mk2("Mesh2D("+k.name+")", "Mesh2D", true, true, func() (sdf.SDF2, error) {
			return sdf.Mesh2D(k.m())
		}))
		add(mk2("Mesh2DSlow("+k.name+")", "Mesh2DSlow", true, true, func() (sdf.SDF2, error) {
			return sdf.Mesh2DSlow(k.m())
		}))
	}

	// Polygon builder -> Polygon2D: Smooth, Chamfer, Arc, Rel and Polar vertices.
	// The results are simple polygons, so Polygon2D of them is exact.
	add(mk2("Polygon2D(NewPolygon:4x2 closed,smooth(0.5,4)/chamfer(0.5)/smooth(0.5,3)/plain)", "Polygon2D", true, true, func() (sdf.SDF2, error) {
		p := sdf.NewPolygon()
		p.Add(0, 0).Smooth(0.5, 4)
		p.Add(4, 0).Chamfer(0.5)
		p.Add(4, 2).Smooth(0.5, 3)
		p.Add(0, 2)
		p.Close()
		return sdf.Polygon2D(p.Vertices())
	}))
	add(mk2("Polygon2D(NewPolygon:4x2,arc(r=1.5,6) on the right side)", "Polygon2D", true, true, func() (sdf.SDF2, error) {
		p := sdf.NewPolygon()
		p.Add(0, 0)
		p.Add(4, 0)
		p.Add(4, 2).Arc(1.5, 6)
		p.Add(0, 2)
		return sdf.Polygon2D(p.Vertices())
	}))
	add(mk2("Polygon2D(NewPolygon:4x2,arc(r=-1.5,6) on the right side)", "Polygon2D", true, true, func() (sdf.SDF2, error) {
		p := sdf.NewPolygon()
		p.Add(0, 0)
		p.Add(4, 0)
		p.Add(4, 2).Arc(-1.5, 6)
		p.Add(0, 2)
		return sdf.Polygon2D(p.Vertices())
	}))
	add(mk2("Polygon2D(NewPolygon:L-shape by relative steps (4,0),(0,1),(-3,0),(0,2),(-1,0))", "Polygon2D", true, true, func() (sdf.SDF2, error) {
		// the L-shape with consecutive relative vertices (as in examples/camshaft)
		p := sdf.NewPolygon()
		p.Add(0, 0)
		p.Add(4, 0).Rel()
		p.Add(0, 1).Rel()
		p.Add(-3, 0).Rel()
		p.Add(0, 2).Rel()
		p.Add(-1, 0).Rel()
		return sdf.Polygon2D(p.Vertices())
	}))
	add(mk2("Polygon2D(NewPolygon:polar r=2 at 0,90,180,270 deg,smooth(0.25,3))", "Polygon2D", true, true, func() (sdf.SDF2, error) {
		p := sdf.NewPolygon()
		p.Add(2, deg(0)).Polar().Smooth(0.25, 3)
		p.Add(2, deg(90)).Polar().Smooth(0.25, 3)
		p.Add(2, deg(180)).Polar().Smooth(0.25, 3)
		p.Add(2, deg(270)).Polar().Smooth(0.25, 3)
		p.Close()
		return sdf.Polygon2D(p.Vertices())
	}))
	// the Mesh2D method of the builder
	add(mk2("Polygon.Mesh2D(NewPolygon:L-shape,inner corner smooth(0.5,4))", "Polygon.Mesh2D", false, true, func() (sdf.SDF2, error) {
		p := sdf.NewPolygon()
		p.Add(0, 0)
		p.Add(4, 0)
		p.Add(4, 1)
		p.Add(1, 1).Smooth(0.5, 4)
		p.Add(1, 3)
		p.Add(0, 3)
		return p.Mesh2D()
	}))
	add(mk2("Polygon.Mesh2D(NewPolygon:triangle,reversed)", "Polygon.Mesh2D", false, true, func() (sdf.SDF2, error) {
		p := sdf.NewPolygon()
		p.AddV2Set(polyTriangle())
		p.Reverse()
		return p.Mesh2D()
	}))

	// Bezier curves (examples/bezier). Polygon approximations of the curve: not exact.
	add(mk2("Bezier.Mesh2D(egg1)", "Bezier.Mesh2D", false, false, func() (sdf.SDF2, error) {
		b := sdf.NewBezier()
		b.Add(0, 0).HandleFwd(deg(0), 10)
		b.Add(0, 16).HandleRev(deg(0), 5)
		b.Close()
		return b.Mesh2D()
	}))
	add(mk2("Bezier.Mesh2D(egg2)", "Bezier.Mesh2D", false, false, func() (sdf.SDF2, error) {
		h := 8.0
		r := 2.5
		b := sdf.NewBezier()
		b.Add(0, 0).HandleFwd(deg(0), r/2)
		b.Add(r, 0.4*h).Handle(deg(90), 0.7*r, 0.7*r)
		b.Add(0, h).HandleRev(deg(0), r/3)
		b.Close()
		return b.Mesh2D()
	}))
	add(mk2("Bezier.Mesh2D(bowlingpin)", "Bezier.Mesh2D", false, false, func() (sdf.SDF2, error) {
		b := sdf.NewBezier()
		b.Add(0, 0)
		b.Add(2.031/2.0, 0).HandleFwd(deg(45), 2)
		b.Add(4.766/2.0, 4.5).Handle(deg(90), 2, 2)
		b.Add(1.797/2.0, 10).Handle(deg(90), 3, 3)
		b.Add(2.547/2.0, 13.5).Handle(deg(90), 1, 1)
		b.Add(0, 15).HandleRev(deg(0), 1)
		b.Close()
		return b.Mesh2D()
	}))
	add(mk2("Bezier.Mesh2D(quadratic:(0,0),mid(2,3),(4,0),closed)", "Bezier.Mesh2D", false, false, func() (sdf.SDF2, error) {
		b := sdf.NewBezier()
		b.Add(0, 0)
		b.Add(2, 3).Mid()
		b.Add(4, 0)
		b.Close()
		return b.Mesh2D()
	}))
	add(mk2("Polygon.Mesh2D(Bezier.Polygon(cubic:(0,0),mid(1,3),mid(3,3),(4,0),closed))", "Polygon.Mesh2D", false, false, func() (sdf.SDF2, error) {
		b := sdf.NewBezier()
		b.Add(0, 0)
		b.Add(1, 3).Mid()
		b.Add(3, 3).Mid()
		b.Add(4, 0)
		b.Close()
		p, err := b.Polygon()
		if err != nil {
			return nil, err
		}
		return p.Mesh2D()
	}))

	// CubicSpline2D: an open curve, Evaluate is an unsigned distance found by Newton-Raphson
	// (documented as unstable). NOTE: CubicSplineSDF2.Evaluate prints a debug line to stdout on
	// every Newton iteration and hard-codes the number of splines as 9 (see the 12 knot leaf).
	for _, k := range []struct {
		name string
		v    []v2.Vec
	}{
		{"2 knots", pts(0, 0, 4, 2)},
		{"5 knots", pts(0, 0, 1, 2, 2, 0, 3, -2, 4, 0)},
		{"10 knots", pts(0, 0, 1, 1, 2, 0, 3, 1, 4, 0, 5, 1, 6, 0, 7, 1, 8, 0, 9, 1)},
		{"12 knots", pts(0, 0, 1, 1, 2, 0, 3, 1, 4, 0, 5, 1, 6, 0, 7, 1, 8, 0, 9, 1, 10, 0, 11, 1)},
	} {
		k := k
		add(mk2("CubicSpline2D("+k.name+")", "CubicSpline2D", false, false, func() (sdf.SDF2, error) {
			return sdf.CubicSpline2D(append([]v2.Vec(nil), k.v...))
		}))
	}
	add(mk2("CubicSplineSDF2.PolySpline2D(arch (0,0),(1,2),(3,2),(4,0),n=20)", "CubicSplineSDF2.PolySpline2D", false, false, func() (sdf.SDF2, error) {
		s, err := sdf.CubicSpline2D(pts(0, 0, 1, 2, 3, 2, 4, 0))
		if err != nil {
			return nil, err
		}
		return s.(*sdf.CubicSplineSDF2).PolySpline2D(20)
	}))

	// FlatFlankCam2D (examples/benchmark, examples/joko)
	for _, k := range []struct{ d, rb, rn float64 }{
		{4, 2, 1}, {30, 20, 5}, {9.75 - 1.89 - 1.0, 1.89, 1.0},
	} {
		k := k
		add(mk2(fmt.Sprintf("FlatFlankCam2D(d=%s,rb=%s,rn=%s)", g(k.d), g(k.rb), g(k.rn)), "FlatFlankCam2D", false, false, func() (sdf.SDF2, error) {
			return sdf.FlatFlankCam2D(k.d, k.rb, k.rn)
		}))
	}

	// MakeFlatFlankCam (examples/test)
	for _, k := range []struct{ lift, dur, dia float64 }{
		{0.5, 120, 4}, {0.094, 115, 0.625},
	} {
		k := k
		add(mk2(fmt.Sprintf("MakeFlatFlankCam(lift=%s,duration=%sdeg,dia=%s)", g(k.lift), g(k.dur), g(k.dia)), "MakeFlatFlankCam", false, false, func() (sdf.SDF2, error) {
			return sdf.MakeFlatFlankCam(k.lift, deg(k.dur), k.dia)
		}))
	}

	// ThreeArcCam2D: admissible flank radius >= (rb+d+rn)/2. "min+" is minimum*(1+2^-20).
	// The library's own TODO says the bounding box is wrong for small flank radii.
	for _, k := range []struct {
		d, rb, rn float64
		rf        float64 // 0: just above the admissible minimum
	}{
		{4, 2, 1, 0}, {4, 2, 1, 4}, {4, 2, 1, 8},
		{30, 20, 5, 0}, {30, 20, 5, 32}, {30, 20, 5, 200}, {30, 20, 5, 50000},
	} {
		k := k
		rfName := g(k.rf)
		if k.rf == 0 {
			rfName = "min+"
		}
		add(mk2(fmt.Sprintf("ThreeArcCam2D(d=%s,rb=%s,rn=%s,rf=%s)", g(k.d), g(k.rb), g(k.rn), rfName), "ThreeArcCam2D", false, false, func() (sdf.SDF2, error) {
			rf := k.rf
			if rf == 0 {
				rf = (k.rb + k.d + k.rn) / 2.0 * (1 + 0x1p-20)
			}
			return sdf.ThreeArcCam2D(k.d, k.rb, k.rn, rf)
		}))
	}

	// MakeThreeArcCam (examples/test, examples/camshaft)
	for _, k := range []struct{ lift, dur, dia, k float64 }{
		{0.5, 120, 4, 1.125}, {0.1, 160, 0.7, 1.1}, {0.0625, 115, 0.625, 1.05},
	} {
		k := k
		add(mk2(fmt.Sprintf("MakeThreeArcCam(lift=%s,duration=%sdeg,dia=%s,k=%s)", g(k.lift), g(k.dur), g(k.dia), g(k.k)), "MakeThreeArcCam", false, false, func() (sdf.SDF2, error) {
			return sdf.MakeThreeArcCam(k.lift, deg(k.dur), k.dia, k.k)
		}))
	}

	// NewFlange1 (examples/test). NewFlange1 itself returns the SDF2.
	for _, k := range []struct{ d, rc, rs float64 }{
		{4, 2, 1}, {30, 20, 10}, {3, 1, 1},
	} {
		k := k
		add(mk2(fmt.Sprintf("NewFlange1(d=%s,rc=%s,rs=%s)", g(k.d), g(k.rc), g(k.rs)), "NewFlange1", false, false, func() (sdf.SDF2, error) {
			return ok2(sdf.NewFlange1(k.d, k.rc, k.rs))
		}))
	}

	// GearRack2D (examples/gears)
	for _, k := range []struct {
		n         int
		m, pa, bl float64
		h         float64
	}{
		{4, 0.5, 20, 0.0625, 0.5}, {11, (5.0 / 8.0) / 20.0, 20, 0, 0.025}, {1, 1, 14.5, 0, 0},
	} {
		k := k
		add(mk2(fmt.Sprintf("GearRack2D(n=%d,m=%s,pa=%s,bl=%s,h=%s)", k.n, g(k.m), g(k.pa), g(k.bl), g(k.h)), "GearRack2D", false, false, func() (sdf.SDF2, error) {
			return sdf.GearRack2D(&sdf.GearRackParms{
				NumberTeeth:   k.n,
				Module:        k.m,
				PressureAngle: deg(k.pa),
				Backlash:      k.bl,
				BaseHeight:    k.h,
			})
		}))
	}

	// ArcSpiral2D (examples/spiral)
	add(mk2("ArcSpiral2D(a=0.25,k=1,0..2tau,d=0.125)", "ArcSpiral2D", false, false, func() (sdf.SDF2, error) {
		return sdf.ArcSpiral2D(0.25, 1, 0, 2*sdf.Tau, 0.125)
	}))
	add(mk2("ArcSpiral2D(a=0.5,k=0.5,tau..0 (swapped),d=0.25)", "ArcSpiral2D", false, false, func() (sdf.SDF2, error) {
		return sdf.ArcSpiral2D(0.5, 0.5, sdf.Tau, 0, 0.25)
	}))
	add(mk2("ArcSpiral2D(a=-0.25,k=4,0..2tau,d=0.125)", "ArcSpiral2D", false, false, func() (sdf.SDF2, error) {
		return sdf.ArcSpiral2D(-0.25, 4, 0, 2*sdf.Tau, 0.125)
	}))
	add(mk2("ArcSpiral2D(a=1,k=20,pi/4..8tau,d=1)", "ArcSpiral2D", false, false, func() (sdf.SDF2, error) {
		return sdf.ArcSpiral2D(1.0, 20.0, 0.25*sdf.Pi, 8*sdf.Tau, 1.0)
	}))

	// thread profiles (screw.go): polygons of a simple profile (1-Lipschitz, built by Polygon2D)
	for _, k := range []struct{ r, p float64 }{{2, 0.5}, {5, 2}} {
		k := k
		add(mk2(fmt.Sprintf("ISOThread(r=%s,p=%s,external)", g(k.r), g(k.p)), "ISOThread", false, true, func() (sdf.SDF2, error) {
			return sdf.ISOThread(k.r, k.p, true)
		}))
		add(mk2(fmt.Sprintf("ISOThread(r=%s,p=%s,internal)", g(k.r), g(k.p)), "ISOThread", false, true, func() (sdf.SDF2, error) {
			return sdf.ISOThread(k.r, k.p, false)
		}))
		add(mk2(fmt.Sprintf("AcmeThread(r=%s,p=%s)", g(k.r), g(k.p)), "AcmeThread", false, true, func() (sdf.SDF2, error) {
			return sdf.AcmeThread(k.r, k.p)
		}))
		add(mk2(fmt.Sprintf("ANSIButtressThread(r=%s,p=%s)", g(k.r), g(k.p)), "ANSIButtressThread", false, true, func() (sdf.SDF2, error) {
			return sdf.ANSIButtressThread(k.r, k.p)
		}))
		add(mk2(fmt.Sprintf("PlasticButtressThread(r=%s,p=%s)", g(k.r), g(k.p)), "PlasticButtressThread", false, true, func() (sdf.SDF2, error) {
			return sdf.PlasticButtressThread(k.r, k.p)
		}))
	}

	// Text2D (examples/text). The font is loaded on every Build.
	for _, k := range []struct {
		s string
		h float64
	}{
		{"Hi", 4}, {"a\nB", 10},
	} {
		k := k
		add(mk2(fmt.Sprintf("Text2D(%q,h=%s)", k.s, g(k.h)), "Text2D", false, false, func() (sdf.SDF2, error) {
			f, err := sdf.LoadFont(FontPath)
			if err != nil {
				return nil, err
			}
			return sdf.Text2D(f, sdf.NewText(k.s), k.h)
		}))
	}

	return ls
}

//-----------------------------------------------------------------------------
// package obj

func objLeaves2() []Leaf2 {
	var ls []Leaf2
	add := func(l Leaf2) { ls = append(ls, l) }

	// obj.Angle2D (examples/angle): a Polygon2D
	add(mk2("obj.Angle2D(X=4x0.5,Y=4x0.5,root=0.5)", "obj.Angle2D", false, true, func() (sdf.SDF2, error) {
		return obj.Angle2D(&obj.AngleParms{X: obj.AngleLeg{Length: 4, Thickness: 0.5}, Y: obj.AngleLeg{Length: 4, Thickness: 0.5}, RootRadius: 0.5})
	}))
	add(mk2("obj.Angle2D(X=3x0.5,Y=2x0.25,root=0)", "obj.Angle2D", false, true, func() (sdf.SDF2, error) {
		return obj.Angle2D(&obj.AngleParms{X: obj.AngleLeg{Length: 3, Thickness: 0.5}, Y: obj.AngleLeg{Length: 2, Thickness: 0.25}, RootRadius: 0})
	}))
	add(mk2("obj.Angle2D(X=31.75x3.175,Y=31.75x3.175,root=3.175)", "obj.Angle2D", false, true, func() (sdf.SDF2, error) {
		const l = 1.25 * sdf.MillimetresPerInch
		const t = 0.125 * sdf.MillimetresPerInch
		return obj.Angle2D(&obj.AngleParms{X: obj.AngleLeg{Length: l, Thickness: t}, Y: obj.AngleLeg{Length: l, Thickness: t}, RootRadius: t})
	}))

	// obj.BoltCircle2D (examples/maixgo). Lip is left false for everything that uses RotateCopy2D
	// (sector mapping: only the copy of the sector containing p is evaluated).
	add(mk2("obj.BoltCircle2D(rh=0.5,rc=4,n=6)", "obj.BoltCircle2D", false, false, func() (sdf.SDF2, error) {
		return obj.BoltCircle2D(0.5, 4, 6)
	}))
	add(mk2("obj.BoltCircle2D(rh=1,rc=2,n=3)", "obj.BoltCircle2D", false, false, func() (sdf.SDF2, error) {
		return obj.BoltCircle2D(1, 2, 3)
	}))

	// obj.FingerButton2D (examples/axoloti)
	add(mk2("obj.FingerButton2D(w=4,gap=0.5,l=16)", "obj.FingerButton2D", false, true, func() (sdf.SDF2, error) {
		return obj.FingerButton2D(&obj.FingerButtonParms{Width: 4, Gap: 0.5, Length: 16})
	}))
	add(mk2("obj.FingerButton2D(w=4,gap=0.6,l=20)", "obj.FingerButton2D", false, true, func() (sdf.SDF2, error) {
		return obj.FingerButton2D(&obj.FingerButtonParms{Width: 4, Gap: 0.6, Length: 20})
	}))

	// obj.InvoluteGear (examples/gears)
	add(mk2("obj.InvoluteGear(n=12,m=0.5,pa=20,bl=0,cl=0.125,ring=0,facets=5)", "obj.InvoluteGear", false, false, func() (sdf.SDF2, error) {
		return obj.InvoluteGear(&obj.InvoluteGearParms{NumberTeeth: 12, Module: 0.5, PressureAngle: deg(20), Backlash: 0, Clearance: 0.125, RingWidth: 0, Facets: 5})
	}))
	add(mk2("obj.InvoluteGear(n=20,m=0.03125,pa=20,bl=0,cl=0,ring=0.05,facets=7)", "obj.InvoluteGear", false, false, func() (sdf.SDF2, error) {
		return obj.InvoluteGear(&obj.InvoluteGearParms{NumberTeeth: 20, Module: (5.0 / 8.0) / 20.0, PressureAngle: deg(20), RingWidth: 0.05, Facets: 7})
	}))

	// obj.Geneva2D (examples/geneva): both results are leaves
	for _, k := range []obj.GenevaParms{
		{NumSectors: 6, CenterDistance: 50, DriverRadius: 20, DrivenRadius: 40, PinRadius: 2.5, Clearance: 0.1},
		{NumSectors: 10, CenterDistance: 45, DriverRadius: 12, DrivenRadius: 45, PinRadius: 2, Clearance: 0.1},
		{NumSectors: 4, CenterDistance: 8, DriverRadius: 4, DrivenRadius: 6, PinRadius: 0.5, Clearance: 0.125},
	} {
		k := k
		name := fmt.Sprintf("obj.Geneva2D(n=%d,cd=%s,rdriver=%s,rdriven=%s,rpin=%s,cl=%s)", k.NumSectors, g(k.CenterDistance), g(k.DriverRadius), g(k.DrivenRadius), g(k.PinRadius), g(k.Clearance))
		add(mk2(name+"[driver]", "obj.Geneva2D", false, false, func() (sdf.SDF2, error) {
			kk := k
			driver, _, err := obj.Geneva2D(&kk)
			return driver, err
		}))
		add(mk2(name+"[driven]", "obj.Geneva2D", false, false, func() (sdf.SDF2, error) {
			kk := k
			_, driven, err := obj.Geneva2D(&kk)
			return driven, err
		}))
	}

	// obj.Hex2D: offset of a hexagon
	for _, k := range []struct{ r, round float64 }{{2, 0}, {2, 0.25}} {
		k := k
		add(mk2(fmt.Sprintf("obj.Hex2D(r=%s,round=%s)", g(k.r), g(k.round)), "obj.Hex2D", false, true, func() (sdf.SDF2, error) {
			return obj.Hex2D(k.r, k.round)
		}))
	}

	// obj.Keyway2D (examples/joko): bore profile (key proud of shaft) and shaft profile (key cut in)
	for _, k := range []obj.KeywayParameters{
		{ShaftRadius: 0.55, KeyRadius: 0.77, KeyWidth: 0.35},
		{ShaftRadius: 2, KeyRadius: 1.5, KeyWidth: 0.5},
	} {
		k := k
		add(mk2(fmt.Sprintf("obj.Keyway2D(rshaft=%s,rkey=%s,wkey=%s)", g(k.ShaftRadius), g(k.KeyRadius), g(k.KeyWidth)), "obj.Keyway2D", false, true, func() (sdf.SDF2, error) {
			kk := k
			return obj.Keyway2D(&kk)
		}))
	}

	// obj.Panel2D (examples/pico_cnc)
	add(mk2("obj.Panel2D(8x4,corner=0.5,no holes)", "obj.Panel2D", false, true, func() (sdf.SDF2, error) {
		return obj.Panel2D(&obj.PanelParms{Size: xy(8, 4), CornerRadius: 0.5})
	}))
	add(mk2("obj.Panel2D(40x30,corner=4,hole=3.5,margin=7,pattern=x/xx/x/xx)", "obj.Panel2D", false, true, func() (sdf.SDF2, error) {
		return obj.Panel2D(&obj.PanelParms{
			Size:         xy(40, 30),
			CornerRadius: 4,
			HoleDiameter: 3.5,
			HoleMargin:   [4]float64{7, 7, 7, 7},
			HolePattern:  [4]string{"x", "xx", "x", "xx"},
		})
	}))
	add(mk2("obj.Panel2D(64x48,corner=5,hole=3.5,margin=6,pattern=.x...x on all sides)", "obj.Panel2D", false, true, func() (sdf.SDF2, error) {
		return obj.Panel2D(&obj.PanelParms{
			Size:         xy(64, 48),
			CornerRadius: 5,
			HoleDiameter: 3.5,
			HoleMargin:   [4]float64{6, 6, 6, 6},
			HolePattern:  [4]string{".x...x", ".x...x", ".x...x", ".x...x"},
		})
	}))

	// obj.EuroRackPanel2D (examples/eurorack)
	add(mk2("obj.EuroRackPanel2D(U=3,HP=12,corner=3,hole=3.6)", "obj.EuroRackPanel2D", false, true, func() (sdf.SDF2, error) {
		return obj.EuroRackPanel2D(&obj.EuroRackParms{U: 3, HP: 12, CornerRadius: 3, HoleDiameter: 3.6})
	}))
	add(mk2("obj.EuroRackPanel2D(U=1,HP=4,corner=0,hole=default)", "obj.EuroRackPanel2D", false, true, func() (sdf.SDF2, error) {
		return obj.EuroRackPanel2D(&obj.EuroRackParms{U: 1, HP: 4})
	}))

	// obj.Servo2D (examples/servo, examples/delta)
	add(mk2("obj.Servo2D(nano,hole=-1)", "obj.Servo2D", false, true, func() (sdf.SDF2, error) {
		k, err := obj.ServoLookup("nano")
		if err != nil {
			return nil, err
		}
		return obj.Servo2D(k, -1)
	}))
	add(mk2("obj.Servo2D(annimos_ds3218,hole=2.1)", "obj.Servo2D", false, true, func() (sdf.SDF2, error) {
		k, err := obj.ServoLookup("annimos_ds3218")
		if err != nil {
			return nil, err
		}
		return obj.Servo2D(k, 2.1)
	}))

	// obj.ServoHorn (examples/delta)
	add(mk2("obj.ServoHorn(rc=3,n=4,rcircle=7,rh=1.9)", "obj.ServoHorn", false, false, func() (sdf.SDF2, error) {
		return obj.ServoHorn(&obj.ServoHornParms{CenterRadius: 3, NumHoles: 4, CircleRadius: 14 * 0.5, HoleRadius: 1.9})
	}))
	add(mk2("obj.ServoHorn(rc=2,no holes)", "obj.ServoHorn", false, true, func() (sdf.SDF2, error) {
		return obj.ServoHorn(&obj.ServoHornParms{CenterRadius: 2})
	}))
	add(mk2("obj.ServoHorn(rc=0,n=3,rcircle=4,rh=0.5)", "obj.ServoHorn", false, false, func() (sdf.SDF2, error) {
		return obj.ServoHorn(&obj.ServoHornParms{NumHoles: 3, CircleRadius: 4, HoleRadius: 0.5})
	}))

	// obj.SpringParms.Spring2D (examples/pico_cnc)
	add(mk2("obj.SpringParms.Spring2D(w=8,wall=1,dia=5,n=3,boss=4/8)", "obj.SpringParms.Spring2D", false, true, func() (sdf.SDF2, error) {
		k := &obj.SpringParms{Width: 8, WallThickness: 1, Diameter: 5, NumSections: 3, Boss: [2]float64{4, 8}}
		return k.Spring2D()
	}))
	add(mk2("obj.SpringParms.Spring2D(w=25,wall=1,dia=5,n=2,boss=default)", "obj.SpringParms.Spring2D", false, true, func() (sdf.SDF2, error) {
		k := &obj.SpringParms{Width: 25, WallThickness: 1, Diameter: 5, NumSections: 2}
		return k.Spring2D()
	}))

	// obj.Washer2D (examples/joko)
	add(mk2("obj.Washer2D(ri=1,ro=2)", "obj.Washer2D", false, true, func() (sdf.SDF2, error) {
		return obj.Washer2D(&obj.WasherParms{InnerRadius: 1, OuterRadius: 2})
	}))
	add(mk2("obj.Washer2D(ri=1.45,ro=1.89)", "obj.Washer2D", false, true, func() (sdf.SDF2, error) {
		return obj.Washer2D(&obj.WasherParms{InnerRadius: 2.90 * 0.5, OuterRadius: 1.89})
	}))

	return ls
}
