package shapes

import (
	"strings"

	"github.com/deadsy/sdfx/sdf"
	v2 "github.com/deadsy/sdfx/vec/v2"
	v3 "github.com/deadsy/sdfx/vec/v3"
)

func pick2(all []N2, names ...string) []N2 {
	var out []N2
	for _, n := range names {
		for _, l := range all {
			if l.Name == n {
				out = append(out, l)
			}
		}
	}
	return out
}

func pick3(all []N3, names ...string) []N3 {
	var out []N3
	for _, n := range names {
		for _, l := range all {
			if l.Name == n {
				out = append(out, l)
			}
		}
	}
	return out
}

// Rep2 / Rep3 are the representative leaves used as operands of the non-transform combinators.
func Rep2(all []N2) []N2 {
	return pick2(all, "Circle2D(r=1)", "Box2D(2x1,r=0)", "Box2D(2x1,r=0.25)", "Line2D(l=4,r=0.5)", "Polygon2D(L-shape)", "Polygon2D(Nagon(n=5,r=2))",
		"Circle2D(r=1)@(-5,-5)", "Box2D(2x1,r=0.25)@(-5,-5)", "Polygon2D(L-shape)@(-5,-5)", "obj.Hex2D(r=2,round=0.25)", "obj.Washer2D(ri=1,ro=2)",
		"ISOThread(r=2,p=0.5,external)", "FlatFlankCam2D(d=4,rb=2,rn=1)", "Bezier.Mesh2D(egg1)", "obj.Keyway2D(rshaft=2,rkey=1.5,wkey=0.5)", "GearRack2D(n=4,m=0.5,pa=20,bl=0.0625,h=0.5)")
}

func Rep3(all []N3) []N3 {
	return pick3(all, "Sphere3D(r=1)", "Box3D(2x1x3,r=0)", "Box3D(2x1x3,r=0.25)", "Cylinder3D(h=4,r=1,round=0.25)", "Capsule3D(h=4,r=1)", "Cone3D(h=4,r0=2,r1=1,round=0)",
		"Cone3D(h=4,r0=1,r1=2,round=0.25)", "Box3D(2x1x3,r=0)@(-4,-3,-5)", "Sphere3D(r=1)@(-4,-3,-5)", "Cone3D(h=4,r0=2,r1=1,round=0)@(-4,-3,-5)",
		"obj.Hex3D(r=2,h=4,round=0.25)", "obj.Pipe3D(ro=2,ri=1.5,l=8)", "obj.Washer3D(t=1,ri=1,ro=2,remove=0.5)", "obj.TruncRectPyramid3D(4x2x1,angle=45,rbase=0.5,round=0)",
		"obj.Arrow3D(axis=8/0.5,head=2/1,tail=2/1,style=cc)", "obj.ImportTriMesh(cube h=1,neighbors=12,3,5)")
}

func tr2(c N2, x, y float64) N2 {
	inv := trans3(x, y).inverse()
	n := wrap2(c, "Transform2D[Translate("+g(x)+","+g(y)+")]", "Transform2D", RefValue, c.Exact, c.Lip,
		func(s sdf.SDF2) (sdf.SDF2, error) {
			return sdf.Transform2D(s, sdf.Translate2d(v2.Vec{X: x, Y: y})), nil
		},
		func(f Ev2, _ sdf.SDF2) Ev2 { return func(p v2.Vec) float64 { return f(inv.apply(p)) } })
	n.Depth = c.Depth // positioning is part of the operand, not a level of the tree
	return n
}

func tr3(c N3, t v3.Vec) N3 {
	inv := trans4(t).inverse()
	n := wrap3(c, "Transform3D[Translate("+g(t.X)+","+g(t.Y)+","+g(t.Z)+")]", "Transform3D", RefValue, c.Exact, c.Lip,
		func(s sdf.SDF3) (sdf.SDF3, error) { return sdf.Transform3D(s, sdf.Translate3d(t)), nil },
		func(f Ev3, _ sdf.SDF3) Ev3 { return func(p v3.Vec) float64 { return f(inv.apply(p)) } })
	n.Depth = c.Depth
	return n
}

// Nodes2 enumerates the 2D expression trees.  level 0: leaves and one operator; level 1: plus six selected
// unary operators over every one-operator node; level 2: plus EVERY unary operator over every one-operator
// node and binary operators between one-operator nodes and representative leaves.
func Nodes2(level int) []N2 {
	thorough := level >= 1
	leaves := LeafNodes2()
	rep := Rep2(leaves)
	out := append([]N2{}, leaves...)
	var d1 []N2
	for _, u := range Unary22() {
		ops := rep
		if u.Root == "Transform2D" {
			ops = leaves
		}
		for _, c := range ops {
			d1 = append(d1, u.App(c))
		}
	}
	// rotate-copy: operands inside the first sector, symmetric and asymmetric about its axis
	sym := []N2{tr2(pick2(leaves, "Box2D(2x1,r=0)")[0], 4, 0), tr2(pick2(leaves, "Circle2D(r=0.5)")[0], 3, 0), tr2(pick2(leaves, "Polygon2D(Nagon(n=8,r=1.5))")[0], 5, 0)}
	asym := []N2{tr2(pick2(leaves, "Box2D(2x1,r=0)")[0], 5, 0.375), tr2(pick2(leaves, "Polygon2D(L-shape)")[0], 6, -1)}
	for _, n := range []int{1, 2, 3, 7} {
		for _, c := range sym {
			d1 = append(d1, RotateCopy2(c, n, n <= 3 || true, true))
		}
		for _, c := range asym {
			d1 = append(d1, RotateCopy2(c, n, n <= 7, false))
		}
	}
	// operands straddling the x axis asymmetrically (the corner farthest from the origin is a mixed one:
	// Max.X with Min.Y), odd copy counts: out of the domain of the value reference, in the domain of C01
	for _, n := range []int{3, 5} {
		d1 = append(d1, RotateCopy2(tr2(pick2(leaves, "Box2D(2x1,r=0)")[0], 2.5, -0.25), n, false, false),
			RotateCopy2(tr2(pick2(leaves, "Polygon2D(L-shape)")[0], 1, -2.5), n, false, false))
	}
	// binary operators over a subset, plain and blended
	bsub := rep[:8]
	for _, op := range []string{"Union", "Difference", "Intersect"} {
		for _, bl := range Blends() {
			for _, a := range bsub {
				for _, b := range bsub {
					d1 = append(d1, Bin2(op, bl, a, b))
				}
			}
		}
	}
	// slices of 3D representatives
	l3 := LeafNodes3()
	for _, c := range Rep3(l3) {
		d1 = append(d1, Slice(c, v3.Vec{}, v3.Vec{Z: 1}), Slice(c, v3.Vec{X: 0.25, Y: -0.25, Z: 0.5}, v3.Vec{X: 1, Y: 1}), Slice(c, v3.Vec{Z: 0.25}, v3.Vec{X: 1, Y: 2, Z: 3}))
	}
	out = append(out, d1...)
	if thorough {
		// depth 3: a transform / offset / array over every depth-2 node built from representatives
		us := Unary22()
		var sel []U22
		for _, u := range us {
			if strings.HasPrefix(u.Name, "Transform2D[Rotate(30)") || strings.HasPrefix(u.Name, "Transform2D[Translate(-6") || strings.HasPrefix(u.Name, "Offset2D[0.125") || strings.HasPrefix(u.Name, "Array2D[2x2") || strings.HasPrefix(u.Name, "ScaleUniform2D[2") {
				sel = append(sel, u)
			}
		}
		for _, c := range d1 {
			if c.Depth != 1 || !strings.Contains(c.Name, "(") {
				continue
			}
			if level >= 2 {
				for _, u := range us {
					out = append(out, u.App(c))
				}
				continue
			}
			for _, u := range sel {
				out = append(out, u.App(c))
			}
		}
		if level >= 2 {
			k := 0
			for _, c := range d1 {
				if c.Depth != 1 || !strings.Contains(c.Name, "(") {
					continue
				}
				k++
				if k%5 != 0 {
					continue
				}
				for _, op := range []string{"Union", "Difference", "Intersect"} {
					for _, b := range bsub[:4] {
						out = append(out, Bin2(op, Blends()[0], c, b), Bin2(op, Blends()[0], b, c))
					}
				}
			}
		}
	}
	return out
}

// Nodes3 enumerates the 3D expression trees (levels as Nodes2; level 2 also extrudes every one-operator
// 2D node with the non-revolving 2D->3D operators).
func Nodes3(level int) []N3 {
	thorough := level >= 1
	leaves := LeafNodes3()
	rep := Rep3(leaves)
	l2 := LeafNodes2()
	rep2 := Rep2(l2)
	out := append([]N3{}, leaves...)
	var d1 []N3
	for _, u := range Unary33() {
		ops := rep
		if u.Root == "Transform3D" {
			ops = leaves
		}
		for _, c := range ops {
			d1 = append(d1, u.App(c))
		}
	}
	// 2D -> 3D over the 2D representatives (revolutions need the profile on x >= 0: shifted copies)
	for _, u := range Unary23() {
		for _, c := range rep2 {
			if u.NeedsRightHalf {
				if strings.Contains(c.Name, "@(-5,-5)") {
					continue
				}
				d1 = append(d1, u.App(tr2(c, 6, 0)))
				if c.Name == "Circle2D(r=1)" || c.Name == "Box2D(2x1,r=0)" {
					d1 = append(d1, u.App(tr2(c, 0.5, 1))) // straddling the axis
				}
				continue
			}
			d1 = append(d1, u.App(c))
		}
	}
	d1 = append(d1, Loft(rep2[0], rep2[1], 2, 0), Loft(rep2[1], rep2[0], 3, 0.5), Loft(rep2[4], rep2[5], 2, 0.25), Loft(rep2[6], rep2[7], 2, 0))
	sym := []N3{tr3(pick3(leaves, "Box3D(2x1x3,r=0)")[0], v3.Vec{X: 4}), tr3(pick3(leaves, "Sphere3D(r=0.5)")[0], v3.Vec{X: 3, Z: 1}), tr3(pick3(leaves, "Cylinder3D(h=4,r=1,round=0.25)")[0], v3.Vec{X: 5})}
	asym := []N3{tr3(pick3(leaves, "Box3D(2x1x3,r=0)")[0], v3.Vec{X: 5, Y: 0.375}), tr3(pick3(leaves, "Cone3D(h=4,r0=2,r1=1,round=0)")[0], v3.Vec{X: 7, Y: -1})}
	for _, n := range []int{1, 2, 3, 7} {
		for _, c := range sym {
			d1 = append(d1, RotateCopy3(c, n, true, true))
		}
		for _, c := range asym {
			d1 = append(d1, RotateCopy3(c, n, true, false))
		}
	}
	for _, n := range []int{3, 5} {
		d1 = append(d1, RotateCopy3(tr3(pick3(leaves, "Box3D(2x1x3,r=0)")[0], v3.Vec{X: 2.5, Y: -0.25}), n, false, false),
			RotateCopy3(tr3(pick3(leaves, "Cone3D(h=4,r0=2,r1=1,round=0)")[0], v3.Vec{X: 3, Y: -1.5, Z: 1}), n, false, false))
	}
	bsub := rep[:8]
	for _, op := range []string{"Union", "Difference", "Intersect"} {
		for _, bl := range Blends() {
			for _, a := range bsub {
				for _, b := range bsub {
					d1 = append(d1, Bin3(op, bl, a, b))
				}
			}
		}
	}
	out = append(out, d1...)
	if thorough {
		us := Unary33()
		var sel []U33
		for _, u := range us {
			if strings.HasPrefix(u.Name, "Transform3D[Rotate3d((1,2,3)") || strings.HasPrefix(u.Name, "Transform3D[Translate(-6") || strings.HasPrefix(u.Name, "Transform3D[RotateX(90)") || strings.HasPrefix(u.Name, "Offset3D[0.125") || strings.HasPrefix(u.Name, "Array3D[2x2") || strings.HasPrefix(u.Name, "ScaleUniform3D[2") {
				sel = append(sel, u)
			}
		}
		for _, c := range d1 {
			if c.Depth != 1 {
				continue
			}
			if level >= 2 {
				for _, u := range us {
					out = append(out, u.App(c))
				}
				continue
			}
			for _, u := range sel {
				out = append(out, u.App(c))
			}
		}
		if level >= 2 {
			k := 0
			for _, c := range d1 {
				if c.Depth != 1 {
					continue
				}
				k++
				if k%7 != 0 {
					continue
				}
				for _, op := range []string{"Union", "Difference", "Intersect"} {
					for _, b := range bsub[:4] {
						out = append(out, Bin3(op, Blends()[0], c, b), Bin3(op, Blends()[0], b, c))
					}
				}
			}
			for _, c := range Nodes2(0) {
				if c.Depth != 1 || !strings.Contains(c.Name, "(") {
					continue
				}
				for _, u := range Unary23() {
					if !u.NeedsRightHalf {
						out = append(out, u.App(c))
					}
				}
			}
		}
	}
	return out
}

// Witness2 / Witness3 return the nodes with the given names from the deepest enumeration (level 2): the
// quick tiers add the recorded witnesses of known findings that only the thorough enumeration contains.
func Witness2(names ...string) []N2 {
	want := map[string]bool{}
	for _, n := range names {
		want[n] = true
	}
	var out []N2
	for _, n := range Nodes2(2) {
		if want[n.Name] {
			out = append(out, n)
			delete(want, n.Name)
		}
	}
	return out
}

func Witness3(names ...string) []N3 {
	want := map[string]bool{}
	for _, n := range names {
		want[n] = true
	}
	var out []N3
	for _, n := range Nodes3(2) {
		if want[n.Name] {
			out = append(out, n)
			delete(want, n.Name)
		}
	}
	return out
}
