package shapes

import (
	"fmt"
	"go/ast"
	"go/parser"
	"go/token"
	"io"
	"math"
	"math/rand"
	"os"
	"path/filepath"
	"sort"
	"strconv"
	"strings"
	"sync/atomic"
	"testing"
	"time"

	"github.com/deadsy/sdfx/sdf"
	v2 "github.com/deadsy/sdfx/vec/v2"
	v3 "github.com/deadsy/sdfx/vec/v3"
)

//-----------------------------------------------------------------------------
// allow-list: exported functions of /repo/sdf and /repo/obj that return an SDF2/SDF3 and
// deliberately have NO leaf. Everything else that the parser finds must have a leaf.

var noLeaf = map[string]string{
	// combinators of package sdf: one or more SDF operands, handled by the combinator menus
	"Array2D":          "combinator (SDF2 operand)",
	"Array3D":          "combinator (SDF3 operand)",
	"Cache2D":          "combinator (SDF2 operand)",
	"Center2D":         "combinator (SDF2 operand)",
	"CenterAndScale2D": "combinator (SDF2 operand)",
	"Cut2D":            "combinator (SDF2 operand)",
	"Cut3D":            "combinator (SDF3 operand)",
	"Difference2D":     "combinator (SDF2 operands)",
	"Difference3D":     "combinator (SDF3 operands)",
	"Elongate2D":       "combinator (SDF2 operand)",
	"Elongate3D":       "combinator (SDF3 operand)",
	"Intersect2D":      "combinator (SDF2 operands)",
	"Intersect3D":      "combinator (SDF3 operands)",
	"LineOf2D":         "combinator (SDF2 operand)",
	"LineOf3D":         "combinator (SDF3 operand)",
	"Multi2D":          "combinator (SDF2 operand)",
	"Multi3D":          "combinator (SDF3 operand)",
	"NewVoxelSDF3":     "combinator (SDF3 operand, voxel cache)",
	"Offset2D":         "combinator (SDF2 operand)",
	"Offset3D":         "combinator (SDF3 operand)",
	"Orient3D":         "combinator (SDF3 operand)",
	"RotateCopy2D":     "combinator (SDF2 operand)",
	"RotateCopy3D":     "combinator (SDF3 operand)",
	"RotateUnion2D":    "combinator (SDF2 operand)",
	"RotateUnion3D":    "combinator (SDF3 operand)",
	"ScaleUniform2D":   "combinator (SDF2 operand)",
	"ScaleUniform3D":   "combinator (SDF3 operand)",
	"Shell3D":          "combinator (SDF3 operand)",
	"Slice2D":          "combinator (3D->2D, SDF3 operand)",
	"Transform2D":      "combinator (SDF2 operand)",
	"Transform3D":      "combinator (SDF3 operand)",
	"Union2D":          "combinator (SDF2 operands)",
	"Union3D":          "combinator (SDF3 operands)",
	// one-operand 2D->3D constructors of package sdf: handled elsewhere (not leaves by the task statement)
	"Extrude3D":           "2D->3D constructor (SDF2 operand)",
	"ExtrudeRounded3D":    "2D->3D constructor (SDF2 operand)",
	"Loft3D":              "2D->3D constructor (SDF2 operands)",
	"Revolve3D":           "2D->3D constructor (SDF2 operand)",
	"RevolveTheta3D":      "2D->3D constructor (SDF2 operand)",
	"ScaleExtrude3D":      "2D->3D constructor (SDF2 operand)",
	"ScaleTwistExtrude3D": "2D->3D constructor (SDF2 operand)",
	"Screw3D":             "2D->3D constructor (SDF2 thread profile operand)",
	"TwistExtrude3D":      "2D->3D constructor (SDF2 operand)",
	// deliberately excluded primitive
	"Gyroid3D": "documented as unbounded (its bounding box is not meaningful)",
}

// obj.AddTabs and obj.ChamferedCylinder take an SDF3 operand but are parts of package obj: they DO have
// leaves (with a fixed operand built inside Build), as required by the task.

//-----------------------------------------------------------------------------

func typeString(e ast.Expr) string {
	switch t := e.(type) {
	case *ast.Ident:
		return t.Name
	case *ast.SelectorExpr:
		return typeString(t.X) + "." + t.Sel.Name
	case *ast.StarExpr:
		return "*" + typeString(t.X)
	case *ast.ArrayType:
		return "[]" + typeString(t.Elt)
	case *ast.Ellipsis:
		return "..." + typeString(t.Elt)
	}
	return "?"
}

// sdfConstructors parses the non-test files of /repo/<pkg> and returns the Ctor names ("Box2D",
// "Polygon.Mesh2D", "obj.Bolt", "obj.SpringParms.Spring2D") of every exported function, and every
// exported method of an exported type, whose result list contains SDF2, SDF3 or a slice of them.
func sdfConstructors(t *testing.T, pkg string) []string {
	files, err := filepath.Glob("/repo/" + pkg + "/*.go")
	if err != nil || len(files) == 0 {
		t.Fatalf("no source files for package %s: %v", pkg, err)
	}
	prefix := ""
	if pkg != "sdf" {
		prefix = pkg + "."
	}
	var out []string
	fset := token.NewFileSet()
	for _, f := range files {
		if strings.HasSuffix(f, "_test.go") {
			continue
		}
		af, err := parser.ParseFile(fset, f, nil, parser.SkipObjectResolution)
		if err != nil {
			t.Fatalf("parse %s: %v", f, err)
		}
		for _, d := range af.Decls {
			fd, ok := d.(*ast.FuncDecl)
			if !ok || !fd.Name.IsExported() || fd.Type.Results == nil {
				continue
			}
			hit := false
			for _, r := range fd.Type.Results.List {
				ts := typeString(r.Type)
				ts = strings.TrimPrefix(ts, "[]")
				ts = strings.TrimPrefix(ts, "sdf.")
				if ts == "SDF2" || ts == "SDF3" {
					hit = true
				}
			}
			if !hit {
				continue
			}
			name := fd.Name.Name
			if fd.Recv != nil {
				rt := strings.TrimPrefix(typeString(fd.Recv.List[0].Type), "*")
				if !ast.IsExported(rt) {
					continue
				}
				name = rt + "." + name
			}
			out = append(out, prefix+name)
		}
	}
	sort.Strings(out)
	return out
}

//-----------------------------------------------------------------------------
// stdout capture: some library Evaluate methods print (CubicSplineSDF2). Capture and count.

// captureStdout runs f with os.Stdout redirected to a pipe and returns the number of bytes written.
func captureStdout(f func()) int64 {
	old := os.Stdout
	r, w, err := os.Pipe()
	if err != nil {
		f()
		return -1
	}
	var n int64
	done := make(chan struct{})
	go func() {
		k, _ := io.Copy(io.Discard, r)
		atomic.StoreInt64(&n, k)
		close(done)
	}()
	os.Stdout = w
	func() {
		defer func() {
			os.Stdout = old
			w.Close()
		}()
		f()
	}()
	<-done
	r.Close()
	return atomic.LoadInt64(&n)
}

//-----------------------------------------------------------------------------

// nSamples is the number of evaluation points per leaf (50 by the task statement); the environment
// variable SHAPES_SAMPLES overrides it for deeper one-off probing.
var nSamples = func() int {
	if v, err := strconv.Atoi(os.Getenv("SHAPES_SAMPLES")); err == nil && v > 0 {
		return v
	}
	return 50
}()

func finite(x ...float64) bool {
	for _, v := range x {
		if math.IsNaN(v) || math.IsInf(v, 0) {
			return false
		}
	}
	return true
}

// samples2 returns nSamples points over (and a little beyond) the box: corners, center, random.
func samples2(bb sdf.Box2, rng *rand.Rand) []v2.Vec {
	c := bb.Center()
	h := bb.Size().MulScalar(0.5)
	ps := []v2.Vec{c, bb.Min, bb.Max, {X: bb.Min.X, Y: bb.Max.Y}, {X: bb.Max.X, Y: bb.Min.Y}, {}}
	for len(ps) < nSamples {
		k := 1.0
		if len(ps)%5 == 0 {
			k = 1.5 // some points outside the box
		}
		ps = append(ps, v2.Vec{
			X: c.X + k*h.X*(2*rng.Float64()-1),
			Y: c.Y + k*h.Y*(2*rng.Float64()-1),
		})
	}
	return ps
}

func samples3(bb sdf.Box3, rng *rand.Rand) []v3.Vec {
	c := bb.Center()
	h := bb.Size().MulScalar(0.5)
	ps := []v3.Vec{c, bb.Min, bb.Max, {}}
	for i := 1; i < 7; i++ {
		p := bb.Min
		if i&1 != 0 {
			p.X = bb.Max.X
		}
		if i&2 != 0 {
			p.Y = bb.Max.Y
		}
		if i&4 != 0 {
			p.Z = bb.Max.Z
		}
		ps = append(ps, p)
	}
	for len(ps) < nSamples {
		k := 1.0
		if len(ps)%5 == 0 {
			k = 1.5
		}
		ps = append(ps, v3.Vec{
			X: c.X + k*h.X*(2*rng.Float64()-1),
			Y: c.Y + k*h.Y*(2*rng.Float64()-1),
			Z: c.Z + k*h.Z*(2*rng.Float64()-1),
		})
	}
	return ps
}

type evalReport struct {
	name     string
	panicked interface{}
	nan      int
	inf      int
	neg      int
	negOut   int     // negative (inside) samples strictly outside the bounding box: informational
	negOutD  float64 // the most negative such value
	badBB    bool
	stdout   int64
	elapsed  time.Duration
}

func evalLeaf2(l Leaf2) (rep evalReport) {
	rep.name = l.Name
	start := time.Now()
	rep.stdout = captureStdout(func() {
		defer func() {
			if r := recover(); r != nil {
				rep.panicked = r
			}
		}()
		s, err := l.Build()
		if err != nil || s == nil {
			rep.panicked = fmt.Sprintf("build failed: %v", err)
			return
		}
		bb := s.BoundingBox()
		if !finite(bb.Min.X, bb.Min.Y, bb.Max.X, bb.Max.Y) || bb.Min.X > bb.Max.X || bb.Min.Y > bb.Max.Y {
			rep.badBB = true
			return
		}
		rng := rand.New(rand.NewSource(1))
		for _, p := range samples2(bb, rng) {
			d := s.Evaluate(p)
			switch {
			case math.IsNaN(d):
				rep.nan++
			case math.IsInf(d, 0):
				rep.inf++
			case d < 0:
				rep.neg++
				if p.X < bb.Min.X || p.X > bb.Max.X || p.Y < bb.Min.Y || p.Y > bb.Max.Y {
					rep.negOut++
					rep.negOutD = math.Min(rep.negOutD, d)
				}
			}
		}
	})
	rep.elapsed = time.Since(start)
	return rep
}

func evalLeaf3(l Leaf3) (rep evalReport) {
	rep.name = l.Name
	start := time.Now()
	rep.stdout = captureStdout(func() {
		defer func() {
			if r := recover(); r != nil {
				rep.panicked = r
			}
		}()
		s, err := l.Build()
		if err != nil || s == nil {
			rep.panicked = fmt.Sprintf("build failed: %v", err)
			return
		}
		bb := s.BoundingBox()
		if !finite(bb.Min.X, bb.Min.Y, bb.Min.Z, bb.Max.X, bb.Max.Y, bb.Max.Z) ||
			bb.Min.X > bb.Max.X || bb.Min.Y > bb.Max.Y || bb.Min.Z > bb.Max.Z {
			rep.badBB = true
			return
		}
		rng := rand.New(rand.NewSource(1))
		for _, p := range samples3(bb, rng) {
			d := s.Evaluate(p)
			switch {
			case math.IsNaN(d):
				rep.nan++
			case math.IsInf(d, 0):
				rep.inf++
			case d < 0:
				rep.neg++
				if p.X < bb.Min.X || p.X > bb.Max.X || p.Y < bb.Min.Y || p.Y > bb.Max.Y || p.Z < bb.Min.Z || p.Z > bb.Max.Z {
					rep.negOut++
					rep.negOutD = math.Min(rep.negOutD, d)
				}
			}
		}
	})
	rep.elapsed = time.Since(start)
	return rep
}

func summarize(t *testing.T, dim string, reps []evalReport) {
	var nan, noisy, slow, noneg, outside []string
	for _, r := range reps {
		if r.panicked != nil {
			t.Errorf("%s leaf %q: panic/failure during build or evaluation: %v", dim, r.name, r.panicked)
		}
		if r.badBB {
			t.Errorf("%s leaf %q: bounding box is not finite or inverted", dim, r.name)
		}
		if r.nan > 0 || r.inf > 0 {
			nan = append(nan, fmt.Sprintf("%s (NaN %d/%d, Inf %d/%d)", r.name, r.nan, nSamples, r.inf, nSamples))
		}
		if r.stdout > 0 {
			noisy = append(noisy, fmt.Sprintf("%s (%d bytes)", r.name, r.stdout))
		}
		if r.elapsed > 50*time.Millisecond {
			slow = append(slow, fmt.Sprintf("%s (%v)", r.name, r.elapsed.Round(time.Millisecond)))
		}
		if r.neg == 0 && r.panicked == nil && !r.badBB {
			noneg = append(noneg, r.name)
		}
		if r.negOut > 0 {
			outside = append(outside, fmt.Sprintf("%s (%d samples, min %g)", r.name, r.negOut, r.negOutD))
		}
	}
	t.Logf("%s: %d leaves evaluated at %d points each", dim, len(reps), nSamples)
	t.Logf("%s leaves returning NaN/Inf somewhere (%d):\n  %s", dim, len(nan), strings.Join(nan, "\n  "))
	t.Logf("%s leaves writing to stdout during Build/Evaluate (%d):\n  %s", dim, len(noisy), strings.Join(noisy, "\n  "))
	t.Logf("%s leaves with build+%d evaluations > 50ms (%d):\n  %s", dim, nSamples, len(slow), strings.Join(slow, "\n  "))
	t.Logf("%s leaves that are negative (inside) at a sample outside their own bounding box - informational, the bounding box checks judge this (%d):\n  %s", dim, len(outside), strings.Join(outside, "\n  "))
	t.Logf("%s leaves with no negative sample (curves, zero-thickness or stub shapes expected) (%d):\n  %s", dim, len(noneg), strings.Join(noneg, "\n  "))
}

//-----------------------------------------------------------------------------
// (a) every leaf builds, and builds a fresh shape on every call

func TestLeavesBuild(t *testing.T) {
	n2, n3 := 0, 0
	captureStdout(func() {
		for _, l := range Leaves2() {
			if l.Build == nil || l.Name == "" || l.Ctor == "" {
				t.Errorf("2D leaf %q: incomplete (Name/Ctor/Build)", l.Name)
				continue
			}
			s0, err := l.Build()
			if err != nil {
				t.Errorf("2D leaf %q: Build error: %v", l.Name, err)
				continue
			}
			if s0 == nil {
				t.Errorf("2D leaf %q: Build returned a nil shape", l.Name)
				continue
			}
			s1, err := l.Build()
			if err != nil || s1 == nil {
				t.Errorf("2D leaf %q: second Build failed: %v", l.Name, err)
				continue
			}
			if s0 == s1 {
				t.Errorf("2D leaf %q: Build returned the same object twice (shapes must not be shared)", l.Name)
			}
			if l.Exact && !l.Lip {
				t.Errorf("2D leaf %q: Exact implies Lip", l.Name)
			}
			n2++
		}
		for _, l := range Leaves3() {
			if l.Build == nil || l.Name == "" || l.Ctor == "" {
				t.Errorf("3D leaf %q: incomplete (Name/Ctor/Build)", l.Name)
				continue
			}
			s0, err := l.Build()
			if err != nil {
				t.Errorf("3D leaf %q: Build error: %v", l.Name, err)
				continue
			}
			if s0 == nil {
				t.Errorf("3D leaf %q: Build returned a nil shape", l.Name)
				continue
			}
			s1, err := l.Build()
			if err != nil || s1 == nil {
				t.Errorf("3D leaf %q: second Build failed: %v", l.Name, err)
				continue
			}
			if s0 == s1 {
				t.Errorf("3D leaf %q: Build returned the same object twice (shapes must not be shared)", l.Name)
			}
			if l.Exact && !l.Lip {
				t.Errorf("3D leaf %q: Exact implies Lip", l.Name)
			}
			n3++
		}
	})
	t.Logf("built %d 2D leaves and %d 3D leaves", n2, n3)
}

//-----------------------------------------------------------------------------
// (b) names are unique (within a dimension and across both menus)

func TestLeafNamesUnique(t *testing.T) {
	seen := map[string]string{}
	for _, l := range Leaves2() {
		if prev, ok := seen[l.Name]; ok {
			t.Errorf("duplicate leaf name %q (2D, already used in %s)", l.Name, prev)
		}
		seen[l.Name] = "2D"
	}
	for _, l := range Leaves3() {
		if prev, ok := seen[l.Name]; ok {
			t.Errorf("duplicate leaf name %q (3D, already used in %s)", l.Name, prev)
		}
		seen[l.Name] = "3D"
	}
}

// the Exact flag is only allowed for the constructors named in the task statement
func TestExactOnlyForExactConstructors(t *testing.T) {
	exact2 := map[string]bool{"Circle2D": true, "Box2D": true, "Line2D": true, "Polygon2D": true, "Mesh2D": true, "Mesh2DSlow": true}
	exact3 := map[string]bool{"Sphere3D": true, "Box3D": true, "Cylinder3D": true, "Capsule3D": true, "Cone3D": true}
	for _, l := range Leaves2() {
		if l.Exact != exact2[l.Ctor] {
			t.Errorf("2D leaf %q (Ctor %s): Exact=%v", l.Name, l.Ctor, l.Exact)
		}
	}
	for _, l := range Leaves3() {
		if l.Exact != exact3[l.Ctor] {
			t.Errorf("3D leaf %q (Ctor %s): Exact=%v", l.Name, l.Ctor, l.Exact)
		}
	}
}

//-----------------------------------------------------------------------------
// (c) coverage of the exported constructors

func TestConstructorCoverage(t *testing.T) {
	have := map[string]int{}
	for _, l := range Leaves2() {
		have[l.Ctor]++
	}
	for _, l := range Leaves3() {
		have[l.Ctor]++
	}

	found := map[string]bool{}
	var all []string
	all = append(all, sdfConstructors(t, "sdf")...)
	all = append(all, sdfConstructors(t, "obj")...)
	for _, c := range all {
		found[c] = true
		reason, excluded := noLeaf[c]
		switch {
		case excluded && have[c] > 0:
			t.Errorf("constructor %s is on the no-leaf list (%s) but has %d leaves", c, reason, have[c])
		case excluded:
			if strings.HasPrefix(c, "obj.") {
				t.Errorf("constructor %s of package obj must not be excluded (%s)", c, reason)
			}
		case have[c] == 0:
			t.Errorf("exported constructor %s has no leaf (add one, or add it to noLeaf with a reason)", c)
		}
	}
	// stale entries
	for c := range noLeaf {
		if !found[c] {
			t.Errorf("noLeaf entry %s does not exist in /repo/sdf or /repo/obj (stale)", c)
		}
	}
	for c := range have {
		if !found[c] {
			t.Errorf("leaf Ctor %s is not an exported SDF2/SDF3 constructor of /repo/sdf or /repo/obj", c)
		}
	}
	// the primitives and parts named in the task statement (guards against the parser missing something)
	for _, c := range []string{
		"Circle2D", "Box2D", "Line2D", "Polygon2D", "Mesh2D", "Mesh2DSlow", "CubicSpline2D", "FlatFlankCam2D",
		"ThreeArcCam2D", "MakeFlatFlankCam", "MakeThreeArcCam", "NewFlange1", "GearRack2D", "ArcSpiral2D",
		"ISOThread", "AcmeThread", "ANSIButtressThread", "PlasticButtressThread", "Text2D", "Polygon.Mesh2D",
		"Bezier.Mesh2D", "Box3D", "Sphere3D", "Cylinder3D", "Capsule3D", "Cone3D", "Mesh3D", "Mesh3DSlow",
		"obj.Angle2D", "obj.Angle3D", "obj.Arrow3D", "obj.Axes3D", "obj.DirectedArrow3D", "obj.Bolt", "obj.Nut",
		"obj.ChamferedCylinder", "obj.DrainCover", "obj.DroneMotorArm", "obj.DroneMotorArmSocket",
		"obj.FingerButton2D", "obj.InvoluteGear", "obj.Geneva2D", "obj.GfBase", "obj.GfBody", "obj.Hex2D",
		"obj.Hex3D", "obj.Keyway2D", "obj.Keyway3D", "obj.Knurl3D", "obj.Panel2D", "obj.Panel3D",
		"obj.EuroRackPanel2D", "obj.EuroRackPanel3D", "obj.PanelHole3D", "obj.PanelBox3D", "obj.Pipe3D",
		"obj.StdPipe3D", "obj.PipeConnector3D", "obj.StdPipeConnector3D", "obj.Servo3D", "obj.Servo2D",
		"obj.ServoHorn", "obj.Standoff3D", "obj.ImportTriMesh", "obj.TruncRectPyramid3D", "obj.Washer2D",
		"obj.Washer3D", "obj.AddTabs", "obj.SpringParms.Spring2D", "obj.SpringParms.Spring3D",
	} {
		if !found[c] {
			t.Errorf("constructor %s (named in the task) was not found by the parser", c)
		}
		if have[c] == 0 {
			t.Errorf("constructor %s (named in the task) has no leaf", c)
		}
	}
	// Geneva2D: both results, PanelBox3D: all three parts
	for _, want := range []string{"[driver]", "[driven]", "[0:panel]", "[1:top]", "[2:bottom]"} {
		ok := false
		for _, l := range Leaves2() {
			ok = ok || strings.HasSuffix(l.Name, want)
		}
		for _, l := range Leaves3() {
			ok = ok || strings.HasSuffix(l.Name, want)
		}
		if !ok {
			t.Errorf("no leaf for result %s", want)
		}
	}
	if have["Gyroid3D"] != 0 {
		t.Errorf("Gyroid3D must not be in the menu")
	}

	keys := make([]string, 0, len(have))
	for c := range have {
		keys = append(keys, fmt.Sprintf("%s:%d", c, have[c]))
	}
	sort.Strings(keys)
	t.Logf("%d constructors found, %d with leaves, %d on the no-leaf list", len(all), len(have), len(noLeaf))
	t.Logf("leaves per constructor: %s", strings.Join(keys, " "))
}

// positioned variants: at least 8 per dimension, Ctor of the primitive, position in the name
func TestPositionedVariants(t *testing.T) {
	n2, n3 := 0, 0
	for _, l := range Leaves2() {
		if strings.Contains(l.Name, ")@(") {
			n2++
			if strings.Contains(l.Ctor, "Transform") {
				t.Errorf("2D leaf %q: Ctor must be the primitive's constructor", l.Name)
			}
		}
	}
	for _, l := range Leaves3() {
		if strings.Contains(l.Name, ")@(") {
			n3++
			if strings.Contains(l.Ctor, "Transform") {
				t.Errorf("3D leaf %q: Ctor must be the primitive's constructor", l.Name)
			}
		}
	}
	if n2 < 8 || n3 < 8 {
		t.Errorf("positioned variants: %d 2D, %d 3D, want >= 8 each", n2, n3)
	}
	if n2 != len(positions2) || n3 != len(positions3) {
		t.Errorf("positioned variants: %d/%d 2D, %d/%d 3D", n2, len(positions2), n3, len(positions3))
	}
	t.Logf("positioned variants: %d 2D, %d 3D", n2, n3)
}

//-----------------------------------------------------------------------------
// (d) evaluation over the bounding box: no panics; NaN is reported

func TestLeavesEvaluate2(t *testing.T) {
	var reps []evalReport
	for _, l := range Leaves2() {
		reps = append(reps, evalLeaf2(l))
	}
	summarize(t, "2D", reps)
}

func TestLeavesEvaluate3(t *testing.T) {
	var reps []evalReport
	for _, l := range Leaves3() {
		reps = append(reps, evalLeaf3(l))
	}
	summarize(t, "3D", reps)
}
