package shapes

import (
	"fmt"

	"github.com/deadsy/sdfx/obj"
	"github.com/deadsy/sdfx/sdf"
	"github.com/deadsy/sdfx/vec/v2i"
	v3 "github.com/deadsy/sdfx/vec/v3"
	"github.com/deadsy/sdfx/vec/v3i"
)

// Leaves3 returns the menu of 3D leaf shapes: every 3D primitive of package sdf (not the one-operand
// 2D->3D constructors, not Gyroid3D), every 3D part of package obj (with parameter sets that are valid
// per the constructor's validation, preferably the ones used in /repo/examples), and positioned
// (translated) variants of a representative subset.
// Every call returns fresh closures; every Build constructs a fresh shape.
func Leaves3() []Leaf3 {
	var ls []Leaf3
	ls = append(ls, sdfLeaves3()...)
	ls = append(ls, objLeaves3()...)
	ls = append(ls, positioned3(ls, positions3)...)
	return ls
}

// positions3 selects the leaves that also get a translated copy (into the negative octant).
var positions3 = map[string]v3.Vec{
	"Box3D(2x1x3,r=0)":                                         xyz(-4, -3, -5),
	"Box3D(2x1x3,r=0.25)":                                      xyz(-4, -3, -5),
	"Sphere3D(r=1)":                                            xyz(-4, -3, -5),
	"Cylinder3D(h=4,r=1,round=0.25)":                           xyz(-4, -3, -5),
	"Capsule3D(h=4,r=1)":                                       xyz(-4, -3, -5),
	"Cone3D(h=4,r0=2,r1=1,round=0)":                            xyz(-4, -3, -5),
	"Cone3D(h=4,r0=1,r1=2,round=0.25)":                         xyz(-4, -3, -5),
	"Mesh3D(tetrahedron)":                                      xyz(-4, -3, -5),
	"obj.Hex3D(r=2,h=4,round=0.25)":                            xyz(-4, -3, -5),
	"obj.ImportTriMesh(cube h=1,neighbors=12,3,5)":             xyz(-4, -3, -5),
	"obj.TruncRectPyramid3D(4x2x1,angle=45,rbase=0.5,round=0)": xyz(-4, -3, -5),
	"obj.Washer3D(t=1,ri=1,ro=2,remove=0.5)":                   xyz(-4, -3, -5),
	"obj.Arrow3D(axis=8/0.5,head=2/1,tail=2/1,style=cc)":       xyz(-4, -3, -10),
}

//-----------------------------------------------------------------------------
// package sdf

func sdfLeaves3() []Leaf3 {
	var ls []Leaf3
	add := func(l Leaf3) { ls = append(ls, l) }

	// Box3D (exact). 2x2x2,r=1 is the maximum rounding (a sphere).
	for _, k := range []struct{ x, y, z, r float64 }{
		{2, 1, 3, 0}, {2, 1, 3, 0.25}, {4, 0.5, 1, 0}, {2, 2, 2, 1}, {2, 1, 3, 0.5},
	} {
		k := k
		add(mk3(fmt.Sprintf("Box3D(%sx%sx%s,r=%s)", g(k.x), g(k.y), g(k.z), g(k.r)), "Box3D", true, true, func() (sdf.SDF3, error) {
			return sdf.Box3D(xyz(k.x, k.y, k.z), k.r)
		}))
	}

	// Sphere3D (exact)
	for _, r := range []float64{1, 0.5, 3.5} {
		r := r
		add(mk3(fmt.Sprintf("Sphere3D(r=%s)", g(r)), "Sphere3D", true, true, func() (sdf.SDF3, error) {
			return sdf.Sphere3D(r)
		}))
	}

	// Cylinder3D (exact). Admissible rounding: 0 <= round <= radius and 2*round <= height.
	// h=4,r=1,round=1 is the maximum by radius (a capsule), h=2,r=2,round=1 the maximum by height.
	for _, k := range []struct{ h, r, round float64 }{
		{4, 1, 0}, {4, 1, 0.25}, {4, 1, 1}, {2, 2, 1}, {1, 3, 0}, {2, 1, 1},
	} {
		k := k
		add(mk3(fmt.Sprintf("Cylinder3D(h=%s,r=%s,round=%s)", g(k.h), g(k.r), g(k.round)), "Cylinder3D", true, true, func() (sdf.SDF3, error) {
			return sdf.Cylinder3D(k.h, k.r, k.round)
		}))
	}

	// Capsule3D (exact). h=2,r=1 degenerates to a sphere.
	for _, k := range []struct{ h, r float64 }{
		{4, 1}, {8, 0.5}, {2, 1},
	} {
		k := k
		add(mk3(fmt.Sprintf("Capsule3D(h=%s,r=%s)", g(k.h), g(k.r)), "Capsule3D", true, true, func() (sdf.SDF3, error) {
			return sdf.Capsule3D(k.h, k.r)
		}))
	}

	// Cone3D (claimed exact): r0<r1, r0>r1, r0==r1, r1==0, r0==0, with and without rounding.
	// Rounding is not combined with a zero radius (the inset radius would become negative).
	for _, k := range []struct{ h, r0, r1, round float64 }{
		{4, 1, 2, 0}, {4, 2, 1, 0}, {4, 1.5, 1.5, 0}, {4, 2, 0, 0}, {4, 0, 2, 0},
		{4, 1, 2, 0.25}, {4, 2, 1, 0.25}, {4, 1.5, 1.5, 0.25},
		{5, 2, 0, 0},     // obj.Arrow3D head of examples/arrow
		{1, 1, 2, 0},     // obj.ChamferedHole3D chamfer (45 degrees)
		{2, 3, 2.5, 0.5}, // height == 2*round (maximum rounding by height)
	} {
		k := k
		add(mk3(fmt.Sprintf("Cone3D(h=%s,r0=%s,r1=%s,round=%s)", g(k.h), g(k.r0), g(k.r1), g(k.round)), "Cone3D", true, true, func() (sdf.SDF3, error) {
			return sdf.Cone3D(k.h, k.r0, k.r1, k.round)
		}))
	}

	// Mesh3D / Mesh3DSlow of a small closed triangle mesh.
	// NOTE: in this version of the library both Evaluate methods are "TODO" stubs returning 0.
	add(mk3("Mesh3D(tetrahedron)", "Mesh3D", false, false, func() (sdf.SDF3, error) {
		return sdf.Mesh3D(tetraMesh())
	}))
	add(mk3("Mesh3D(cube h=1)", "Mesh3D", false, false, func() (sdf.SDF3, error) {
		return sdf.Mesh3D(cubeMesh(1))
	}))
	add(mk3("Mesh3DSlow(tetrahedron)", "Mesh3DSlow", false, false, func() (sdf.SDF3, error) {
		return sdf.Mesh3DSlow(tetraMesh())
	}))
	add(mk3("Mesh3DSlow(cube h=1)", "Mesh3DSlow", false, false, func() (sdf.SDF3, error) {
		return sdf.Mesh3DSlow(cubeMesh(1))
	}))

	// tapered screws, long enough for the taper to matter (the tree menu's screws are straight)
	for _, k := range []struct {
		r, pitch, length, taperDeg float64
		ext                        bool
	}{
		{5, 1, 60, 1.7899, true},  // NPT taper atan(1/32) over 60 pitches
		{4, 1.5, 40, 3, true},     // 3 degrees
		{6, 2, 30, 1.7899, false}, // internal profile
		{3, 0.5, 6, 1.7899, true}, // short
	} {
		k := k
		add(mk3(fmt.Sprintf("Screw3D(ISOThread(r=%s,p=%s,ext=%v),len=%s,taper=%sdeg)", g(k.r), g(k.pitch), k.ext, g(k.length), g(k.taperDeg)), "Screw3D", false, false, func() (sdf.SDF3, error) {
			t, err := sdf.ISOThread(k.r, k.pitch, k.ext)
			if err != nil {
				return nil, err
			}
			return sdf.Screw3D(t, k.length, deg(k.taperDeg), k.pitch, 1)
		}))
	}

	// the documented use of the unbounded gyroid: intersected with a bounded first operand
	add(mk3("Intersect3D(Box3D(4x4x4), Gyroid3D(scale 1))", "Intersect3D", false, false, func() (sdf.SDF3, error) {
		b, err := sdf.Box3D(xyz(4, 4, 4), 0)
		if err != nil {
			return nil, err
		}
		gy, err := sdf.Gyroid3D(xyz(1, 1, 1))
		if err != nil {
			return nil, err
		}
		return sdf.Intersect3D(b, gy), nil
	}))
	add(mk3("Intersect3D(Sphere3D(3), Shell3D(Gyroid3D(scale 2), 0.2))", "Intersect3D", false, false, func() (sdf.SDF3, error) {
		b, err := sdf.Sphere3D(3)
		if err != nil {
			return nil, err
		}
		gy, err := sdf.Gyroid3D(xyz(2, 2, 2))
		if err != nil {
			return nil, err
		}
		sh, err := sdf.Shell3D(gy, 0.2)
		if err != nil {
			return nil, err
		}
		return sdf.Intersect3D(b, sh), nil
	}))

	return ls
}

//-----------------------------------------------------------------------------
// package obj

// tabBox is the box the AddTabs leaves attach tabs to (examples/tabbox box0): a hollow rounded box cut
// at lidHeight, the upper or the lower part.
func tabBox(upper bool) (sdf.SDF3, v3.Vec, float64, error) {
	const wall = 3.0
	oSize := xyz(40, 40, 20)
	iSize := oSize.SubScalar(2.0 * wall)
	outer, err := sdf.Box3D(oSize, 0.5*wall)
	if err != nil {
		return nil, v3.Vec{}, 0, err
	}
	inner, err := sdf.Box3D(iSize, 0.5*wall)
	if err != nil {
		return nil, v3.Vec{}, 0, err
	}
	box := sdf.Difference3D(outer, inner)
	lidHeight := oSize.Z * 0.25
	if upper {
		box = sdf.Cut3D(box, xyz(0, 0, lidHeight), xyz(0, 0, 1))
	} else {
		box = sdf.Cut3D(box, xyz(0, 0, lidHeight), xyz(0, 0, -1))
	}
	return box, iSize, lidHeight, nil
}

func objLeaves3() []Leaf3 {
	var ls []Leaf3
	add := func(l Leaf3) { ls = append(ls, l) }

	// obj.AddTabs (examples/tabbox): takes an SDF3 operand, the operand is built here.
	for _, upper := range []bool{false, true} {
		upper := upper
		part := "lower"
		if upper {
			part = "upper"
		}
		add(mk3("obj.AddTabs(box 40x40x20 wall=3 "+part+",StraightTab(9x1.5x3,cl=0.3),4 tabs)", "obj.AddTabs", false, true, func() (sdf.SDF3, error) {
			const wall = 3.0
			box, iSize, lidHeight, err := tabBox(upper)
			if err != nil {
				return nil, err
			}
			tab, err := obj.NewStraightTab(xyz(3.0*wall, 0.5*wall, wall), 0.3)
			if err != nil {
				return nil, err
			}
			xOfs := 0.5 * (iSize.X + wall)
			yOfs := 0.5 * (iSize.Y + wall)
			mSet := []sdf.M44{
				sdf.Translate3d(xyz(xOfs, 0, lidHeight)).Mul(sdf.RotateZ(deg(90))),
				sdf.Translate3d(xyz(-xOfs, 0, lidHeight)).Mul(sdf.RotateZ(deg(90))),
				sdf.Translate3d(xyz(0, yOfs, lidHeight)),
				sdf.Translate3d(xyz(0, -yOfs, lidHeight)),
			}
			return ok3(obj.AddTabs(box, tab, upper, mSet))
		}))
		add(mk3("obj.AddTabs(box 40x40x20 wall=3 "+part+",AngleTab(7.5x3x3,cl=0.3),2 tabs)", "obj.AddTabs", false, true, func() (sdf.SDF3, error) {
			const wall = 3.0
			box, iSize, lidHeight, err := tabBox(upper)
			if err != nil {
				return nil, err
			}
			tab, err := obj.NewAngleTab(xyz(2.5*wall, wall, wall), 0.3)
			if err != nil {
				return nil, err
			}
			yOfs := 0.5 * (iSize.Y + wall)
			mSet := []sdf.M44{
				sdf.Translate3d(xyz(0, yOfs, lidHeight)),
				sdf.Translate3d(xyz(0, -yOfs, lidHeight)),
			}
			return ok3(obj.AddTabs(box, tab, upper, mSet))
		}))
		add(mk3("obj.AddTabs(box 40x40x20 wall=3 "+part+",ScrewTab(l=7,r=2.4,round,holes 3/5.6 r=1),4 tabs)", "obj.AddTabs", false, true, func() (sdf.SDF3, error) {
			const wall = 3.0
			box, _, lidHeight, err := tabBox(upper)
			if err != nil {
				return nil, err
			}
			l := 20 * 0.35
			tab, err := obj.NewScrewTab(&obj.ScrewTab{Length: l, Radius: 0.8 * wall, Round: true, HoleUpper: wall, HoleLower: 0.8 * l, HoleRadius: 1})
			if err != nil {
				return nil, err
			}
			xOfs := 0.5*40 - wall
			yOfs := 0.5*40 - wall
			mSet := []sdf.M44{
				sdf.Translate3d(xyz(xOfs, yOfs, lidHeight)),
				sdf.Translate3d(xyz(-xOfs, yOfs, lidHeight)),
				sdf.Translate3d(xyz(xOfs, -yOfs, lidHeight)),
				sdf.Translate3d(xyz(-xOfs, -yOfs, lidHeight)),
			}
			return ok3(obj.AddTabs(box, tab, upper, mSet))
		}))
	}

	// Tab bodies and envelopes (tab.go). Body(upper=true) and Envelope(upper=false) of the straight
	// and angle tabs are documented to be nil and are not leaves.
	tabM := func() sdf.M44 { return sdf.Translate3d(xyz(1, 2, 3)).Mul(sdf.RotateZ(deg(90))) }
	add(mk3("obj.StraightTab.Body(9x1.5x3,cl=0.25,lower,m=T(1,2,3)*Rz(90))", "obj.StraightTab.Body", false, true, func() (sdf.SDF3, error) {
		t, err := obj.NewStraightTab(xyz(9, 1.5, 3), 0.25)
		if err != nil {
			return nil, err
		}
		return ok3(t.Body(false, tabM()))
	}))
	add(mk3("obj.StraightTab.Envelope(9x1.5x3,cl=0.25,upper,m=T(1,2,3)*Rz(90))", "obj.StraightTab.Envelope", false, true, func() (sdf.SDF3, error) {
		t, err := obj.NewStraightTab(xyz(9, 1.5, 3), 0.25)
		if err != nil {
			return nil, err
		}
		return ok3(t.Envelope(true, tabM()))
	}))
	add(mk3("obj.AngleTab.Body(8x3x3,cl=0.25,lower,m=T(1,2,3)*Rz(90))", "obj.AngleTab.Body", false, true, func() (sdf.SDF3, error) {
		t, err := obj.NewAngleTab(xyz(8, 3, 3), 0.25)
		if err != nil {
			return nil, err
		}
		return ok3(t.Body(false, tabM()))
	}))
	add(mk3("obj.AngleTab.Envelope(8x3x3,cl=0.25,upper,m=T(1,2,3)*Rz(90))", "obj.AngleTab.Envelope", false, true, func() (sdf.SDF3, error) {
		t, err := obj.NewAngleTab(xyz(8, 3, 3), 0.25)
		if err != nil {
			return nil, err
		}
		return ok3(t.Envelope(true, tabM()))
	}))
	screwTab := func(round bool) (obj.Tab, error) {
		return obj.NewScrewTab(&obj.ScrewTab{Length: 8, Radius: 2.5, Round: round, HoleUpper: 3, HoleLower: 6, HoleRadius: 1})
	}
	for _, round := range []bool{false, true} {
		round := round
		add(mk3(fmt.Sprintf("obj.ScrewTab.Body(l=8,r=2.5,round=%v,holes 3/6 r=1,lower,m=T(1,2,3)*Rz(90))", round), "obj.ScrewTab.Body", false, true, func() (sdf.SDF3, error) {
			t, err := screwTab(round)
			if err != nil {
				return nil, err
			}
			return ok3(t.Body(false, tabM()))
		}))
		add(mk3(fmt.Sprintf("obj.ScrewTab.Envelope(l=8,r=2.5,round=%v,holes 3/6 r=1,lower,m=T(1,2,3)*Rz(90))", round), "obj.ScrewTab.Envelope", false, true, func() (sdf.SDF3, error) {
			t, err := screwTab(round)
			if err != nil {
				return nil, err
			}
			return ok3(t.Envelope(false, tabM()))
		}))
	}
	add(mk3("obj.ScrewTab.Envelope(l=8,r=2.5,round=false,holes 3/6 r=1,upper,m=T(1,2,3)*Rz(90))", "obj.ScrewTab.Envelope", false, true, func() (sdf.SDF3, error) {
		t, err := screwTab(false)
		if err != nil {
			return nil, err
		}
		return ok3(t.Envelope(true, tabM()))
	}))

	// obj.Angle3D (examples/angle)
	add(mk3("obj.Angle3D(X=4x0.5,Y=4x0.5,root=0.5,l=8)", "obj.Angle3D", false, true, func() (sdf.SDF3, error) {
		return obj.Angle3D(&obj.AngleParms{X: obj.AngleLeg{Length: 4, Thickness: 0.5}, Y: obj.AngleLeg{Length: 4, Thickness: 0.5}, RootRadius: 0.5, Length: 8})
	}))
	add(mk3("obj.Angle3D(X=3x0.5,Y=2x0.25,root=0,l=1)", "obj.Angle3D", false, true, func() (sdf.SDF3, error) {
		return obj.Angle3D(&obj.AngleParms{X: obj.AngleLeg{Length: 3, Thickness: 0.5}, Y: obj.AngleLeg{Length: 2, Thickness: 0.25}, RootRadius: 0, Length: 1})
	}))

	// obj.Arrow3D (examples/arrow): union of capsule, cones, spheres
	for _, k := range []obj.ArrowParms{
		{Axis: [2]float64{8, 0.5}, Head: [2]float64{2, 1}, Tail: [2]float64{2, 1}, Style: "cc"},
		{Axis: [2]float64{50, 1}, Head: [2]float64{5, 2}, Tail: [2]float64{5, 2}, Style: "cb"},
		{Axis: [2]float64{4, 0.5}, Head: [2]float64{0, 1}, Tail: [2]float64{0, 1}, Style: "b."},
		{Axis: [2]float64{4, 0.5}, Style: ""},
	} {
		k := k
		add(mk3(fmt.Sprintf("obj.Arrow3D(axis=%s/%s,head=%s/%s,tail=%s/%s,style=%s)", g(k.Axis[0]), g(k.Axis[1]), g(k.Head[0]), g(k.Head[1]), g(k.Tail[0]), g(k.Tail[1]), k.Style), "obj.Arrow3D", false, true, func() (sdf.SDF3, error) {
			kk := k
			return obj.Arrow3D(&kk)
		}))
	}

	// obj.Axes3D (examples/arrow)
	for _, k := range [][2]v3.Vec{
		{xyz(0, 0, 0), xyz(4, 4, 4)},
		{xyz(-10, -10, -10), xyz(10, 20, 20)},
		{xyz(0, 0, 0), xyz(4, 2, 0)}, // a 2d coordinate system: no z-axis
	} {
		k := k
		add(mk3(fmt.Sprintf("obj.Axes3D((%s),(%s))", gs(k[0].X, k[0].Y, k[0].Z), gs(k[1].X, k[1].Y, k[1].Z)), "obj.Axes3D", false, true, func() (sdf.SDF3, error) {
			return obj.Axes3D(k[0], k[1])
		}))
	}

	// obj.DirectedArrow3D (examples/bucky). It overwrites k.Axis[0] with the head/tail distance.
	add(mk3("obj.DirectedArrow3D(axis r=0.25,head=1/0.5,tail=1/0.5,style=cb,head=(1,2,3),tail=(-1,0,-2))", "obj.DirectedArrow3D", false, true, func() (sdf.SDF3, error) {
		k := obj.ArrowParms{Axis: [2]float64{0, 0.25}, Head: [2]float64{1, 0.5}, Tail: [2]float64{1, 0.5}, Style: "cb"}
		return obj.DirectedArrow3D(&k, xyz(1, 2, 3), xyz(-1, 0, -2))
	}))
	add(mk3("obj.DirectedArrow3D(axis r=0.25,head=0/0.5,style=b.,head=(0,0,-4),tail=(0,0,4))", "obj.DirectedArrow3D", false, true, func() (sdf.SDF3, error) {
		// head below tail: the arrow is rotated by 180 degrees (antiparallel RotateToVector)
		k := obj.ArrowParms{Axis: [2]float64{0, 0.25}, Head: [2]float64{0, 0.5}, Tail: [2]float64{0, 0.5}, Style: "b."}
		return obj.DirectedArrow3D(&k, xyz(0, 0, -4), xyz(0, 0, 4))
	}))

	// obj.Bolt (examples/3dp_nutbolt). Comparatively expensive (measured: still only a few microseconds per Evaluate): Screw3D thread (polygon evaluation per point),
	// the knurled head is the intersection of two 8-start screws.
	add(mk3("obj.Bolt(M8x1.25,hex,tol=0,total=20,shank=5)", "obj.Bolt", false, false, func() (sdf.SDF3, error) {
		return obj.Bolt(&obj.BoltParms{Thread: "M8x1.25", Style: "hex", TotalLength: 20, ShankLength: 5})
	}))
	add(mk3("obj.Bolt(M16x2,hex,tol=0.125,total=50,shank=10)", "obj.Bolt", false, false, func() (sdf.SDF3, error) {
		return obj.Bolt(&obj.BoltParms{Thread: "M16x2", Style: "hex", Tolerance: 0.125, TotalLength: 50, ShankLength: 10})
	}))
	add(mk3("obj.Bolt(unc_5/8,knurl,tol=0.005,total=2,shank=0.5)", "obj.Bolt", false, false, func() (sdf.SDF3, error) {
		return obj.Bolt(&obj.BoltParms{Thread: "unc_5/8", Style: "knurl", Tolerance: 0.005, TotalLength: 2.0, ShankLength: 0.5})
	}))
	add(mk3("obj.Bolt(M8x1.25,hex,tol=0,total=8,shank=8 (no thread))", "obj.Bolt", false, true, func() (sdf.SDF3, error) {
		return obj.Bolt(&obj.BoltParms{Thread: "M8x1.25", Style: "hex", TotalLength: 8, ShankLength: 8})
	}))

	// obj.BoltCircle3D (examples/fidget). Lip false: RotateCopy2D.
	add(mk3("obj.BoltCircle3D(depth=2,rh=0.5,rc=4,n=6)", "obj.BoltCircle3D", false, false, func() (sdf.SDF3, error) {
		return obj.BoltCircle3D(2, 0.5, 4, 6)
	}))
	add(mk3("obj.BoltCircle3D(depth=8,rh=1,rc=2,n=3)", "obj.BoltCircle3D", false, false, func() (sdf.SDF3, error) {
		return obj.BoltCircle3D(8, 1, 2, 3)
	}))

	// obj.ChamferedCylinder (examples/bolt_container): takes an SDF3 operand (a cylinder here).
	for _, k := range []struct{ kb, kt float64 }{{0, 0.5}, {0.25, 0.25}, {0, 0}} {
		k := k
		add(mk3(fmt.Sprintf("obj.ChamferedCylinder(Cylinder3D(h=8,r=2,round=0),kb=%s,kt=%s)", g(k.kb), g(k.kt)), "obj.ChamferedCylinder", false, true, func() (sdf.SDF3, error) {
			c, err := sdf.Cylinder3D(8, 2, 0)
			if err != nil {
				return nil, err
			}
			return obj.ChamferedCylinder(c, k.kb, k.kt)
		}))
	}

	// obj.ChamferedHole3D, obj.CounterBoredHole3D, obj.CounterSunkHole3D (examples/challenge, eurorack, test)
	add(mk3("obj.ChamferedHole3D(l=8,r=1,ch=0.5)", "obj.ChamferedHole3D", false, true, func() (sdf.SDF3, error) {
		return obj.ChamferedHole3D(8, 1, 0.5)
	}))
	add(mk3("obj.ChamferedHole3D(l=2,r=2,ch=1)", "obj.ChamferedHole3D", false, true, func() (sdf.SDF3, error) {
		return obj.ChamferedHole3D(2, 2, 1)
	}))
	add(mk3("obj.CounterBoredHole3D(l=8,r=1,cbr=2,cbd=2)", "obj.CounterBoredHole3D", false, true, func() (sdf.SDF3, error) {
		return obj.CounterBoredHole3D(8, 1, 2, 2)
	}))
	add(mk3("obj.CounterBoredHole3D(l=12,r=1.9,cbr=5.3,cbd=3.5)", "obj.CounterBoredHole3D", false, true, func() (sdf.SDF3, error) {
		return obj.CounterBoredHole3D(12, 3.8*0.5, 10.6*0.5, 3.5)
	}))
	add(mk3("obj.CounterSunkHole3D(l=4,r=1)", "obj.CounterSunkHole3D", false, true, func() (sdf.SDF3, error) {
		return obj.CounterSunkHole3D(4, 1)
	}))
	add(mk3("obj.CounterSunkHole3D(l=30,r=2)", "obj.CounterSunkHole3D", false, true, func() (sdf.SDF3, error) {
		return obj.CounterSunkHole3D(30, 2)
	}))

	// obj.DrainCover (examples/draincover). Comparatively expensive (measured: still only a few microseconds per Evaluate): a revolved polygon minus a union of
	// GrateNumber (x2 with a crossbar) elongated cones. Small GrateNumber here.
	add(mk3("obj.DrainCover(dia=48,wall=12x3,draft=0,outer=5,inner=4.5,cover=3,grates=4x1.0,gratedraft=0,no crossbar)", "obj.DrainCover", false, true, func() (sdf.SDF3, error) {
		return obj.DrainCover(&obj.DrainCoverParms{
			WallDiameter: 48, WallHeight: 12, WallThickness: 3, WallDraft: 0,
			OuterWidth: 5, InnerWidth: 4.5, CoverThickness: 3,
			GrateNumber: 4, GrateWidth: 1.0, GrateDraft: 0,
			CrossBarWidth: 0, CrossBarWeb: false,
		})
	}))
	add(mk3("obj.DrainCover(dia=100,wall=20x5,draft=2,outer=10,inner=7.5,cover=5,grates=4x1.1,gratedraft=8,crossbar=0.8,no web)", "obj.DrainCover", false, true, func() (sdf.SDF3, error) {
		return obj.DrainCover(&obj.DrainCoverParms{
			WallDiameter: 100, WallHeight: 20, WallThickness: 5, WallDraft: deg(2),
			OuterWidth: 10, InnerWidth: 7.5, CoverThickness: 5,
			GrateNumber: 4, GrateWidth: 1.1, GrateDraft: deg(8),
			CrossBarWidth: 0.8, CrossBarWeb: false,
		})
	}))
	add(mk3("obj.DrainCover(dia=100,wall=20x5,draft=2,outer=10,inner=7.5,cover=7.5,grates=3x1.0,gratedraft=8,crossbar=1.8,web)", "obj.DrainCover", false, false, func() (sdf.SDF3, error) {
		// Lip false: the web is blended into the body with PolyMin
		return obj.DrainCover(&obj.DrainCoverParms{
			WallDiameter: 100, WallHeight: 20, WallThickness: 5, WallDraft: deg(2),
			OuterWidth: 10, InnerWidth: 7.5, CoverThickness: 7.5,
			GrateNumber: 3, GrateWidth: 1.0, GrateDraft: deg(8),
			CrossBarWidth: 1.8, CrossBarWeb: true,
		})
	}))

	// obj.DroneMotorArm, obj.DroneMotorArmSocket (examples/drone). The arm blends with PolyMin.
	droneArm := func() *obj.DroneArmParms {
		return &obj.DroneArmParms{
			MotorSize:     xy(28, 30),
			MotorMount:    xyz(16, 19, 3.4),
			RotorCavity:   xy(9, 1.5),
			WallThickness: 3.0,
			SideClearance: 1.5,
			MountHeight:   0.7,
			ArmHeight:     0.9,
			ArmLength:     70.0,
		}
	}
	add(mk3("obj.DroneMotorArm(motor=28x30,mount=16/19/3.4,cavity=9x1.5,wall=3,cl=1.5,mounth=0.7,armh=0.9,arml=70)", "obj.DroneMotorArm", false, false, func() (sdf.SDF3, error) {
		return obj.DroneMotorArm(droneArm())
	}))
	add(mk3("obj.DroneMotorArmSocket(arm as DroneMotorArm,size=40x30x30,cl=0.5,stop=35)", "obj.DroneMotorArmSocket", false, true, func() (sdf.SDF3, error) {
		return obj.DroneMotorArmSocket(&obj.DroneArmSocketParms{Arm: droneArm(), Size: xyz(40, 30, 30), Clearance: 0.5, Stop: 35})
	}))

	// obj.EuroRackPanel3D (examples/eurorack)
	add(mk3("obj.EuroRackPanel3D(U=3,HP=12,corner=3,hole=3.6,t=2.5,ridge)", "obj.EuroRackPanel3D", false, true, func() (sdf.SDF3, error) {
		return obj.EuroRackPanel3D(&obj.EuroRackParms{U: 3, HP: 12, CornerRadius: 3, HoleDiameter: 3.6, Thickness: 2.5, Ridge: true})
	}))
	add(mk3("obj.EuroRackPanel3D(U=1,HP=4,corner=0,hole=default,t=2,no ridge)", "obj.EuroRackPanel3D", false, true, func() (sdf.SDF3, error) {
		return obj.EuroRackPanel3D(&obj.EuroRackParms{U: 1, HP: 4, Thickness: 2})
	}))

	// obj.GfBase, obj.GfBody (examples/gridfinity). Comparatively expensive (Multi3D of pyramids and holes).
	add(mk3("obj.GfBase(1x1)", "obj.GfBase", false, true, func() (sdf.SDF3, error) {
		return ok3(obj.GfBase(&obj.GfBaseParms{Size: v2i.Vec{X: 1, Y: 1}}))
	}))
	add(mk3("obj.GfBase(2x1,magnet,hole)", "obj.GfBase", false, true, func() (sdf.SDF3, error) {
		return ok3(obj.GfBase(&obj.GfBaseParms{Size: v2i.Vec{X: 2, Y: 1}, Magnet: true, Hole: true}))
	}))
	add(mk3("obj.GfBody(1x1x3,empty,hole)", "obj.GfBody", false, true, func() (sdf.SDF3, error) {
		return ok3(obj.GfBody(&obj.GfBodyParms{Size: v3i.Vec{X: 1, Y: 1, Z: 3}, Hole: true, Empty: true}))
	}))
	add(mk3("obj.GfBody(1x2x1)", "obj.GfBody", false, true, func() (sdf.SDF3, error) {
		return ok3(obj.GfBody(&obj.GfBodyParms{Size: v3i.Vec{X: 1, Y: 2, Z: 1}}))
	}))

	// obj.Hex3D, obj.HexHead3D (examples/nutcover, bolt_container)
	for _, k := range []struct{ r, h, round float64 }{{2, 4, 0.25}, {2, 1, 0}} {
		k := k
		add(mk3(fmt.Sprintf("obj.Hex3D(r=%s,h=%s,round=%s)", g(k.r), g(k.h), g(k.round)), "obj.Hex3D", false, true, func() (sdf.SDF3, error) {
			return obj.Hex3D(k.r, k.h, k.round)
		}))
	}
	for _, round := range []string{"", "t", "b", "tb"} {
		round := round
		add(mk3(fmt.Sprintf("obj.HexHead3D(r=2,h=1.5,round=%q)", round), "obj.HexHead3D", false, true, func() (sdf.SDF3, error) {
			return obj.HexHead3D(2, 1.5, round)
		}))
	}

	// obj.ImportTriMesh of a small cube mesh; obj.ImportSTL of /repo/files/monkey.stl (366 triangles,
	// examples/monkey_hat parameters). Evaluate is the plane distance of the "closest" of the
	// numNeighbors nearest triangles: neither exact nor Lipschitz.
	add(mk3("obj.ImportTriMesh(cube h=1,neighbors=12,3,5)", "obj.ImportTriMesh", false, false, func() (sdf.SDF3, error) {
		return ok3(obj.ImportTriMesh(cubeMesh(1), 12, 3, 5))
	}))
	add(mk3("obj.ImportTriMesh(cube h=1,neighbors=20,3,5)", "obj.ImportTriMesh", false, false, func() (sdf.SDF3, error) {
		// more neighbours requested than there are triangles
		return ok3(obj.ImportTriMesh(cubeMesh(1), 20, 3, 5))
	}))
	add(mk3("obj.ImportTriMesh(tetrahedron,neighbors=4,3,5)", "obj.ImportTriMesh", false, false, func() (sdf.SDF3, error) {
		return ok3(obj.ImportTriMesh(tetraMesh(), 4, 3, 5))
	}))
	add(mk3("obj.ImportSTL(monkey.stl,neighbors=20,3,5)", "obj.ImportSTL", false, false, func() (sdf.SDF3, error) {
		return obj.ImportSTL(StlPath, 20, 3, 5)
	}))

	// obj.Keyway3D (examples/joko)
	for _, k := range []obj.KeywayParameters{
		{ShaftRadius: 0.55, KeyRadius: 0.77, KeyWidth: 0.35, ShaftLength: 4},
		{ShaftRadius: 2, KeyRadius: 1.5, KeyWidth: 0.5, ShaftLength: 4},
	} {
		k := k
		add(mk3(fmt.Sprintf("obj.Keyway3D(rshaft=%s,rkey=%s,wkey=%s,l=%s)", g(k.ShaftRadius), g(k.KeyRadius), g(k.KeyWidth), g(k.ShaftLength)), "obj.Keyway3D", false, true, func() (sdf.SDF3, error) {
			kk := k
			return obj.Keyway3D(&kk)
		}))
	}

	// obj.Knurl3D, obj.KnurledHead3D (examples/gas_cap). Comparatively expensive (measured: still only a few microseconds per Evaluate): intersection of two multi-start screws.
	add(mk3("obj.Knurl3D(l=4,r=4,pitch=1,h=0.25,theta=45)", "obj.Knurl3D", false, false, func() (sdf.SDF3, error) {
		return obj.Knurl3D(&obj.KnurlParms{Length: 4, Radius: 4, Pitch: 1, Height: 0.25, Theta: deg(45)})
	}))
	add(mk3("obj.Knurl3D(l=2,r=1,pitch=0.5,h=0.125,theta=30)", "obj.Knurl3D", false, false, func() (sdf.SDF3, error) {
		return obj.Knurl3D(&obj.KnurlParms{Length: 2, Radius: 1, Pitch: 0.5, Height: 0.125, Theta: deg(30)})
	}))
	add(mk3("obj.KnurledHead3D(r=8,h=6,pitch=2)", "obj.KnurledHead3D", false, false, func() (sdf.SDF3, error) {
		return obj.KnurledHead3D(8, 6, 2)
	}))

	// obj.Nut (examples/3dp_nutbolt). Comparatively expensive (measured: still only a few microseconds per Evaluate): Screw3D thread.
	add(mk3("obj.Nut(M8x1.25,hex,tol=0)", "obj.Nut", false, false, func() (sdf.SDF3, error) {
		return obj.Nut(&obj.NutParms{Thread: "M8x1.25", Style: "hex"})
	}))
	add(mk3("obj.Nut(M16x2,hex,tol=0.125)", "obj.Nut", false, false, func() (sdf.SDF3, error) {
		return obj.Nut(&obj.NutParms{Thread: "M16x2", Style: "hex", Tolerance: 0.125})
	}))
	add(mk3("obj.Nut(unc_5/8,knurl,tol=0.005)", "obj.Nut", false, false, func() (sdf.SDF3, error) {
		return obj.Nut(&obj.NutParms{Thread: "unc_5/8", Style: "knurl", Tolerance: 0.005})
	}))

	// obj.ThreadedCylinderParms.Object (examples/pico_cnc). Comparatively expensive (measured: still only a few microseconds per Evaluate): Screw3D thread.
	add(mk3("obj.ThreadedCylinderParms.Object(h=10,dia=6,unc_8_32,tol=0)", "obj.ThreadedCylinderParms.Object", false, false, func() (sdf.SDF3, error) {
		k := &obj.ThreadedCylinderParms{Height: 10, Diameter: 6, Thread: "unc_8_32", Tolerance: 0}
		return k.Object()
	}))
	add(mk3("obj.ThreadedCylinderParms.Object(h=8,dia=16,M8x1.25,tol=0.125)", "obj.ThreadedCylinderParms.Object", false, false, func() (sdf.SDF3, error) {
		k := &obj.ThreadedCylinderParms{Height: 8, Diameter: 16, Thread: "M8x1.25", Tolerance: 0.125}
		return k.Object()
	}))

	// obj.Panel3D (examples/pico_cnc)
	add(mk3("obj.Panel3D(8x4,corner=0.5,no holes,t=1)", "obj.Panel3D", false, true, func() (sdf.SDF3, error) {
		return obj.Panel3D(&obj.PanelParms{Size: xy(8, 4), CornerRadius: 0.5, Thickness: 1})
	}))
	add(mk3("obj.Panel3D(40x30,corner=4,hole=3.5,margin=7,pattern=x/xx/x/xx,t=2)", "obj.Panel3D", false, true, func() (sdf.SDF3, error) {
		return obj.Panel3D(&obj.PanelParms{
			Size:         xy(40, 30),
			CornerRadius: 4,
			HoleDiameter: 3.5,
			HoleMargin:   [4]float64{7, 7, 7, 7},
			HolePattern:  [4]string{"x", "xx", "x", "xx"},
			Thickness:    2,
		})
	}))

	// obj.PanelBox3D (examples/panel_box): returns {panel, top, bottom}; every part is a leaf.
	// Comparatively expensive (unions of tabs, ridges, holes).
	panelBoxParts := []string{"panel", "top", "bottom"}
	for _, k := range []struct {
		name string
		k    obj.PanelBoxParms
	}{
		{"50x40x60,wall=2.5,panel=3,round=5,insets=2/2,hole=3.4,tabs=TbtbT",
			obj.PanelBoxParms{Size: xyz(50, 40, 60), Wall: 2.5, Panel: 3, Rounding: 5, FrontInset: 2, BackInset: 2, Hole: 3.4, SideTabs: "TbtbT"}},
		{"32x24x40,wall=2,panel=2,round=4,insets=2/1,cl=0.0625,hole=0,tabs=tb",
			obj.PanelBoxParms{Size: xyz(32, 24, 40), Wall: 2, Panel: 2, Rounding: 4, FrontInset: 2, BackInset: 1, Clearance: 0.0625, SideTabs: "tb"}},
		{"32x24x40,wall=2,panel=2,round=0,insets=0/0,hole=0,no tabs",
			obj.PanelBoxParms{Size: xyz(32, 24, 40), Wall: 2, Panel: 2}},
	} {
		k := k
		for i, part := range panelBoxParts {
			i := i
			add(mk3(fmt.Sprintf("obj.PanelBox3D(%s)[%d:%s]", k.name, i, part), "obj.PanelBox3D", false, true, func() (sdf.SDF3, error) {
				kk := k.k
				parts, err := obj.PanelBox3D(&kk)
				if err != nil {
					return nil, err
				}
				if i >= len(parts) {
					return nil, fmt.Errorf("shapes: obj.PanelBox3D returned %d parts, want > %d", len(parts), i)
				}
				return parts[i], nil
			}))
		}
	}

	// obj.PanelHole3D (examples/eurorack)
	add(mk3("obj.PanelHole3D(dia=9.4,t=2.5,indent=2x4x2,offset=11)", "obj.PanelHole3D", false, true, func() (sdf.SDF3, error) {
		return obj.PanelHole3D(&obj.PanelHoleParms{Diameter: 9.4, Thickness: 2.5, Indent: xyz(2, 4, 2), Offset: 11.0})
	}))
	add(mk3("obj.PanelHole3D(dia=7,t=2.5,no indent)", "obj.PanelHole3D", false, true, func() (sdf.SDF3, error) {
		return obj.PanelHole3D(&obj.PanelHoleParms{Diameter: 7.0, Thickness: 2.5})
	}))
	add(mk3("obj.PanelHole3D(dia=6,t=2,indent=2x2x1.5,offset=5,orientation=135deg)", "obj.PanelHole3D", false, true, func() (sdf.SDF3, error) {
		return obj.PanelHole3D(&obj.PanelHoleParms{Diameter: 6, Thickness: 2, Indent: xyz(2, 2, 1.5), Offset: 5, Orientation: deg(135)})
	}))

	// obj.Pipe3D, obj.StdPipe3D (examples/test, examples/delta)
	add(mk3("obj.Pipe3D(ro=2,ri=1.5,l=8)", "obj.Pipe3D", false, true, func() (sdf.SDF3, error) {
		return obj.Pipe3D(2, 1.5, 8)
	}))
	add(mk3("obj.Pipe3D(ro=4,ri=0.5,l=1)", "obj.Pipe3D", false, true, func() (sdf.SDF3, error) {
		return obj.Pipe3D(4, 0.5, 1)
	}))
	add(mk3("obj.StdPipe3D(sch40:1,mm,l=100)", "obj.StdPipe3D", false, true, func() (sdf.SDF3, error) {
		return obj.StdPipe3D("sch40:1", "mm", 100)
	}))
	add(mk3("obj.StdPipe3D(sch40:1/2,inch,l=2)", "obj.StdPipe3D", false, true, func() (sdf.SDF3, error) {
		return obj.StdPipe3D("sch40:1/2", "inch", 2)
	}))

	// obj.PipeConnector3D, obj.StdPipeConnector3D (examples/pipe_connectors)
	add(mk3("obj.PipeConnector3D(l=8,ro=2,ri=1.5,recess=3x0.25,arms=+x+z)", "obj.PipeConnector3D", false, true, func() (sdf.SDF3, error) {
		return obj.PipeConnector3D(&obj.PipeConnectorParms{Length: 8, OuterRadius: 2, InnerRadius: 1.5, RecessDepth: 3, RecessWidth: 0.25, Configuration: [6]bool{true, false, false, false, true, false}})
	}))
	add(mk3("obj.PipeConnector3D(l=8,ro=2,ri=1.5,no recess,arms=all 6)", "obj.PipeConnector3D", false, true, func() (sdf.SDF3, error) {
		return obj.PipeConnector3D(&obj.PipeConnectorParms{Length: 8, OuterRadius: 2, InnerRadius: 1.5, Configuration: [6]bool{true, true, true, true, true, true}})
	}))
	add(mk3("obj.StdPipeConnector3D(sch40:1,mm,l=40,arms=+z-z)", "obj.StdPipeConnector3D", false, true, func() (sdf.SDF3, error) {
		return obj.StdPipeConnector3D("sch40:1", "mm", 40, [6]bool{false, false, false, false, true, true})
	}))
	add(mk3("obj.StdPipeConnector3D(sch40:1,mm,l=40,arms=+x-x+y-y+z)", "obj.StdPipeConnector3D", false, true, func() (sdf.SDF3, error) {
		return obj.StdPipeConnector3D("sch40:1", "mm", 40, [6]bool{true, true, true, true, true, false})
	}))

	// obj.Servo3D (examples/servo)
	for _, name := range []string{"nano", "standard"} {
		name := name
		add(mk3("obj.Servo3D("+name+")", "obj.Servo3D", false, true, func() (sdf.SDF3, error) {
			k, err := obj.ServoLookup(name)
			if err != nil {
				return nil, err
			}
			return obj.Servo3D(k)
		}))
	}

	// obj.SpringParms.Spring3D (examples/pico_cnc)
	add(mk3("obj.SpringParms.Spring3D(w=8,h=4,wall=1,dia=5,n=3,boss=4/8)", "obj.SpringParms.Spring3D", false, true, func() (sdf.SDF3, error) {
		k := &obj.SpringParms{Width: 8, Height: 4, WallThickness: 1, Diameter: 5, NumSections: 3, Boss: [2]float64{4, 8}}
		return k.Spring3D()
	}))
	add(mk3("obj.SpringParms.Spring3D(w=25,h=20,wall=1,dia=5,n=3,boss=12/8)", "obj.SpringParms.Spring3D", false, true, func() (sdf.SDF3, error) {
		k := &obj.SpringParms{Width: 25, Height: 20, WallThickness: 1, Diameter: 5, NumSections: 3, Boss: [2]float64{12, 8}}
		return k.Spring3D()
	}))

	// obj.Standoff3D (examples/maixgo, examples/pico_cnc). Lip false with webs (RotateCopy3D).
	add(mk3("obj.Standoff3D(h=15,dia=6,hole=10x2.4,no webs)", "obj.Standoff3D", false, true, func() (sdf.SDF3, error) {
		return obj.Standoff3D(&obj.StandoffParms{PillarHeight: 15, PillarDiameter: 6, HoleDepth: 10, HoleDiameter: 2.4})
	}))
	add(mk3("obj.Standoff3D(h=14,dia=4.5,hole=11x2.6,webs=2 h=10 dia=12 w=3.5)", "obj.Standoff3D", false, false, func() (sdf.SDF3, error) {
		return obj.Standoff3D(&obj.StandoffParms{PillarHeight: 14, PillarDiameter: 4.5, HoleDepth: 11, HoleDiameter: 2.6, NumberWebs: 2, WebHeight: 10, WebDiameter: 12, WebWidth: 3.5})
	}))
	add(mk3("obj.Standoff3D(h=8,dia=6,stub=2x2.5,webs=3 h=4 dia=12 w=1)", "obj.Standoff3D", false, false, func() (sdf.SDF3, error) {
		return obj.Standoff3D(&obj.StandoffParms{PillarHeight: 8, PillarDiameter: 6, HoleDepth: -2, HoleDiameter: 2.5, NumberWebs: 3, WebHeight: 4, WebDiameter: 12, WebWidth: 1})
	}))
	add(mk3("obj.Standoff3D(h=8,dia=4,no hole,no webs)", "obj.Standoff3D", false, true, func() (sdf.SDF3, error) {
		return obj.Standoff3D(&obj.StandoffParms{PillarHeight: 8, PillarDiameter: 4})
	}))

	// obj.TruncRectPyramid3D (examples/flask, midget, inlet_hood): Cone3D, elongated and cut at z=0.
	for _, k := range []struct {
		size           v3.Vec
		angle, rb, rnd float64
	}{
		{xyz(4, 2, 1), 45, 0.5, 0},               // dr > base radius: the cone's top radius is 0
		{xyz(8, 4, 2), 88, 1, 0.25},              // small draft, rounded
		{xyz(2, 2, 1), 90, 0.5, 0.125},           // vertical sides (r0 == r1), rounded
		{xyz(14, 14, 28), 85, 7, 1.4},            // examples/flask pin lug (w == thickness)
		{xyz(2, 0.3125, 1.1875), 87, 0.15, 0.15}, // examples/midget crankcase
	} {
		k := k
		add(mk3(fmt.Sprintf("obj.TruncRectPyramid3D(%sx%sx%s,angle=%s,rbase=%s,round=%s)", g(k.size.X), g(k.size.Y), g(k.size.Z), g(k.angle), g(k.rb), g(k.rnd)), "obj.TruncRectPyramid3D", false, true, func() (sdf.SDF3, error) {
			return obj.TruncRectPyramid3D(&obj.TruncRectPyramidParms{Size: k.size, BaseAngle: deg(k.angle), BaseRadius: k.rb, RoundRadius: k.rnd})
		}))
	}

	// obj.Washer3D (examples/test, examples/birdhouse). Remove != 0 uses RevolveTheta3D.
	for _, k := range []obj.WasherParms{
		{Thickness: 1, InnerRadius: 1, OuterRadius: 2, Remove: 0},
		{Thickness: 1, InnerRadius: 1, OuterRadius: 2, Remove: 0.5},
		{Thickness: 10, InnerRadius: 40, OuterRadius: 50, Remove: 0.3},
		{Thickness: 2, InnerRadius: 1, OuterRadius: 3, Remove: 0.75},
	} {
		k := k
		add(mk3(fmt.Sprintf("obj.Washer3D(t=%s,ri=%s,ro=%s,remove=%s)", g(k.Thickness), g(k.InnerRadius), g(k.OuterRadius), g(k.Remove)), "obj.Washer3D", false, k.Remove == 0, func() (sdf.SDF3, error) {
			kk := k
			return obj.Washer3D(&kk)
		}))
	}

	return ls
}
