package shapes

import (
	"fmt"
	"math"

	"github.com/deadsy/sdfx/sdf"
	v2 "github.com/deadsy/sdfx/vec/v2"
	"github.com/deadsy/sdfx/vec/v2i"
	v3 "github.com/deadsy/sdfx/vec/v3"
	"github.com/deadsy/sdfx/vec/v3i"
)

// Ev2 / Ev3 are reference evaluators.
type Ev2 func(p v2.Vec) float64
type Ev3 func(p v3.Vec) float64

// RefKind says how far the reference model fixes the field of a node.
type RefKind int

const (
	RefNone  RefKind = iota // no reference (leaf)
	RefValue                // the value is fixed by the operation
	RefSet                  // only inside/outside is fixed (the distance to a cutting surface is an implementation choice)
)

// N2 is a 2D expression tree node.
type N2 struct {
	Name  string
	Root  string // constructor / combinator at the root
	Depth int
	Build func() (sdf.SDF2, error)
	// Ref builds the reference evaluator from freshly built children (it never calls the combinator under test).
	Ref   func() (Ev2, error)
	Kind  RefKind
	Exact bool
	Lip   bool
	// OperandExact: the (first) operand is an exact Euclidean distance field
	OperandExact bool
}

// N3 is a 3D expression tree node.
type N3 struct {
	Name  string
	Root  string
	Depth int
	Build func() (sdf.SDF3, error)
	Ref   func() (Ev3, error)
	Kind  RefKind
	Exact bool
	Lip   bool
	// OperandExact: the (first) operand is an exact Euclidean distance field
	OperandExact bool
}

// LeafNodes2 / LeafNodes3 wrap the leaf menus.
func LeafNodes2() []N2 {
	var out []N2
	for _, l := range Leaves2() {
		l := l
		out = append(out, N2{Name: l.Name, Root: l.Ctor, Build: l.Build, Exact: l.Exact, Lip: l.Lip, Kind: RefValue,
			Ref: func() (Ev2, error) {
				s, err := l.Build()
				if err != nil {
					return nil, err
				}
				return s.Evaluate, nil
			}})
	}
	return out
}

func LeafNodes3() []N3 {
	var out []N3
	for _, l := range Leaves3() {
		l := l
		out = append(out, N3{Name: l.Name, Root: l.Ctor, Build: l.Build, Exact: l.Exact, Lip: l.Lip, Kind: RefValue,
			Ref: func() (Ev3, error) {
				s, err := l.Build()
				if err != nil {
					return nil, err
				}
				return s.Evaluate, nil
			}})
	}
	return out
}

// needsValue lists the operators whose result depends on the operand's distance values, not only on its
// inside/outside set.
var needsValue = map[string]bool{"Offset2D": true, "Offset3D": true, "Shell3D": true, "Elongate2D": true, "Elongate3D": true, "ExtrudeRounded3D": true, "Loft3D": true}

// degrade is the reference kind of op(child): an operator cannot fix more than its operand's reference does.
func degrade(kind, child RefKind, root string) RefKind {
	switch child {
	case RefNone:
		return RefNone
	case RefSet:
		if needsValue[root] {
			return RefNone
		}
		if kind == RefValue {
			return RefSet
		}
	}
	return kind
}

// ---------------------------------------------------------------------------------------------
// independent linear algebra

type m4 [4][4]float64

func ident4() m4 { return m4{{1, 0, 0, 0}, {0, 1, 0, 0}, {0, 0, 1, 0}, {0, 0, 0, 1}} }

func (a m4) mul(b m4) m4 {
	var r m4
	for i := 0; i < 4; i++ {
		for j := 0; j < 4; j++ {
			for k := 0; k < 4; k++ {
				r[i][j] += a[i][k] * b[k][j]
			}
		}
	}
	return r
}

func (a m4) apply(p v3.Vec) v3.Vec {
	return v3.Vec{X: a[0][0]*p.X + a[0][1]*p.Y + a[0][2]*p.Z + a[0][3], Y: a[1][0]*p.X + a[1][1]*p.Y + a[1][2]*p.Z + a[1][3], Z: a[2][0]*p.X + a[2][1]*p.Y + a[2][2]*p.Z + a[2][3]}
}

// inverse by Gauss-Jordan elimination with partial pivoting
func (a m4) inverse() m4 {
	var w [4][8]float64
	for i := 0; i < 4; i++ {
		for j := 0; j < 4; j++ {
			w[i][j] = a[i][j]
		}
		w[i][4+i] = 1
	}
	for c := 0; c < 4; c++ {
		p := c
		for r := c + 1; r < 4; r++ {
			if math.Abs(w[r][c]) > math.Abs(w[p][c]) {
				p = r
			}
		}
		w[c], w[p] = w[p], w[c]
		d := w[c][c]
		for j := 0; j < 8; j++ {
			w[c][j] /= d
		}
		for r := 0; r < 4; r++ {
			if r != c {
				f := w[r][c]
				for j := 0; j < 8; j++ {
					w[r][j] -= f * w[c][j]
				}
			}
		}
	}
	var r m4
	for i := 0; i < 4; i++ {
		for j := 0; j < 4; j++ {
			r[i][j] = w[i][4+j]
		}
	}
	return r
}

func trans4(t v3.Vec) m4 {
	m := ident4()
	m[0][3], m[1][3], m[2][3] = t.X, t.Y, t.Z
	return m
}

// rodrigues: right-handed rotation by angle a about axis
func rot4(axis v3.Vec, a float64) m4 {
	l := math.Sqrt(axis.X*axis.X + axis.Y*axis.Y + axis.Z*axis.Z)
	k := [3]float64{axis.X / l, axis.Y / l, axis.Z / l}
	K := [3][3]float64{{0, -k[2], k[1]}, {k[2], 0, -k[0]}, {-k[1], k[0], 0}}
	m := ident4()
	s, c := math.Sin(a), math.Cos(a)
	for i := 0; i < 3; i++ {
		for j := 0; j < 3; j++ {
			kk := 0.0
			for t := 0; t < 3; t++ {
				kk += K[i][t] * K[t][j]
			}
			id := 0.0
			if i == j {
				id = 1
			}
			m[i][j] = id + s*K[i][j] + (1-c)*kk
		}
	}
	return m
}

func diag4(x, y, z float64) m4 {
	m := ident4()
	m[0][0], m[1][1], m[2][2] = x, y, z
	return m
}

// XForm3 is a transformation menu entry: the library matrix and the independent one.
type XForm3 struct {
	Name  string
	Lib   func() sdf.M44
	Ref   m4
	Rigid bool
}

// rtv is the minimal rotation taking direction a to direction b (independent of sdf.RotateToVector).
func rtv(a, b v3.Vec) m4 {
	c := v3.Vec{X: a.Y*b.Z - a.Z*b.Y, Y: a.Z*b.X - a.X*b.Z, Z: a.X*b.Y - a.Y*b.X}
	ang := math.Atan2(math.Sqrt(c.X*c.X+c.Y*c.Y+c.Z*c.Z), a.X*b.X+a.Y*b.Y+a.Z*b.Z)
	return rot4(c, ang)
}

func XForms3() []XForm3 {
	d := sdf.DtoR
	ax := v3.Vec{X: 1, Y: 1, Z: 1}
	ax2 := v3.Vec{X: 1, Y: 2, Z: 3}
	ax3 := v3.Vec{X: 0, Y: 1, Z: 1}
	swap := ident4()
	swap[0][0], swap[0][1], swap[1][0], swap[1][1] = 0, 1, 1, 0
	return []XForm3{
		{"Translate(3,-2,1)", func() sdf.M44 { return sdf.Translate3d(v3.Vec{X: 3, Y: -2, Z: 1}) }, trans4(v3.Vec{X: 3, Y: -2, Z: 1}), true},
		{"Translate(-6,-5,-7)", func() sdf.M44 { return sdf.Translate3d(v3.Vec{X: -6, Y: -5, Z: -7}) }, trans4(v3.Vec{X: -6, Y: -5, Z: -7}), true},
		{"RotateX(30)", func() sdf.M44 { return sdf.RotateX(d(30)) }, rot4(v3.Vec{X: 1}, d(30)), true},
		{"RotateX(90)", func() sdf.M44 { return sdf.RotateX(d(90)) }, rot4(v3.Vec{X: 1}, d(90)), true},
		{"RotateY(137)", func() sdf.M44 { return sdf.RotateY(d(137)) }, rot4(v3.Vec{Y: 1}, d(137)), true},
		{"RotateZ(30)", func() sdf.M44 { return sdf.RotateZ(d(30)) }, rot4(v3.Vec{Z: 1}, d(30)), true},
		{"RotateZ(-90)", func() sdf.M44 { return sdf.RotateZ(d(-90)) }, rot4(v3.Vec{Z: 1}, d(-90)), true},
		{"Rotate3d((1,1,1),137)", func() sdf.M44 { return sdf.Rotate3d(ax, d(137)) }, rot4(ax, d(137)), true},
		{"Rotate3d((1,2,3),30)", func() sdf.M44 { return sdf.Rotate3d(ax2, d(30)) }, rot4(ax2, d(30)), true},
		{"Rotate3d((0,1,1),90)", func() sdf.M44 { return sdf.Rotate3d(ax3, d(90)) }, rot4(ax3, d(90)), true},
		{"MirrorXY", sdf.MirrorXY, diag4(1, 1, -1), true},
		{"MirrorXZ", sdf.MirrorXZ, diag4(1, -1, 1), true},
		{"MirrorYZ", sdf.MirrorYZ, diag4(-1, 1, 1), true},
		{"MirrorXeqY", sdf.MirrorXeqY, swap, true},
		{"RotateToVector((0,0,1),(1,2,2))", func() sdf.M44 { return sdf.RotateToVector(v3.Vec{Z: 1}, v3.Vec{X: 1, Y: 2, Z: 2}) }, rtv(v3.Vec{Z: 1}, v3.Vec{X: 1, Y: 2, Z: 2}), true},
		{"RotateToVector((1,0,0),(0,-1,0))", func() sdf.M44 { return sdf.RotateToVector(v3.Vec{X: 1}, v3.Vec{Y: -1}) }, rtv(v3.Vec{X: 1}, v3.Vec{Y: -1}), true},
		{"Translate(2,1,-3)*RotateX(90)", func() sdf.M44 { return sdf.Translate3d(v3.Vec{X: 2, Y: 1, Z: -3}).Mul(sdf.RotateX(d(90))) }, trans4(v3.Vec{X: 2, Y: 1, Z: -3}).mul(rot4(v3.Vec{X: 1}, d(90))), true},
		{"RotateY(30)*Translate(0,5,0)", func() sdf.M44 { return sdf.RotateY(d(30)).Mul(sdf.Translate3d(v3.Vec{Y: 5})) }, rot4(v3.Vec{Y: 1}, d(30)).mul(trans4(v3.Vec{Y: 5})), true},
		{"Scale(2,1,0.5)", func() sdf.M44 { return sdf.Scale3d(v3.Vec{X: 2, Y: 1, Z: 0.5}) }, diag4(2, 1, 0.5), false},
	}
}

// 2D transforms as 3x3 affine
type m3 [3][3]float64

func (a m3) mul(b m3) m3 {
	var r m3
	for i := 0; i < 3; i++ {
		for j := 0; j < 3; j++ {
			for k := 0; k < 3; k++ {
				r[i][j] += a[i][k] * b[k][j]
			}
		}
	}
	return r
}
func (a m3) apply(p v2.Vec) v2.Vec {
	return v2.Vec{X: a[0][0]*p.X + a[0][1]*p.Y + a[0][2], Y: a[1][0]*p.X + a[1][1]*p.Y + a[1][2]}
}
func (a m3) inverse() m3 {
	// embed in 4x4
	m := ident4()
	m[0][0], m[0][1], m[0][3] = a[0][0], a[0][1], a[0][2]
	m[1][0], m[1][1], m[1][3] = a[1][0], a[1][1], a[1][2]
	i := m.inverse()
	return m3{{i[0][0], i[0][1], i[0][3]}, {i[1][0], i[1][1], i[1][3]}, {0, 0, 1}}
}
func trans3(x, y float64) m3 { return m3{{1, 0, x}, {0, 1, y}, {0, 0, 1}} }
func rot3(a float64) m3 {
	return m3{{math.Cos(a), -math.Sin(a), 0}, {math.Sin(a), math.Cos(a), 0}, {0, 0, 1}}
}

type XForm2 struct {
	Name  string
	Lib   func() sdf.M33
	Ref   m3
	Rigid bool
}

func XForms2() []XForm2 {
	d := sdf.DtoR
	return []XForm2{
		{"Translate(3,-2)", func() sdf.M33 { return sdf.Translate2d(v2.Vec{X: 3, Y: -2}) }, trans3(3, -2), true},
		{"Translate(-6,-5)", func() sdf.M33 { return sdf.Translate2d(v2.Vec{X: -6, Y: -5}) }, trans3(-6, -5), true},
		{"Rotate(30)", func() sdf.M33 { return sdf.Rotate2d(d(30)) }, rot3(d(30)), true},
		{"Rotate(90)", func() sdf.M33 { return sdf.Rotate2d(d(90)) }, rot3(d(90)), true},
		{"Rotate(137)", func() sdf.M33 { return sdf.Rotate2d(d(137)) }, rot3(d(137)), true},
		{"MirrorX", sdf.MirrorX, m3{{1, 0, 0}, {0, -1, 0}, {0, 0, 1}}, true},
		{"MirrorY", sdf.MirrorY, m3{{-1, 0, 0}, {0, 1, 0}, {0, 0, 1}}, true},
		{"Translate(2,1)*Rotate(90)", func() sdf.M33 { return sdf.Translate2d(v2.Vec{X: 2, Y: 1}).Mul(sdf.Rotate2d(d(90))) }, trans3(2, 1).mul(rot3(d(90))), true},
		{"Rotate(30)*Translate(0,5)", func() sdf.M33 { return sdf.Rotate2d(d(30)).Mul(sdf.Translate2d(v2.Vec{Y: 5})) }, rot3(d(30)).mul(trans3(0, 5)), true},
		{"Scale(2,0.5)", func() sdf.M33 { return sdf.Scale2d(v2.Vec{X: 2, Y: 0.5}) }, m3{{2, 0, 0}, {0, 0.5, 0}, {0, 0, 1}}, false},
	}
}

// ---------------------------------------------------------------------------------------------
// blends

// Blend is a blend menu entry for unions (Min) and differences / intersections (Max).
type Blend struct {
	Name string
	Min  func() sdf.MinFunc
	Max  func() sdf.MaxFunc
	K    float64
	Poly bool
}

func Blends() []Blend {
	return []Blend{
		{Name: "plain"},
		{Name: "Poly(0.5)", Min: func() sdf.MinFunc { return sdf.PolyMin(0.5) }, Max: func() sdf.MaxFunc { return sdf.PolyMax(0.5) }, K: 0.5, Poly: true},
	}
}

// ---------------------------------------------------------------------------------------------
// unary 3D -> 3D

type U33 struct {
	Name string
	Root string
	App  func(c N3) N3
}

func wrap3(c N3, name, root string, kind RefKind, exact, lip bool, build func(s sdf.SDF3) (sdf.SDF3, error), ref func(f Ev3, s sdf.SDF3) Ev3) N3 {
	return N3{Name: name + "(" + c.Name + ")", Root: root, Depth: c.Depth + 1, Kind: degrade(kind, c.Kind, root), Exact: exact, Lip: lip, OperandExact: c.Exact,
		Build: func() (sdf.SDF3, error) {
			s, err := c.Build()
			if err != nil {
				return nil, err
			}
			r, err := build(s)
			if err == nil && r == nil {
				err = fmt.Errorf("%s returned nil", root)
			}
			return r, err
		},
		Ref: func() (Ev3, error) {
			f, err := c.Ref()
			if err != nil {
				return nil, err
			}
			s, err := c.Build()
			if err != nil {
				return nil, err
			}
			return ref(f, s), nil
		}}
}

func min3(fs ...Ev3) Ev3 {
	return func(p v3.Vec) float64 {
		d := math.Inf(1)
		for _, f := range fs {
			d = math.Min(d, f(p))
		}
		return d
	}
}

func Unary33() []U33 {
	var out []U33
	for _, x := range XForms3() {
		x := x
		inv := x.Ref.inverse()
		out = append(out, U33{"Transform3D[" + x.Name + "]", "Transform3D", func(c N3) N3 {
			return wrap3(c, "Transform3D["+x.Name+"]", "Transform3D", RefValue, c.Exact && x.Rigid, c.Lip && x.Rigid,
				func(s sdf.SDF3) (sdf.SDF3, error) { return sdf.Transform3D(s, x.Lib()), nil },
				func(f Ev3, _ sdf.SDF3) Ev3 { return func(p v3.Vec) float64 { return f(inv.apply(p)) } })
		}})
	}
	for _, k := range []float64{0.5, 2} {
		k := k
		out = append(out, U33{fmt.Sprintf("ScaleUniform3D[%g]", k), "ScaleUniform3D", func(c N3) N3 {
			return wrap3(c, fmt.Sprintf("ScaleUniform3D[%g]", k), "ScaleUniform3D", RefValue, c.Exact, c.Lip,
				func(s sdf.SDF3) (sdf.SDF3, error) { return sdf.ScaleUniform3D(s, k), nil },
				func(f Ev3, _ sdf.SDF3) Ev3 {
					return func(p v3.Vec) float64 { return k * f(v3.Vec{X: p.X / k, Y: p.Y / k, Z: p.Z / k}) }
				})
		}})
	}
	for _, o := range []float64{0.125, -0.0625} {
		o := o
		out = append(out, U33{fmt.Sprintf("Offset3D[%g]", o), "Offset3D", func(c N3) N3 {
			return wrap3(c, fmt.Sprintf("Offset3D[%g]", o), "Offset3D", RefValue, false, c.Lip,
				func(s sdf.SDF3) (sdf.SDF3, error) { return sdf.Offset3D(s, o), nil },
				func(f Ev3, _ sdf.SDF3) Ev3 { return func(p v3.Vec) float64 { return f(p) - o } })
		}})
	}
	out = append(out, U33{"Shell3D[0.25]", "Shell3D", func(c N3) N3 {
		return wrap3(c, "Shell3D[0.25]", "Shell3D", RefValue, false, c.Lip,
			func(s sdf.SDF3) (sdf.SDF3, error) { return sdf.Shell3D(s, 0.25) },
			func(f Ev3, _ sdf.SDF3) Ev3 { return func(p v3.Vec) float64 { return math.Abs(f(p)) - 0.125 } })
	}})
	for _, h := range []v3.Vec{{X: 2}, {X: 1, Y: 0.5, Z: 3}, {Y: -2}} {
		h := h
		out = append(out, U33{fmt.Sprintf("Elongate3D[%v]", h), "Elongate3D", func(c N3) N3 {
			return wrap3(c, fmt.Sprintf("Elongate3D[%v]", h), "Elongate3D", RefValue, false, c.Lip,
				func(s sdf.SDF3) (sdf.SDF3, error) { return sdf.Elongate3D(s, h), nil },
				func(f Ev3, _ sdf.SDF3) Ev3 {
					cl := func(x, a float64) float64 { return x - math.Max(-a/2, math.Min(a/2, x)) }
					return func(p v3.Vec) float64 {
						return f(v3.Vec{X: cl(p.X, math.Abs(h.X)), Y: cl(p.Y, math.Abs(h.Y)), Z: cl(p.Z, math.Abs(h.Z))})
					}
				})
		}})
	}
	type arr struct {
		n    v3i.Vec
		step v3.Vec
	}
	for _, a := range []arr{{v3i.Vec{X: 2, Y: 1, Z: 1}, v3.Vec{X: 3}}, {v3i.Vec{X: 2, Y: 2, Z: 1}, v3.Vec{X: -3, Y: 2.5}}, {v3i.Vec{X: 1, Y: 1, Z: 3}, v3.Vec{Z: -4}}, {v3i.Vec{X: 3, Y: 1, Z: 2}, v3.Vec{X: 1.5, Z: 2}}} {
		a := a
		name := fmt.Sprintf("Array3D[%dx%dx%d step %v]", a.n.X, a.n.Y, a.n.Z, a.step)
		out = append(out, U33{name, "Array3D", func(c N3) N3 {
			return wrap3(c, name, "Array3D", RefValue, false, c.Lip,
				func(s sdf.SDF3) (sdf.SDF3, error) { return sdf.Array3D(s, a.n, a.step), nil },
				func(f Ev3, _ sdf.SDF3) Ev3 {
					return func(p v3.Vec) float64 {
						d := math.Inf(1)
						for i := 0; i < a.n.X; i++ {
							for j := 0; j < a.n.Y; j++ {
								for k := 0; k < a.n.Z; k++ {
									d = math.Min(d, f(v3.Vec{X: p.X - float64(i)*a.step.X, Y: p.Y - float64(j)*a.step.Y, Z: p.Z - float64(k)*a.step.Z}))
								}
							}
						}
						return d
					}
				})
		}})
	}
	type ru struct {
		n   int
		deg float64
	}
	for _, r := range []ru{{4, 90}, {3, 30}, {5, 72}, {2, 137}} {
		r := r
		name := fmt.Sprintf("RotateUnion3D[%d x %g deg]", r.n, r.deg)
		out = append(out, U33{name, "RotateUnion3D", func(c N3) N3 {
			return wrap3(c, name, "RotateUnion3D", RefValue, false, c.Lip,
				func(s sdf.SDF3) (sdf.SDF3, error) {
					return sdf.RotateUnion3D(s, r.n, sdf.RotateZ(sdf.DtoR(r.deg))), nil
				},
				func(f Ev3, _ sdf.SDF3) Ev3 {
					return func(p v3.Vec) float64 {
						d := math.Inf(1)
						for i := 0; i < r.n; i++ {
							d = math.Min(d, f(rot4(v3.Vec{Z: 1}, -float64(i)*sdf.DtoR(r.deg)).apply(p)))
						}
						return d
					}
				})
		}})
	}
	type ct struct{ a, n v3.Vec }
	for _, k := range []ct{{v3.Vec{}, v3.Vec{Z: 1}}, {v3.Vec{X: 0.5, Y: 0.25, Z: -0.25}, v3.Vec{X: 1, Y: 1}}, {v3.Vec{X: 0.25}, v3.Vec{X: -2, Y: 1, Z: 3}}, {v3.Vec{Z: 0.5}, v3.Vec{Z: -0.5}}} {
		k := k
		name := fmt.Sprintf("Cut3D[a=%v n=%v]", k.a, k.n)
		out = append(out, U33{name, "Cut3D", func(c N3) N3 {
			return wrap3(c, name, "Cut3D", RefValue, false, c.Lip,
				func(s sdf.SDF3) (sdf.SDF3, error) { return sdf.Cut3D(s, k.a, k.n), nil },
				func(f Ev3, _ sdf.SDF3) Ev3 {
					l := math.Sqrt(k.n.X*k.n.X + k.n.Y*k.n.Y + k.n.Z*k.n.Z)
					return func(p v3.Vec) float64 {
						// the side of the normal remains: removed where (p-a).n < 0
						h := -((p.X-k.a.X)*k.n.X + (p.Y-k.a.Y)*k.n.Y + (p.Z-k.a.Z)*k.n.Z) / l
						return math.Max(f(p), h)
					}
				})
		}})
	}
	out = append(out, U33{"Multi3D[3 positions]", "Multi3D", func(c N3) N3 {
		pos := v3.VecSet{{X: 0, Y: 0, Z: 0}, {X: 4, Y: -1, Z: 2}, {X: -3, Y: -3, Z: -3}}
		return wrap3(c, "Multi3D[3 positions]", "Multi3D", RefValue, false, c.Lip,
			func(s sdf.SDF3) (sdf.SDF3, error) { return sdf.Multi3D(s, pos), nil },
			func(f Ev3, _ sdf.SDF3) Ev3 {
				return func(p v3.Vec) float64 {
					d := math.Inf(1)
					for _, q := range pos {
						d = math.Min(d, f(v3.Vec{X: p.X - q.X, Y: p.Y - q.Y, Z: p.Z - q.Z}))
					}
					return d
				}
			})
	}})
	out = append(out, U33{"LineOf3D[x.xx]", "LineOf3D", func(c N3) N3 {
		p0, p1 := v3.Vec{X: -2, Y: 1}, v3.Vec{X: 6, Y: 1, Z: 4}
		return wrap3(c, "LineOf3D[(-2,1,0)-(6,1,4) \"x.xx\"]", "LineOf3D", RefValue, false, c.Lip,
			func(s sdf.SDF3) (sdf.SDF3, error) { return sdf.LineOf3D(s, p0, p1, "x.xx"), nil },
			func(f Ev3, _ sdf.SDF3) Ev3 {
				return func(p v3.Vec) float64 {
					d := math.Inf(1)
					for _, i := range []float64{0, 2, 3} {
						q := v3.Vec{X: p0.X + (p1.X-p0.X)*i/4, Y: p0.Y + (p1.Y-p0.Y)*i/4, Z: p0.Z + (p1.Z-p0.Z)*i/4}
						d = math.Min(d, f(v3.Vec{X: p.X - q.X, Y: p.Y - q.Y, Z: p.Z - q.Z}))
					}
					return d
				}
			})
	}})
	out = append(out, U33{"Orient3D[z to 3 directions]", "Orient3D", func(c N3) N3 {
		base := v3.Vec{Z: 1}
		dirs := v3.VecSet{{X: 1}, {X: 1, Y: 2, Z: 2}, {X: -1, Y: -1, Z: 0.5}}
		var inv []m4
		for _, d := range dirs {
			inv = append(inv, rtv(base, d).inverse())
		}
		return wrap3(c, "Orient3D[z to (1,0,0),(1,2,2),(-1,-1,0.5)]", "Orient3D", RefValue, false, c.Lip,
			func(s sdf.SDF3) (sdf.SDF3, error) { return sdf.Orient3D(s, base, dirs), nil },
			func(f Ev3, _ sdf.SDF3) Ev3 {
				return func(p v3.Vec) float64 {
					d := math.Inf(1)
					for _, m := range inv {
						d = math.Min(d, f(m.apply(p)))
					}
					return d
				}
			})
	}})
	return out
}

// RotateCopy3 is kept separate: its reference (union of n rotated copies) is only valid for an operand
// that lies inside one sector, and it is 1-Lipschitz only for operands mirror-symmetric about the sector axis.
func RotateCopy3(c N3, n int, inSector, symmetric bool) N3 {
	name := fmt.Sprintf("RotateCopy3D[%d]", n)
	kind := RefNone
	if inSector {
		kind = RefSet // folding into one sector reproduces the union of the copies as a set, not its distance values
	}
	return wrap3(c, name, "RotateCopy3D", kind, false, c.Lip && symmetric,
		func(s sdf.SDF3) (sdf.SDF3, error) { return sdf.RotateCopy3D(s, n), nil },
		func(f Ev3, _ sdf.SDF3) Ev3 {
			return func(p v3.Vec) float64 {
				d := math.Inf(1)
				for i := 0; i < n; i++ {
					d = math.Min(d, f(rot4(v3.Vec{Z: 1}, -2*math.Pi*float64(i)/float64(n)).apply(p)))
				}
				return d
			}
		})
}

// ---------------------------------------------------------------------------------------------
// unary 2D -> 2D

type U22 struct {
	Name string
	Root string
	App  func(c N2) N2
}

func wrap2(c N2, name, root string, kind RefKind, exact, lip bool, build func(s sdf.SDF2) (sdf.SDF2, error), ref func(f Ev2, s sdf.SDF2) Ev2) N2 {
	return N2{Name: name + "(" + c.Name + ")", Root: root, Depth: c.Depth + 1, Kind: degrade(kind, c.Kind, root), Exact: exact, Lip: lip, OperandExact: c.Exact,
		Build: func() (sdf.SDF2, error) {
			s, err := c.Build()
			if err != nil {
				return nil, err
			}
			r, err := build(s)
			if err == nil && r == nil {
				err = fmt.Errorf("%s returned nil", root)
			}
			return r, err
		},
		Ref: func() (Ev2, error) {
			f, err := c.Ref()
			if err != nil {
				return nil, err
			}
			s, err := c.Build()
			if err != nil {
				return nil, err
			}
			return ref(f, s), nil
		}}
}

func Unary22() []U22 {
	var out []U22
	for _, x := range XForms2() {
		x := x
		inv := x.Ref.inverse()
		out = append(out, U22{"Transform2D[" + x.Name + "]", "Transform2D", func(c N2) N2 {
			return wrap2(c, "Transform2D["+x.Name+"]", "Transform2D", RefValue, c.Exact && x.Rigid, c.Lip && x.Rigid,
				func(s sdf.SDF2) (sdf.SDF2, error) { return sdf.Transform2D(s, x.Lib()), nil },
				func(f Ev2, _ sdf.SDF2) Ev2 { return func(p v2.Vec) float64 { return f(inv.apply(p)) } })
		}})
	}
	for _, k := range []float64{0.5, 2} {
		k := k
		out = append(out, U22{fmt.Sprintf("ScaleUniform2D[%g]", k), "ScaleUniform2D", func(c N2) N2 {
			return wrap2(c, fmt.Sprintf("ScaleUniform2D[%g]", k), "ScaleUniform2D", RefValue, c.Exact, c.Lip,
				func(s sdf.SDF2) (sdf.SDF2, error) { return sdf.ScaleUniform2D(s, k), nil },
				func(f Ev2, _ sdf.SDF2) Ev2 {
					return func(p v2.Vec) float64 { return k * f(v2.Vec{X: p.X / k, Y: p.Y / k}) }
				})
		}})
	}
	for _, o := range []float64{0.125, -0.0625} {
		o := o
		out = append(out, U22{fmt.Sprintf("Offset2D[%g]", o), "Offset2D", func(c N2) N2 {
			return wrap2(c, fmt.Sprintf("Offset2D[%g]", o), "Offset2D", RefValue, false, c.Lip,
				func(s sdf.SDF2) (sdf.SDF2, error) { return sdf.Offset2D(s, o), nil },
				func(f Ev2, _ sdf.SDF2) Ev2 { return func(p v2.Vec) float64 { return f(p) - o } })
		}})
	}
	for _, h := range []v2.Vec{{X: 2}, {X: 1, Y: 0.5}, {Y: -2}} {
		h := h
		out = append(out, U22{fmt.Sprintf("Elongate2D[%v]", h), "Elongate2D", func(c N2) N2 {
			return wrap2(c, fmt.Sprintf("Elongate2D[%v]", h), "Elongate2D", RefValue, false, c.Lip,
				func(s sdf.SDF2) (sdf.SDF2, error) { return sdf.Elongate2D(s, h), nil },
				func(f Ev2, _ sdf.SDF2) Ev2 {
					cl := func(x, a float64) float64 { return x - math.Max(-a/2, math.Min(a/2, x)) }
					return func(p v2.Vec) float64 { return f(v2.Vec{X: cl(p.X, math.Abs(h.X)), Y: cl(p.Y, math.Abs(h.Y))}) }
				})
		}})
	}
	type arr struct {
		n    v2i.Vec
		step v2.Vec
	}
	for _, a := range []arr{{v2i.Vec{X: 2, Y: 1}, v2.Vec{X: 3}}, {v2i.Vec{X: 2, Y: 2}, v2.Vec{X: -3, Y: 2.5}}, {v2i.Vec{X: 1, Y: 3}, v2.Vec{Y: -4}}} {
		a := a
		name := fmt.Sprintf("Array2D[%dx%d step %v]", a.n.X, a.n.Y, a.step)
		out = append(out, U22{name, "Array2D", func(c N2) N2 {
			return wrap2(c, name, "Array2D", RefValue, false, c.Lip,
				func(s sdf.SDF2) (sdf.SDF2, error) { return sdf.Array2D(s, a.n, a.step), nil },
				func(f Ev2, _ sdf.SDF2) Ev2 {
					return func(p v2.Vec) float64 {
						d := math.Inf(1)
						for i := 0; i < a.n.X; i++ {
							for j := 0; j < a.n.Y; j++ {
								d = math.Min(d, f(v2.Vec{X: p.X - float64(i)*a.step.X, Y: p.Y - float64(j)*a.step.Y}))
							}
						}
						return d
					}
				})
		}})
	}
	type ru struct {
		n   int
		deg float64
	}
	for _, r := range []ru{{4, 90}, {3, 30}, {2, 137}} {
		r := r
		name := fmt.Sprintf("RotateUnion2D[%d x %g deg]", r.n, r.deg)
		out = append(out, U22{name, "RotateUnion2D", func(c N2) N2 {
			return wrap2(c, name, "RotateUnion2D", RefValue, false, c.Lip,
				func(s sdf.SDF2) (sdf.SDF2, error) {
					return sdf.RotateUnion2D(s, r.n, sdf.Rotate2d(sdf.DtoR(r.deg))), nil
				},
				func(f Ev2, _ sdf.SDF2) Ev2 {
					return func(p v2.Vec) float64 {
						d := math.Inf(1)
						for i := 0; i < r.n; i++ {
							d = math.Min(d, f(rot3(-float64(i)*sdf.DtoR(r.deg)).apply(p)))
						}
						return d
					}
				})
		}})
	}
	type ct struct{ a, v v2.Vec }
	for _, k := range []ct{{v2.Vec{}, v2.Vec{X: 1}}, {v2.Vec{X: 0.5, Y: 0.25}, v2.Vec{X: 1, Y: 1}}, {v2.Vec{X: 0.25}, v2.Vec{X: -2, Y: 1}}} {
		k := k
		name := fmt.Sprintf("Cut2D[a=%v v=%v]", k.a, k.v)
		out = append(out, U22{name, "Cut2D", func(c N2) N2 {
			return wrap2(c, name, "Cut2D", RefValue, false, c.Lip,
				func(s sdf.SDF2) (sdf.SDF2, error) { return sdf.Cut2D(s, k.a, k.v), nil },
				func(f Ev2, _ sdf.SDF2) Ev2 {
					l := math.Hypot(k.v.X, k.v.Y)
					return func(p v2.Vec) float64 {
						// the part to the right of the directed line remains: removed where cross(v, p-a) > 0
						h := (k.v.X*(p.Y-k.a.Y) - k.v.Y*(p.X-k.a.X)) / l
						return math.Max(f(p), h)
					}
				})
		}})
	}
	out = append(out, U22{"Center2D", "Center2D", func(c N2) N2 {
		return wrap2(c, "Center2D", "Center2D", RefValue, c.Exact, c.Lip,
			func(s sdf.SDF2) (sdf.SDF2, error) { return sdf.Center2D(s), nil },
			func(f Ev2, s sdf.SDF2) Ev2 {
				bb := s.BoundingBox()
				cx, cy := (bb.Min.X+bb.Max.X)/2, (bb.Min.Y+bb.Max.Y)/2
				return func(p v2.Vec) float64 { return f(v2.Vec{X: p.X + cx, Y: p.Y + cy}) }
			})
	}})
	out = append(out, U22{"CenterAndScale2D[2]", "CenterAndScale2D", func(c N2) N2 {
		return wrap2(c, "CenterAndScale2D[2]", "CenterAndScale2D", RefValue, c.Exact, c.Lip,
			func(s sdf.SDF2) (sdf.SDF2, error) { return sdf.CenterAndScale2D(s, 2), nil },
			func(f Ev2, s sdf.SDF2) Ev2 {
				bb := s.BoundingBox()
				cx, cy := (bb.Min.X+bb.Max.X)/2, (bb.Min.Y+bb.Max.Y)/2
				return func(p v2.Vec) float64 { return 2 * f(v2.Vec{X: p.X/2 + cx, Y: p.Y/2 + cy}) }
			})
	}})
	out = append(out, U22{"Multi2D[3 positions]", "Multi2D", func(c N2) N2 {
		pos := v2.VecSet{{X: 0, Y: 0}, {X: 4, Y: -1}, {X: -3, Y: -3}}
		return wrap2(c, "Multi2D[3 positions]", "Multi2D", RefValue, false, c.Lip,
			func(s sdf.SDF2) (sdf.SDF2, error) { return sdf.Multi2D(s, pos), nil },
			func(f Ev2, _ sdf.SDF2) Ev2 {
				return func(p v2.Vec) float64 {
					d := math.Inf(1)
					for _, q := range pos {
						d = math.Min(d, f(v2.Vec{X: p.X - q.X, Y: p.Y - q.Y}))
					}
					return d
				}
			})
	}})
	out = append(out, U22{"LineOf2D[xx.x]", "LineOf2D", func(c N2) N2 {
		p0, p1 := v2.Vec{X: -3, Y: 2}, v2.Vec{X: 5, Y: -2}
		return wrap2(c, "LineOf2D[(-3,2)-(5,-2) \"xx.x\"]", "LineOf2D", RefValue, false, c.Lip,
			func(s sdf.SDF2) (sdf.SDF2, error) { return sdf.LineOf2D(s, p0, p1, "xx.x"), nil },
			func(f Ev2, _ sdf.SDF2) Ev2 {
				return func(p v2.Vec) float64 {
					d := math.Inf(1)
					for _, i := range []float64{0, 1, 3} {
						q := v2.Vec{X: p0.X + (p1.X-p0.X)*i/4, Y: p0.Y + (p1.Y-p0.Y)*i/4}
						d = math.Min(d, f(v2.Vec{X: p.X - q.X, Y: p.Y - q.Y}))
					}
					return d
				}
			})
	}})
	out = append(out, U22{"Cache2D", "Cache2D", func(c N2) N2 {
		return wrap2(c, "Cache2D", "Cache2D", RefValue, c.Exact, c.Lip,
			func(s sdf.SDF2) (sdf.SDF2, error) { return sdf.Cache2D(s), nil },
			func(f Ev2, _ sdf.SDF2) Ev2 { return f })
	}})
	return out
}

// RotateCopy2 see RotateCopy3.
func RotateCopy2(c N2, n int, inSector, symmetric bool) N2 {
	kind := RefNone
	if inSector {
		kind = RefSet
	}
	return wrap2(c, fmt.Sprintf("RotateCopy2D[%d]", n), "RotateCopy2D", kind, false, c.Lip && symmetric,
		func(s sdf.SDF2) (sdf.SDF2, error) { return sdf.RotateCopy2D(s, n), nil },
		func(f Ev2, _ sdf.SDF2) Ev2 {
			return func(p v2.Vec) float64 {
				d := math.Inf(1)
				for i := 0; i < n; i++ {
					d = math.Min(d, f(rot3(-2*math.Pi*float64(i)/float64(n)).apply(p)))
				}
				return d
			}
		})
}
