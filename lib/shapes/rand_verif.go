//go:build verif

package shapes

import "github.com/deadsy/sdfx/sdf"

// constSrc answers every request of the library's private random source with the same value, so that
// Bezier sampling is deterministic and safe to run from many goroutines.
type constSrc struct{}

func (constSrc) Int63() int64 { return 1 << 51 } // Float64() == 0.25
func (constSrc) Seed(int64)   {}

func init() { sdf.VerifSetRand(constSrc{}) }
