// Package shapes is the shared shape menu of the tree-based checks (C01, C02, C03, C10): leaf shapes
// (every primitive of sdf and every part of obj with documented-valid parameter sets) and the
// combinator menus with an independent reference interpreter.
package shapes

import (
	"github.com/deadsy/sdfx/sdf"
)

// Leaf2 is one 2D leaf shape of the menu.
type Leaf2 struct {
	Name  string // unique, human readable, replayable: constructor + parameters, e.g. "Box2D(2x1,r=0.25)@(-5,-5)"
	Ctor  string // exported constructor at the root of the expression, e.g. "Box2D", "obj.Hex2D"
	Build func() (sdf.SDF2, error)
	Exact bool // C03 claims Evaluate is the exact Euclidean signed distance (circle, (rounded) box, line, polygon and rigid transforms of them)
	Lip   bool // the shape is 1-Lipschitz (never overestimates distance)
}

// Leaf3 is one 3D leaf shape of the menu.
type Leaf3 struct {
	Name  string
	Ctor  string
	Build func() (sdf.SDF3, error)
	Exact bool
	Lip   bool
}
