package shapes

import (
	"errors"
	"fmt"
	"strconv"
	"strings"

	"github.com/deadsy/sdfx/sdf"
	v2 "github.com/deadsy/sdfx/vec/v2"
	v3 "github.com/deadsy/sdfx/vec/v3"
)

// FontPath is the font used by the Text2D leaves (loaded with sdf.LoadFont on every Build).
const FontPath = "/repo/files/cmr10.ttf"

// StlPath is the (small, 366 triangle) STL file used by the obj.ImportSTL leaf.
const StlPath = "/repo/files/monkey.stl"

// errNilShape is returned by Build if a constructor returned (nil, nil).
var errNilShape = errors.New("shapes: constructor returned a nil shape without an error")

// g formats a float for a leaf name (shortest representation that round-trips).
func g(x float64) string {
	return strconv.FormatFloat(x, 'g', -1, 64)
}

// gs formats a list of floats "a,b,c".
func gs(x ...float64) string {
	s := make([]string, len(x))
	for i := range x {
		s[i] = g(x[i])
	}
	return strings.Join(s, ",")
}

// deg converts degrees to radians (the same expression as sdf.DtoR).
func deg(d float64) float64 {
	return sdf.DtoR(d)
}

// mk2 makes a 2D leaf. A (nil, nil) constructor result is turned into an error.
func mk2(name, ctor string, exact, lip bool, build func() (sdf.SDF2, error)) Leaf2 {
	return Leaf2{
		Name:  name,
		Ctor:  ctor,
		Exact: exact,
		Lip:   lip,
		Build: func() (sdf.SDF2, error) {
			s, err := build()
			if err != nil {
				return nil, err
			}
			if s == nil {
				return nil, errNilShape
			}
			return s, nil
		},
	}
}

// mk3 makes a 3D leaf. A (nil, nil) constructor result is turned into an error.
func mk3(name, ctor string, exact, lip bool, build func() (sdf.SDF3, error)) Leaf3 {
	return Leaf3{
		Name:  name,
		Ctor:  ctor,
		Exact: exact,
		Lip:   lip,
		Build: func() (sdf.SDF3, error) {
			s, err := build()
			if err != nil {
				return nil, err
			}
			if s == nil {
				return nil, errNilShape
			}
			return s, nil
		},
	}
}

// ok2 adapts constructors without an error result.
func ok2(s sdf.SDF2) (sdf.SDF2, error) { return s, nil }

// ok3 adapts constructors without an error result.
func ok3(s sdf.SDF3) (sdf.SDF3, error) { return s, nil }

// at2 returns the positioned variant of a leaf: the same shape translated by v
// (Ctor, Exact and Lip are those of the primitive; the position goes into the Name).
func at2(l Leaf2, v v2.Vec) Leaf2 {
	build := l.Build
	return Leaf2{
		Name:  fmt.Sprintf("%s@(%s)", l.Name, gs(v.X, v.Y)),
		Ctor:  l.Ctor,
		Exact: l.Exact,
		Lip:   l.Lip,
		Build: func() (sdf.SDF2, error) {
			s, err := build()
			if err != nil {
				return nil, err
			}
			return sdf.Transform2D(s, sdf.Translate2d(v)), nil
		},
	}
}

// at3 returns the positioned variant of a leaf: the same shape translated by v.
func at3(l Leaf3, v v3.Vec) Leaf3 {
	build := l.Build
	return Leaf3{
		Name:  fmt.Sprintf("%s@(%s)", l.Name, gs(v.X, v.Y, v.Z)),
		Ctor:  l.Ctor,
		Exact: l.Exact,
		Lip:   l.Lip,
		Build: func() (sdf.SDF3, error) {
			s, err := build()
			if err != nil {
				return nil, err
			}
			return sdf.Transform3D(s, sdf.Translate3d(v)), nil
		},
	}
}

// positioned2 appends the translated copy of every leaf of ls whose name is a key of pos.
// It panics if a key does not name a leaf (a stale table is a programming error).
func positioned2(ls []Leaf2, pos map[string]v2.Vec) []Leaf2 {
	var out []Leaf2
	seen := map[string]bool{}
	for _, l := range ls {
		if v, ok := pos[l.Name]; ok {
			out = append(out, at2(l, v))
			seen[l.Name] = true
		}
	}
	for k := range pos {
		if !seen[k] {
			panic("shapes: positioned 2D leaf not in the menu: " + k)
		}
	}
	return out
}

// positioned3 appends the translated copy of every leaf of ls whose name is a key of pos.
func positioned3(ls []Leaf3, pos map[string]v3.Vec) []Leaf3 {
	var out []Leaf3
	seen := map[string]bool{}
	for _, l := range ls {
		if v, ok := pos[l.Name]; ok {
			out = append(out, at3(l, v))
			seen[l.Name] = true
		}
	}
	for k := range pos {
		if !seen[k] {
			panic("shapes: positioned 3D leaf not in the menu: " + k)
		}
	}
	return out
}

//-----------------------------------------------------------------------------
// shared geometry

// polyTriangle is a scalene triangle (counter clockwise).
func polyTriangle() []v2.Vec {
	return pts(0, 0, 4, 0, 1, 3)
}

// polyTriangleCW is the same triangle, clockwise.
func polyTriangleCW() []v2.Vec {
	return pts(0, 0, 1, 3, 4, 0)
}

// polyL is a concave L-shape.
func polyL() []v2.Vec {
	return pts(0, 0, 4, 0, 4, 1, 1, 1, 1, 3, 0, 3)
}

// scalePts multiplies every coordinate by k.
func scalePts(p []v2.Vec, k float64) []v2.Vec {
	for i := range p {
		p[i].X *= k
		p[i].Y *= k
	}
	return p
}

// polyRectCollinear is a 4x2 rectangle with extra collinear vertices on its sides.
func polyRectCollinear() []v2.Vec {
	return pts(0, 0, 1, 0, 2, 0, 4, 0, 4, 1, 4, 2, 2, 2, 0, 2, 0, 1)
}

// squareSegmentsShuffled is the boundary of the square [-1,1]^2 as counter clockwise
// line segments, listed out of order.
func squareSegmentsShuffled() []*sdf.Line2 {
	return []*sdf.Line2{
		{xy(1, 1), xy(-1, 1)},
		{xy(-1, -1), xy(1, -1)},
		{xy(-1, 1), xy(-1, -1)},
		{xy(1, -1), xy(1, 1)},
	}
}

// tetraMesh is a closed tetrahedron with outward facing normals.
func tetraMesh() []*sdf.Triangle3 {
	a := xyz(0, 0, 0)
	b := xyz(2, 0, 0)
	c := xyz(0, 2, 0)
	d := xyz(0, 0, 2)
	return []*sdf.Triangle3{
		{a, c, b}, // z = 0, normal -z
		{a, b, d}, // y = 0, normal -y
		{a, d, c}, // x = 0, normal -x
		{b, c, d}, // slanted face, normal (1,1,1)
	}
}

// cubeMesh is the closed surface of the cube [-h,h]^3 (12 triangles, outward facing normals).
func cubeMesh(h float64) []*sdf.Triangle3 {
	p := func(i int) v3.Vec {
		v := xyz(-h, -h, -h)
		if i&1 != 0 {
			v.X = h
		}
		if i&2 != 0 {
			v.Y = h
		}
		if i&4 != 0 {
			v.Z = h
		}
		return v
	}
	// quads with counter clockwise vertex order seen from outside
	quads := [6][4]int{
		{0, 2, 3, 1}, // z = -h
		{4, 5, 7, 6}, // z = +h
		{0, 1, 5, 4}, // y = -h
		{2, 6, 7, 3}, // y = +h
		{0, 4, 6, 2}, // x = -h
		{1, 3, 7, 5}, // x = +h
	}
	var m []*sdf.Triangle3
	for _, q := range quads {
		m = append(m, &sdf.Triangle3{p(q[0]), p(q[1]), p(q[2])})
		m = append(m, &sdf.Triangle3{p(q[0]), p(q[2]), p(q[3])})
	}
	return m
}

//-----------------------------------------------------------------------------
// keyed vector constructors (go vet rejects unkeyed literals of imported struct types)

// xy returns the 2D vector (x, y).
func xy(x, y float64) v2.Vec {
	return v2.Vec{X: x, Y: y}
}

// xyz returns the 3D vector (x, y, z).
func xyz(x, y, z float64) v3.Vec {
	return v3.Vec{X: x, Y: y, Z: z}
}

// pts returns the 2D points (c[0],c[1]), (c[2],c[3]), ...
func pts(c ...float64) []v2.Vec {
	if len(c)%2 != 0 {
		panic("shapes: pts needs an even number of coordinates")
	}
	v := make([]v2.Vec, len(c)/2)
	for i := range v {
		v[i] = xy(c[2*i], c[2*i+1])
	}
	return v
}
