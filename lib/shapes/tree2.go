package shapes

import (
	"fmt"
	"math"

	"github.com/deadsy/sdfx/sdf"
	v2 "github.com/deadsy/sdfx/vec/v2"
	v3 "github.com/deadsy/sdfx/vec/v3"
)

// U23 is a 2D -> 3D constructor menu entry.
type U23 struct {
	Name string
	Root string
	App  func(c N2) N3
	// NeedsRightHalf: the profile must lie on x >= 0 (revolutions)
	NeedsRightHalf bool
}

func lift(c N2, name, root string, kind RefKind, exact, lip bool, build func(s sdf.SDF2) (sdf.SDF3, error), ref func(f Ev2) Ev3) N3 {
	return N3{Name: name + "(" + c.Name + ")", Root: root, Depth: c.Depth + 1, Kind: degrade(kind, c.Kind, root), Exact: exact, Lip: lip, OperandExact: c.Exact,
		Build: func() (sdf.SDF3, error) {
			s, err := c.Build()
			if err != nil {
				return nil, err
			}
			r, err := build(s)
			if err == nil && r == nil {
				err = fmt.Errorf("%s returned nil", root)
			}
			return r, err
		},
		Ref: func() (Ev3, error) {
			f, err := c.Ref()
			if err != nil {
				return nil, err
			}
			return ref(f), nil
		}}
}

// roundedSlab is the standard distance to "profile x [-hh,hh]" dilated by r, for an exact profile field a.
func roundedSlab(a, z, hh, r float64) float64 {
	b := math.Abs(z) - hh
	return math.Hypot(math.Max(a, 0), math.Max(b, 0)) + math.Min(math.Max(a, b), 0) - r
}

func sawtooth(x, period float64) float64 {
	t := (x + period/2) / period
	return period*(t-math.Floor(t)) - period/2
}

func Unary23() []U23 {
	var out []U23
	for _, h := range []float64{1, 4} {
		h := h
		out = append(out, U23{Name: fmt.Sprintf("Extrude3D[%g]", h), Root: "Extrude3D", App: func(c N2) N3 {
			return lift(c, fmt.Sprintf("Extrude3D[%g]", h), "Extrude3D", RefSet, false, c.Lip,
				func(s sdf.SDF2) (sdf.SDF3, error) { return sdf.Extrude3D(s, h), nil },
				func(f Ev2) Ev3 {
					return func(p v3.Vec) float64 { return math.Max(f(v2.Vec{X: p.X, Y: p.Y}), math.Abs(p.Z)-h/2) }
				})
		}})
	}
	type tw struct{ h, twist float64 }
	for _, t := range []tw{{2, sdf.DtoR(90)}, {3, sdf.DtoR(-120)}, {1, sdf.DtoR(360)}} {
		t := t
		name := fmt.Sprintf("TwistExtrude3D[h=%g twist=%gdeg]", t.h, sdf.RtoD(t.twist))
		out = append(out, U23{Name: name, Root: "TwistExtrude3D", App: func(c N2) N3 {
			return lift(c, name, "TwistExtrude3D", RefSet, false, false,
				func(s sdf.SDF2) (sdf.SDF3, error) { return sdf.TwistExtrude3D(s, t.h, t.twist), nil },
				func(f Ev2) Ev3 {
					return func(p v3.Vec) float64 {
						a := p.Z * t.twist / t.h // the query point is rotated by +a: the section at height z is the profile rotated by -a
						q := rot3(a).apply(v2.Vec{X: p.X, Y: p.Y})
						return math.Max(f(q), math.Abs(p.Z)-t.h/2)
					}
				})
		}})
	}
	type sc struct {
		h     float64
		scale v2.Vec
	}
	for _, s0 := range []sc{{2, v2.Vec{X: 0.5, Y: 0.5}}, {3, v2.Vec{X: 2, Y: 1.5}}, {2, v2.Vec{X: 0.5, Y: 1.5}}} {
		s0 := s0
		name := fmt.Sprintf("ScaleExtrude3D[h=%g scale=%v]", s0.h, s0.scale)
		fac := func(z float64) v2.Vec {
			u := z/s0.h + 0.5 // 0 at the bottom, 1 at the top
			return v2.Vec{X: 1 + (1/s0.scale.X-1)*u, Y: 1 + (1/s0.scale.Y-1)*u}
		}
		out = append(out, U23{Name: name, Root: "ScaleExtrude3D", App: func(c N2) N3 {
			return lift(c, name, "ScaleExtrude3D", RefSet, false, false,
				func(s sdf.SDF2) (sdf.SDF3, error) { return sdf.ScaleExtrude3D(s, s0.h, s0.scale), nil },
				func(f Ev2) Ev3 {
					return func(p v3.Vec) float64 {
						k := fac(p.Z)
						return math.Max(f(v2.Vec{X: p.X * k.X, Y: p.Y * k.Y}), math.Abs(p.Z)-s0.h/2)
					}
				})
		}})
		tname := fmt.Sprintf("ScaleTwistExtrude3D[h=%g twist=120deg scale=%v]", s0.h, s0.scale)
		out = append(out, U23{Name: tname, Root: "ScaleTwistExtrude3D", App: func(c N2) N3 {
			return lift(c, tname, "ScaleTwistExtrude3D", RefSet, false, false,
				func(s sdf.SDF2) (sdf.SDF3, error) {
					return sdf.ScaleTwistExtrude3D(s, s0.h, sdf.DtoR(120), s0.scale), nil
				},
				func(f Ev2) Ev3 {
					return func(p v3.Vec) float64 {
						k := fac(p.Z)
						q := rot3(p.Z * sdf.DtoR(120) / s0.h).apply(v2.Vec{X: p.X * k.X, Y: p.Y * k.Y}) // scale, then twist
						return math.Max(f(q), math.Abs(p.Z)-s0.h/2)
					}
				})
		}})
	}
	type er struct{ h, r float64 }
	for _, e := range []er{{2, 0.25}, {1, 0.5}} {
		e := e
		name := fmt.Sprintf("ExtrudeRounded3D[h=%g round=%g]", e.h, e.r)
		out = append(out, U23{Name: name, Root: "ExtrudeRounded3D", App: func(c N2) N3 {
			return lift(c, name, "ExtrudeRounded3D", RefValue, false, c.Lip,
				func(s sdf.SDF2) (sdf.SDF3, error) { return sdf.ExtrudeRounded3D(s, e.h, e.r) },
				func(f Ev2) Ev3 {
					return func(p v3.Vec) float64 { return roundedSlab(f(v2.Vec{X: p.X, Y: p.Y}), p.Z, e.h/2-e.r, e.r) }
				})
		}})
	}
	out = append(out, U23{Name: "Revolve3D", Root: "Revolve3D", NeedsRightHalf: true, App: func(c N2) N3 {
		return lift(c, "Revolve3D", "Revolve3D", RefValue, c.Exact, c.Lip,
			func(s sdf.SDF2) (sdf.SDF3, error) { return sdf.Revolve3D(s) },
			func(f Ev2) Ev3 { return func(p v3.Vec) float64 { return f(v2.Vec{X: math.Hypot(p.X, p.Y), Y: p.Z}) } })
	}})
	for _, deg := range []float64{60, 90, 180, 270, 330, 360, 420, 720} { // angles of a full turn and more are taken modulo 360
		deg := deg
		name := fmt.Sprintf("RevolveTheta3D[%gdeg]", deg)
		out = append(out, U23{Name: name, Root: "RevolveTheta3D", NeedsRightHalf: true, App: func(c N2) N3 {
			return lift(c, name, "RevolveTheta3D", RefSet, false, c.Lip,
				func(s sdf.SDF2) (sdf.SDF3, error) { return sdf.RevolveTheta3D(s, sdf.DtoR(deg)) },
				func(f Ev2) Ev3 {
					th := sdf.DtoR(math.Mod(deg, 360))
					if th == 0 { // a whole number of turns: the full solid of revolution
						return func(p v3.Vec) float64 {
							if math.Hypot(p.X, p.Y) < 1e-9 {
								return math.NaN()
							}
							return f(v2.Vec{X: math.Hypot(p.X, p.Y), Y: p.Z})
						}
					}
					return func(p v3.Vec) float64 {
						a := math.Atan2(p.Y, p.X)
						if a < 0 {
							a += 2 * math.Pi
						}
						// wedge 0 <= angle <= theta; points within 1e-9 of its planes are undecided (NaN)
						r := math.Hypot(p.X, p.Y)
						if r*math.Min(math.Abs(math.Sin(a)), math.Abs(math.Sin(a-th))) < 1e-9 || r < 1e-9 {
							return math.NaN()
						}
						if a < th {
							return f(v2.Vec{X: r, Y: p.Z})
						}
						return math.Inf(1)
					}
				})
		}})
	}
	type scw struct {
		length, pitch float64
		starts        int
	}
	for _, s0 := range []scw{{4, 1, 1}, {4, 1, -1}, {3, 0.5, 2}} {
		s0 := s0
		name := fmt.Sprintf("Screw3D[len=%g pitch=%g starts=%d]", s0.length, s0.pitch, s0.starts)
		out = append(out, U23{Name: name, Root: "Screw3D", App: func(c N2) N3 {
			return lift(c, name, "Screw3D", RefSet, false, false,
				func(s sdf.SDF2) (sdf.SDF3, error) { return sdf.Screw3D(s, s0.length, 0, s0.pitch, s0.starts) },
				func(f Ev2) Ev3 {
					return func(p v3.Vec) float64 {
						phi := math.Atan2(p.Y, p.X)
						// right-handed for starts > 0: rotating by +phi advances +starts*pitch*phi/2pi
						x := sawtooth(p.Z-float64(s0.starts)*s0.pitch*phi/(2*math.Pi), s0.pitch)
						return math.Max(f(v2.Vec{X: x, Y: math.Hypot(p.X, p.Y)}), math.Abs(p.Z)-s0.length/2)
					}
				})
		}})
	}
	return out
}

// Loft builds Loft3D of two profiles.
func Loft(c0, c1 N2, h, r float64) N3 {
	name := fmt.Sprintf("Loft3D[h=%g round=%g](%s, %s)", h, r, c0.Name, c1.Name)
	return N3{Name: name, Root: "Loft3D", Depth: 1 + maxInt(c0.Depth, c1.Depth), Kind: degrade(degrade(RefValue, c0.Kind, "Loft3D"), c1.Kind, "Loft3D"),
		Build: func() (sdf.SDF3, error) {
			a, err := c0.Build()
			if err != nil {
				return nil, err
			}
			b, err := c1.Build()
			if err != nil {
				return nil, err
			}
			return sdf.Loft3D(a, b, h, r)
		},
		Ref: func() (Ev3, error) {
			f0, err := c0.Ref()
			if err != nil {
				return nil, err
			}
			f1, err := c1.Ref()
			if err != nil {
				return nil, err
			}
			hh := h/2 - r
			return func(p v3.Vec) float64 {
				k := math.Max(0, math.Min(1, 0.5*p.Z/hh+0.5))
				q := v2.Vec{X: p.X, Y: p.Y}
				a := (1-k)*f0(q) + k*f1(q)
				return roundedSlab(a, p.Z, hh, r)
			}, nil
		}}
}

func maxInt(a, b int) int {
	if a > b {
		return a
	}
	return b
}

// Slice builds Slice2D of a 3D node.
func Slice(c N3, a, n v3.Vec) N2 {
	name := fmt.Sprintf("Slice2D[a=%v n=%v](%s)", a, n, c.Name)
	return N2{Name: name, Root: "Slice2D", Depth: c.Depth + 1, Kind: degrade(RefValue, c.Kind, "Slice2D"), Lip: c.Lip,
		Build: func() (sdf.SDF2, error) {
			s, err := c.Build()
			if err != nil {
				return nil, err
			}
			return sdf.Slice2D(s, a, n), nil
		},
		Ref: func() (Ev2, error) {
			f, err := c.Ref()
			if err != nil {
				return nil, err
			}
			// in-plane basis as implemented at the pinned commit (the documentation fixes only the plane)
			var u v3.Vec
			switch {
			case n.X == 0:
				u = v3.Vec{X: 1}
			case n.Y == 0:
				u = v3.Vec{Y: 1}
			case n.Z == 0:
				u = v3.Vec{Z: 1}
			default:
				u = v3.Vec{X: n.Y, Y: -n.X}
			}
			w := v3.Vec{X: n.Y*u.Z - n.Z*u.Y, Y: n.Z*u.X - n.X*u.Z, Z: n.X*u.Y - n.Y*u.X}
			nu, nw := math.Sqrt(u.X*u.X+u.Y*u.Y+u.Z*u.Z), math.Sqrt(w.X*w.X+w.Y*w.Y+w.Z*w.Z)
			return func(p v2.Vec) float64 {
				return f(v3.Vec{X: a.X + p.X*u.X/nu + p.Y*w.X/nw, Y: a.Y + p.X*u.Y/nu + p.Y*w.Y/nw, Z: a.Z + p.X*u.Z/nu + p.Y*w.Z/nw})
			}, nil
		}}
}

// ---------------------------------------------------------------------------------------------
// binary operators

// Bin3 builds op(a, b) for op in union, difference, intersect with an optional blend.
func Bin3(op string, bl Blend, a, b N3) N3 {
	name := fmt.Sprintf("%s3D[%s](%s, %s)", op, bl.Name, a.Name, b.Name)
	kind := degrade(degrade(RefValue, a.Kind, op+"3D"), b.Kind, op+"3D")
	if bl.Poly {
		kind = RefNone // blended nodes are checked by the inequalities of the property, see BlendBounds
	}
	return N3{Name: name, Root: op + "3D", Depth: 1 + maxInt(a.Depth, b.Depth), Kind: kind, Lip: a.Lip && b.Lip,
		Build: func() (sdf.SDF3, error) {
			x, err := a.Build()
			if err != nil {
				return nil, err
			}
			y, err := b.Build()
			if err != nil {
				return nil, err
			}
			var s sdf.SDF3
			switch op {
			case "Union":
				s = sdf.Union3D(x, y)
				if bl.Poly {
					s.(*sdf.UnionSDF3).SetMin(bl.Min())
				}
			case "Difference":
				s = sdf.Difference3D(x, y)
				if bl.Poly {
					s.(*sdf.DifferenceSDF3).SetMax(bl.Max())
				}
			case "Intersect":
				s = sdf.Intersect3D(x, y)
				if bl.Poly {
					s.(*sdf.IntersectionSDF3).SetMax(bl.Max())
				}
			}
			if s == nil {
				return nil, fmt.Errorf("%s3D returned nil", op)
			}
			return s, nil
		},
		Ref: func() (Ev3, error) {
			f, err := a.Ref()
			if err != nil {
				return nil, err
			}
			g, err := b.Ref()
			if err != nil {
				return nil, err
			}
			switch op {
			case "Union":
				return func(p v3.Vec) float64 { return math.Min(f(p), g(p)) }, nil
			case "Difference":
				return func(p v3.Vec) float64 { return math.Max(f(p), -g(p)) }, nil
			}
			return func(p v3.Vec) float64 { return math.Max(f(p), g(p)) }, nil
		}}
}

// Bin2 is the 2D counterpart of Bin3.
func Bin2(op string, bl Blend, a, b N2) N2 {
	name := fmt.Sprintf("%s2D[%s](%s, %s)", op, bl.Name, a.Name, b.Name)
	kind := degrade(degrade(RefValue, a.Kind, op+"2D"), b.Kind, op+"2D")
	if bl.Poly {
		kind = RefNone
	}
	return N2{Name: name, Root: op + "2D", Depth: 1 + maxInt(a.Depth, b.Depth), Kind: kind, Lip: a.Lip && b.Lip, OperandExact: a.Exact && b.Exact,
		Build: func() (sdf.SDF2, error) {
			x, err := a.Build()
			if err != nil {
				return nil, err
			}
			y, err := b.Build()
			if err != nil {
				return nil, err
			}
			var s sdf.SDF2
			switch op {
			case "Union":
				s = sdf.Union2D(x, y)
				if bl.Poly {
					s.(*sdf.UnionSDF2).SetMin(bl.Min())
				}
			case "Difference":
				s = sdf.Difference2D(x, y)
				if bl.Poly {
					s.(*sdf.DifferenceSDF2).SetMax(bl.Max())
				}
			case "Intersect":
				s = sdf.Intersect2D(x, y)
				if bl.Poly {
					s.(*sdf.IntersectionSDF2).SetMax(bl.Max())
				}
			}
			if s == nil {
				return nil, fmt.Errorf("%s2D returned nil", op)
			}
			return s, nil
		},
		Ref: func() (Ev2, error) {
			f, err := a.Ref()
			if err != nil {
				return nil, err
			}
			g, err := b.Ref()
			if err != nil {
				return nil, err
			}
			switch op {
			case "Union":
				return func(p v2.Vec) float64 { return math.Min(f(p), g(p)) }, nil
			case "Difference":
				return func(p v2.Vec) float64 { return math.Max(f(p), -g(p)) }, nil
			}
			return func(p v2.Vec) float64 { return math.Max(f(p), g(p)) }, nil
		}}
}

// BlendBounds returns the interval the property allows for a blended binary node at operand values x
// (first operand) and y (second operand): for a union [min-k/4, min] (exactly min once |x-y| >= k), for
// difference / intersection the mirror image.
func BlendBounds(op string, k, x, y float64) (lo, hi float64) {
	switch op {
	case "Union":
		m := math.Min(x, y)
		if math.Abs(x-y) >= k {
			return m, m
		}
		return m - k/4, m
	case "Difference":
		y = -y
	}
	m := math.Max(x, y)
	if math.Abs(x-y) >= k {
		return m, m
	}
	return m, m + k/4
}
