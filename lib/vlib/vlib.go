// Package vlib is the shared driver code of every check: tiers, seeds, violation
// classification against known_findings.json, replay files and evidence output.
package vlib

import (
	"bytes"
	"encoding/json"
	"flag"
	"fmt"
	"os"
	"os/exec"
	"path/filepath"
	"regexp"
	"runtime"
	"sort"
	"strconv"
	"strings"
	"sync"
	"sync/atomic"
	"time"
)

// VerifDir is the root of the verification tree.
var VerifDir = envOr("VERIF_DIR", "/verif")

// RepoDir is the tree under verification.
var RepoDir = envOr("VERIF_REPO", "/repo")

func envOr(k, d string) string {
	if v := os.Getenv(k); v != "" {
		return v
	}
	return d
}

// Finding is one entry of known_findings.json.
type Finding struct {
	Property string `json:"property"`
	Key      string `json:"key"`
	Status   string `json:"status"` // "known" or "fixed"
	Commit   string `json:"commit,omitempty"`
	What     string `json:"what"`
	Line     string `json:"line,omitempty"`
}

type findingsFile struct {
	Findings []Finding `json:"findings"`
}

// Ctx is the state of one check run.
type Ctx struct {
	ID     string
	Tier   string
	Seed   int64
	Replay string
	start  time.Time

	mu         sync.Mutex
	known      map[string]Finding
	knownHit   map[string]int
	viol       map[string]int
	violOrder  []string
	violSample map[string]any
	guards     map[string]bool
	guardInfo  map[string]string
	notes      []string
	harnessErr []string
	deadline   time.Time
	capped     atomic.Bool
}

// Out is the real standard output; os.Stdout itself is pointed at /dev/null by Start because
// the library prints "rendering ..." lines from every render call.
var Out = os.Stdout

// Start parses flags/environment and loads the known findings.
func Start(id string) *Ctx {
	if null, err := os.OpenFile(os.DevNull, os.O_WRONLY, 0); err == nil {
		os.Stdout = null
	}
	tier := flag.String("tier", envOr("VERIF_TIER", "quick"), "quick|thorough")
	replay := flag.String("replay", "", "replay file")
	flag.Parse()
	seed, _ := strconv.ParseInt(os.Getenv("VERIF_SEED"), 10, 64)
	c := &Ctx{ID: id, Tier: *tier, Seed: seed, Replay: *replay, start: time.Now(),
		known: map[string]Finding{}, knownHit: map[string]int{}, viol: map[string]int{},
		violSample: map[string]any{}, guards: map[string]bool{}, guardInfo: map[string]string{}}
	if c.Tier != "quick" && c.Tier != "thorough" {
		c.Tier = "quick"
	}
	b, err := os.ReadFile(filepath.Join(VerifDir, "known_findings.json"))
	if err == nil {
		var ff findingsFile
		if err := json.Unmarshal(b, &ff); err != nil {
			fmt.Fprintln(Out, "HARNESS-ERROR: known_findings.json does not parse:", err)
			os.Exit(3)
		}
		for _, f := range ff.Findings {
			if f.Property == id && f.Status == "known" {
				c.known[f.Key] = f
			}
		}
	}
	// internal deadline: a capped run reports exhaustive:false and exits 0.
	d := 20 * time.Minute
	if c.Tier == "thorough" {
		d = 3 * time.Hour
	}
	if v := os.Getenv("VERIF_DEADLINE_S"); v != "" {
		if s, err := strconv.Atoi(v); err == nil {
			d = time.Duration(s) * time.Second
		}
	}
	c.deadline = c.start.Add(d)
	return c
}

// Thorough reports whether the thorough tier was requested.
func (c *Ctx) Thorough() bool { return c.Tier == "thorough" }

// Pick returns q for quick, t for thorough.
func Pick[T any](c *Ctx, q, t T) T {
	if c.Thorough() {
		return t
	}
	return q
}

// Expired is true once the internal deadline has passed; callers stop enumerating and
// the evidence says exhaustive:false.
func (c *Ctx) Expired() bool {
	if time.Now().After(c.deadline) {
		c.capped.Store(true)
		return true
	}
	return false
}

// Capped reports whether any loop hit the deadline.
func (c *Ctx) Capped() bool { return c.capped.Load() }

var keySan = regexp.MustCompile(`[^A-Za-z0-9_.+-]+`)

// Violation records one counterexample. key is its class (call site + structural class computed
// from the counterexample); replay is the concrete element.
func (c *Ctx) Violation(key, what string, replay any) {
	c.mu.Lock()
	defer c.mu.Unlock()
	if _, ok := c.known[key]; ok {
		c.knownHit[key]++
		if _, ok := c.violSample["K:"+key]; !ok {
			c.violSample["K:"+key] = map[string]any{"known_finding": key, "what": what, "input": replay}
		}
		return
	}
	c.viol[key]++
	if c.viol[key] > 1 {
		return
	}
	c.violOrder = append(c.violOrder, key)
	dir := filepath.Join(VerifDir, "replays", c.ID)
	os.MkdirAll(dir, 0o755)
	name := keySan.ReplaceAllString(key, "_")
	if len(name) > 120 {
		name = name[:120]
	}
	path := filepath.Join(dir, name+".json")
	if c.Replay == "" {
		b, _ := json.MarshalIndent(map[string]any{"property": c.ID, "key": key, "what": what, "input": replay}, "", " ")
		os.WriteFile(path, b, 0o644)
	}
	c.violSample["V:"+key] = map[string]any{"violation": key, "what": what, "input": replay}
	if len(c.violOrder) <= 20 {
		fmt.Fprintf(Out, "VIOLATION property=%s replay=%s key=%s :: %s\n", c.ID, path, key, what)
	}
}

// NViolations is the number of distinct unlisted violation classes so far.
func (c *Ctx) NViolations() int {
	c.mu.Lock()
	defer c.mu.Unlock()
	return len(c.violOrder)
}

// Guard records a non-vacuity guard; a false guard makes the run a harness error (exit 3).
func (c *Ctx) Guard(name string, ok bool, info string) {
	c.mu.Lock()
	defer c.mu.Unlock()
	c.guards[name] = ok
	c.guardInfo[name] = info
}

// HarnessError records a reason the harness cannot be trusted on this tree (exit 3).
func (c *Ctx) HarnessError(format string, a ...any) {
	c.mu.Lock()
	defer c.mu.Unlock()
	c.harnessErr = append(c.harnessErr, fmt.Sprintf(format, a...))
}

// Note adds a free-text line to the evidence.
func (c *Ctx) Note(format string, a ...any) {
	c.mu.Lock()
	defer c.mu.Unlock()
	c.notes = append(c.notes, fmt.Sprintf(format, a...))
}

// Coverage is what a run measured.
type Coverage struct {
	States       int64  // distinct inputs / configurations / executions explored
	Transitions  int64  // oracle comparisons or scheduler steps
	Evaluations  int64  // elements enumerated
	Nontrivial   int64  // distinct and non-trivial by Rule
	Rule         string // how elements are enumerated and what non-trivial means
	Samples      []any
	Exhaustive   bool
	Bounds       map[string]any
	Extra        map[string]any
	Assumptions  []string
	ValidatedAll bool
}

// Finish writes the evidence file, prints the summary and exits.
func (c *Ctx) Finish(cov Coverage) {
	c.mu.Lock()
	defer c.mu.Unlock()
	wall := time.Since(c.start).Seconds()
	if c.capped.Load() {
		cov.Exhaustive = false
	}
	samples := cov.Samples
	var vk []string
	for k := range c.violSample {
		vk = append(vk, k)
	}
	sort.Strings(vk)
	for _, k := range vk {
		samples = append(samples, c.violSample[k])
	}
	if len(samples) == 0 {
		samples = []any{"(no sample recorded)"}
	}
	coverage := map[string]any{
		"states":                        cov.States,
		"transitions":                   cov.Transitions,
		"traces_validated_against_impl": cov.States,
		"evaluations":                   cov.Evaluations,
		"distinct_nontrivial":           cov.Nontrivial,
		"rule":                          cov.Rule,
		"samples":                       samples,
		"exhaustive":                    cov.Exhaustive,
		"capped_by_deadline":            c.capped.Load(),
		"bounds":                        cov.Bounds,
		"guards":                        c.guards,
		"guard_info":                    c.guardInfo,
		"known_findings_hit":            c.knownHit,
		"violation_classes":             c.viol,
		"notes":                         c.notes,
		"explanation":                   "the explored transition function is the implementation itself (built from the current working tree with -tags verif -overlay); every state counted is an execution of real code, so traces_validated_against_impl == states",
	}
	for k, v := range cov.Extra {
		coverage[k] = v
	}
	ev := map[string]any{
		"property_id": c.ID,
		"tier":        c.Tier,
		"seed":        c.Seed,
		"level":       "model_checking",
		"coverage":    coverage,
		"assumptions": cov.Assumptions,
		"wall_s":      wall,
		"violations":  len(c.violOrder),
		"go":          runtime.Version(),
		"repo":        RepoDir,
	}
	if c.Replay != "" {
		// generic replay (checks without a single-element replay mode): the whole enumeration was run
		// again on the current tree; report whether the recorded class occurred
		var w struct {
			Key string `json:"key"`
		}
		if b, err := os.ReadFile(c.Replay); err == nil {
			json.Unmarshal(b, &w)
		}
		n := c.viol[w.Key] + c.knownHit[w.Key]
		fmt.Fprintf(Out, "REPLAY property=%s key=%s reproduced=%v occurrences=%d (full enumeration re-run on the current tree)\n", c.ID, w.Key, n > 0, n)
		if n > 0 {
			os.Exit(1)
		}
		os.Exit(0)
	}
	if c.Replay == "" {
		b, _ := json.MarshalIndent(ev, "", " ")
		os.MkdirAll(filepath.Join(VerifDir, "evidence"), 0o755)
		if err := os.WriteFile(filepath.Join(VerifDir, "evidence", c.ID+".json"), b, 0o644); err != nil {
			fmt.Fprintln(Out, "HARNESS-ERROR: cannot write evidence:", err)
			os.Exit(3)
		}
	}
	var kk []string
	for k := range c.knownHit {
		kk = append(kk, k)
	}
	sort.Strings(kk)
	for _, k := range kk {
		f := c.known[k]
		fmt.Fprintf(Out, "KNOWN-FINDING: property=%s key=%s %s (seen %d times)\n", c.ID, k, f.What, c.knownHit[k])
	}
	if len(c.violOrder) > 20 {
		fmt.Fprintf(Out, "... %d further violation classes not printed (all in evidence)\n", len(c.violOrder)-20)
	}
	fmt.Fprintf(Out, "%s tier=%s states=%d transitions=%d nontrivial=%d exhaustive=%v violations=%d known=%d wall=%.1fs\n",
		c.ID, c.Tier, cov.States, cov.Transitions, cov.Nontrivial, cov.Exhaustive, len(c.violOrder), len(c.knownHit), wall)
	if len(c.violOrder) > 0 {
		os.Exit(1)
	}
	bad := false
	var gk []string
	for k := range c.guards {
		gk = append(gk, k)
	}
	sort.Strings(gk)
	for _, k := range gk {
		if !c.guards[k] {
			fmt.Fprintf(Out, "HARNESS-ERROR: non-vacuity guard failed: %s (%s)\n", k, c.guardInfo[k])
			bad = true
		}
	}
	for _, e := range c.harnessErr {
		fmt.Fprintln(Out, "HARNESS-ERROR:", e)
		bad = true
	}
	if bad {
		os.Exit(3)
	}
	os.Exit(0)
}

// LoadReplay decodes the "input" member of a replay file into v.
func (c *Ctx) LoadReplay(v any) error {
	b, err := os.ReadFile(c.Replay)
	if err != nil {
		return err
	}
	var w struct {
		Input json.RawMessage `json:"input"`
	}
	if err := json.Unmarshal(b, &w); err != nil {
		return err
	}
	return json.Unmarshal(w.Input, v)
}

// ParFor runs f(i) for i in [0,n) on all cores; it stops handing out work once the deadline passed.
// It returns the number of indices actually processed.
func (c *Ctx) ParFor(n int, f func(i int)) int64 {
	var next, done int64
	var wg sync.WaitGroup
	w := runtime.NumCPU()
	if w > n {
		w = n
	}
	for k := 0; k < w; k++ {
		wg.Add(1)
		go func() {
			defer wg.Done()
			for {
				i := atomic.AddInt64(&next, 1) - 1
				if i >= int64(n) {
					return
				}
				if i&63 == 0 && c.Expired() {
					return
				}
				if c.capped.Load() {
					return
				}
				f(int(i))
				atomic.AddInt64(&done, 1)
			}
		}()
	}
	wg.Wait()
	return done
}

// Counter is a concurrent histogram.
type Counter struct {
	mu sync.Mutex
	m  map[string]int64
}

// NewCounter returns an empty histogram.
func NewCounter() *Counter { return &Counter{m: map[string]int64{}} }

// Add increments key k by n.
func (h *Counter) Add(k string, n int64) {
	h.mu.Lock()
	h.m[k] += n
	h.mu.Unlock()
}

// Get returns the count of k.
func (h *Counter) Get(k string) int64 {
	h.mu.Lock()
	defer h.mu.Unlock()
	return h.m[k]
}

// Map returns a copy.
func (h *Counter) Map() map[string]int64 {
	h.mu.Lock()
	defer h.mu.Unlock()
	r := map[string]int64{}
	for k, v := range h.m {
		r[k] = v
	}
	return r
}

// Len is the number of distinct keys.
func (h *Counter) Len() int {
	h.mu.Lock()
	defer h.mu.Unlock()
	return len(h.m)
}

// F formats a float for keys/samples.
func F(x float64) string { return strconv.FormatFloat(x, 'g', -1, 64) }

// Join is strings.Join for convenience in checks.
func Join(s []string, sep string) string { return strings.Join(s, sep) }

// ---------------------------------------------------------------------------------------------
// process-level sharding (the controlled scheduler is one per process)

// Viol is a violation reported by a worker.
type Viol struct {
	Key    string `json:"key"`
	What   string `json:"what"`
	Replay any    `json:"replay"`
}

// Job collects what one job of a sharded run observed.
type Job struct {
	ID          int              `json:"job"`
	States      int64            `json:"states"`
	Transitions int64            `json:"transitions"`
	Viols       []Viol           `json:"viols,omitempty"`
	Counters    map[string]int64 `json:"counters,omitempty"`
	Notes       []string         `json:"notes,omitempty"`
	HarnessErrs []string         `json:"harness_errors,omitempty"`
	Capped      bool             `json:"capped,omitempty"`
	Samples     []any            `json:"samples,omitempty"`
	seen        map[string]bool
}

// Violation records a counterexample (first per key only).
func (j *Job) Violation(key, what string, replay any) {
	if j.seen == nil {
		j.seen = map[string]bool{}
	}
	j.Count("violation:"+key, 1)
	if j.seen[key] {
		return
	}
	j.seen[key] = true
	j.Viols = append(j.Viols, Viol{key, what, replay})
}

// Count adds n to a named counter.
func (j *Job) Count(name string, n int64) {
	if j.Counters == nil {
		j.Counters = map[string]int64{}
	}
	j.Counters[name] += n
}

// Max keeps the maximum of a named gauge.
func (j *Job) Max(name string, n int64) {
	if j.Counters == nil {
		j.Counters = map[string]int64{}
	}
	if n > j.Counters["max:"+name] {
		j.Counters["max:"+name] = n
	}
}

// HarnessError records a reason not to trust the run.
func (j *Job) HarnessError(format string, a ...any) {
	j.HarnessErrs = append(j.HarnessErrs, fmt.Sprintf(format, a...))
}

// Merged is the union of all job results.
type Merged struct {
	States, Transitions int64
	Counters            map[string]int64
	Samples             []any
}

// RunSharded runs f for jobs 0..n-1 distributed over worker subprocesses (re-executions of this
// binary with VERIF_WORKER=i/k).  In a worker process it never returns.
func (c *Ctx) RunSharded(n int, f func(i int, j *Job)) *Merged {
	if w := os.Getenv("VERIF_WORKER"); w != "" {
		var i, k int
		fmt.Sscanf(w, "%d/%d", &i, &k)
		enc := json.NewEncoder(Out)
		for job := i; job < n; job += k {
			j := &Job{ID: job}
			if c.Expired() {
				j.Capped = true
			} else {
				f(job, j)
			}
			if c.Capped() {
				j.Capped = true
			}
			if err := enc.Encode(j); err != nil {
				os.Exit(3)
			}
		}
		os.Exit(0)
	}
	k := runtime.NumCPU()
	if v := os.Getenv("VERIF_WORKERS"); v != "" {
		if x, err := strconv.Atoi(v); err == nil && x > 0 {
			k = x
		}
	}
	if k > n {
		k = n
	}
	m := &Merged{Counters: map[string]int64{}}
	var mu sync.Mutex
	var wg sync.WaitGroup
	doneJobs := map[int]bool{}
	for i := 0; i < k; i++ {
		wg.Add(1)
		go func(i int) {
			defer wg.Done()
			cmd := exec.Command(os.Args[0], os.Args[1:]...)
			cmd.Env = append(os.Environ(), fmt.Sprintf("VERIF_WORKER=%d/%d", i, k), fmt.Sprintf("VERIF_DEADLINE_S=%d", int(time.Until(c.deadline).Seconds())))
			var stderr bytes.Buffer
			cmd.Stderr = &stderr
			pipe, err := cmd.StdoutPipe()
			if err != nil {
				c.HarnessError("worker %d: %v", i, err)
				return
			}
			if err := cmd.Start(); err != nil {
				c.HarnessError("worker %d: %v", i, err)
				return
			}
			dec := json.NewDecoder(pipe)
			for {
				var j Job
				if err := dec.Decode(&j); err != nil {
					break
				}
				mu.Lock()
				doneJobs[j.ID] = true
				m.States += j.States
				m.Transitions += j.Transitions
				for kk, v := range j.Counters {
					if strings.HasPrefix(kk, "max:") {
						if v > m.Counters[kk] {
							m.Counters[kk] = v
						}
					} else {
						m.Counters[kk] += v
					}
				}
				if len(m.Samples) < 12 {
					m.Samples = append(m.Samples, j.Samples...)
				}
				mu.Unlock()
				for _, v := range j.Viols {
					c.Violation(v.Key, v.What, v.Replay)
				}
				for _, e := range j.HarnessErrs {
					c.HarnessError("%s", e)
				}
				for _, nn := range j.Notes {
					c.Note("%s", nn)
				}
				if j.Capped {
					c.capped.Store(true)
				}
			}
			if err := cmd.Wait(); err != nil {
				tail := stderr.String()
				if len(tail) > 1500 {
					tail = tail[:1500]
				}
				c.HarnessError("worker %d failed: %v: %s", i, err, tail)
			}
		}(i)
	}
	wg.Wait()
	if !c.Capped() {
		for job := 0; job < n; job++ {
			if !doneJobs[job] {
				c.HarnessError("job %d produced no result", job)
				break
			}
		}
	}
	return m
}
