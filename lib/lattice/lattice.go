// Package lattice implements Engine L: it discovers the sampling lattice of a renderer by rendering a
// recording field through the real renderer, and provides lookup fields defined by a value table over
// that lattice.  No lattice arithmetic of the renderers is duplicated here.
package lattice

import (
	"fmt"
	"math"
	"sort"
	"sync"
	"sync/atomic"

	"github.com/deadsy/sdfx/render"
	"github.com/deadsy/sdfx/sdf"
	v2 "github.com/deadsy/sdfx/vec/v2"
	v3 "github.com/deadsy/sdfx/vec/v3"
)

// ---------------------------------------------------------------------------------------------
// 3D

type recorder3 struct {
	bb  sdf.Box3
	val float64
	mu  sync.Mutex
	pts map[v3.Vec]int
}

func (r *recorder3) Evaluate(p v3.Vec) float64 {
	r.mu.Lock()
	r.pts[p]++
	r.mu.Unlock()
	return r.val
}
func (r *recorder3) BoundingBox() sdf.Box3 { return r.bb }

// Lat3 is a discovered 3D lattice: per-axis sorted coordinates and the set of evaluated index triples.
type Lat3 struct {
	BB      sdf.Box3
	X, Y, Z []float64
	xi      map[uint64]int
	yi      map[uint64]int
	zi      map[uint64]int
	Eval    map[[3]int]int // evaluated points (index triple -> number of evaluations in the probe)
	Stride  int            // 1: every lattice point is a cell corner (uniform); 2: corners are the even indices (octree)
	NEvals  int
	Missing int // see Lat2.Missing
}

func uniq(m map[float64]bool) []float64 {
	o := make([]float64, 0, len(m))
	for k := range m {
		o = append(o, k)
	}
	sort.Float64s(o)
	return o
}

func index(a []float64) map[uint64]int {
	m := make(map[uint64]int, len(a))
	for i, x := range a {
		m[math.Float64bits(x+0)] = i // +0 folds -0 into +0
	}
	return m
}

// CoverageError: the probe render (whose constant field makes no cube prunable by value) never evaluated a
// corner of a finest cell that intersects the bounding box: whatever surface lies in that cell is lost.
type CoverageError struct {
	Corner []float64
	Msg    string
}

func (e *CoverageError) Error() string { return e.Msg }

func overlaps(a []float64, i int, lo, hi float64) bool {
	return i >= 0 && i+2 < len(a) && a[i] < hi && a[i+2] > lo
}

// Discover3 renders a constant field `neutral` over bb through r and returns the lattice of
// evaluation points.
func Discover3(r render.Render3, bb sdf.Box3, neutral float64) (*Lat3, error) {
	rec := &recorder3{bb: bb, val: neutral, pts: map[v3.Vec]int{}}
	tris := render.ToTriangles(rec, r)
	if len(tris) != 0 {
		return nil, fmt.Errorf("probe render of a constant field produced %d triangles", len(tris))
	}
	xs, ys, zs := map[float64]bool{}, map[float64]bool{}, map[float64]bool{}
	n := 0
	for p, k := range rec.pts {
		xs[p.X+0], ys[p.Y+0], zs[p.Z+0] = true, true, true
		n += k
	}
	l := &Lat3{BB: bb, X: uniq(xs), Y: uniq(ys), Z: uniq(zs), Eval: map[[3]int]int{}, NEvals: n}
	l.xi, l.yi, l.zi = index(l.X), index(l.Y), index(l.Z)
	for p, k := range rec.pts {
		l.Eval[[3]int{l.xi[math.Float64bits(p.X+0)], l.yi[math.Float64bits(p.Y+0)], l.zi[math.Float64bits(p.Z+0)]}] = k
	}
	// classify: full product (uniform) or all-even + all-odd (octree)
	if len(l.Eval) == len(l.X)*len(l.Y)*len(l.Z) {
		l.Stride = 1
		return l, nil
	}
	for k := range l.Eval {
		e := k[0]%2 + k[1]%2 + k[2]%2
		if e != 0 && e != 3 {
			return nil, fmt.Errorf("lattice is neither a full product nor an even/odd hierarchy: point %v evaluated", k)
		}
	}
	for i := 0; i < len(l.X); i += 2 {
		for j := 0; j < len(l.Y); j += 2 {
			for k := 0; k < len(l.Z); k += 2 {
				if l.Eval[[3]int{i, j, k}] == 0 {
					for _, a := range []int{i - 2, i} {
						for _, b := range []int{j - 2, j} {
							for _, c := range []int{k - 2, k} {
								if overlaps(l.X, a, bb.Min.X, bb.Max.X) && overlaps(l.Y, b, bb.Min.Y, bb.Max.Y) && overlaps(l.Z, c, bb.Min.Z, bb.Max.Z) {
									return nil, &CoverageError{[]float64{l.X[i], l.Y[j], l.Z[k]}, fmt.Sprintf("the finest cell [%g,%g]x[%g,%g]x[%g,%g] intersects the bounding box %v..%v but its corner (%g,%g,%g) is never evaluated, even for a field that makes no cube prunable", l.X[a], l.X[a+2], l.Y[b], l.Y[b+2], l.Z[c], l.Z[c+2], bb.Min, bb.Max, l.X[i], l.Y[j], l.Z[k])}
								}
							}
						}
					}
					// a corner all of whose cells lie outside the bounding box: the lattice (a product of the
					// coordinate lists) is still well defined; the corner is only counted
					l.Missing++
				}
			}
		}
	}
	l.Stride = 2
	return l, nil
}

// NC returns the number of cell corners per axis.
func (l *Lat3) NC() (int, int, int) {
	return (len(l.X) + l.Stride - 1) / l.Stride, (len(l.Y) + l.Stride - 1) / l.Stride, (len(l.Z) + l.Stride - 1) / l.Stride
}

// Corner returns the coordinate of cell corner (i,j,k).
func (l *Lat3) Corner(i, j, k int) v3.Vec {
	return v3.Vec{X: l.X[i*l.Stride], Y: l.Y[j*l.Stride], Z: l.Z[k*l.Stride]}
}

// Cell returns the cell edge lengths at corner (i,j,k) (distance to the next corner).
func (l *Lat3) Cell() v3.Vec {
	return v3.Vec{X: l.X[l.Stride] - l.X[0], Y: l.Y[l.Stride] - l.Y[0], Z: l.Z[l.Stride] - l.Z[0]}
}

// Field3 is a lookup field over the corners of a Lat3.  Non-corner lattice points (octree cube
// centres) evaluate to Centre; an off-lattice query sets OffLattice and returns Default.
type Field3 struct {
	L          *Lat3
	V          []float64 // corner values, index (i*ny+j)*nz+k
	nx, ny, nz int
	Centre     float64
	Default    float64
	OffLattice atomic.Int64
	Evals      atomic.Int64
	Hook       func()           // called on every evaluation (scheduler yield point), may be nil
	HookIdx    func(linear int) // called with the linear corner index of every on-lattice evaluation, may be nil
}

// NewField3 returns a field with every corner set to def.
func (l *Lat3) NewField3(def float64) *Field3 {
	nx, ny, nz := l.NC()
	f := &Field3{L: l, V: make([]float64, nx*ny*nz), nx: nx, ny: ny, nz: nz, Default: def}
	for i := range f.V {
		f.V[i] = def
	}
	return f
}

// Set sets the value of corner (i,j,k).
func (f *Field3) Set(i, j, k int, v float64) { f.V[(i*f.ny+j)*f.nz+k] = v }

// At returns the value of corner (i,j,k).
func (f *Field3) At(i, j, k int) float64 { return f.V[(i*f.ny+j)*f.nz+k] }

// Fill sets every corner to v.
func (f *Field3) Fill(v float64) {
	for i := range f.V {
		f.V[i] = v
	}
}

// Evaluate implements sdf.SDF3.
func (f *Field3) Evaluate(p v3.Vec) float64 {
	if f.Hook != nil {
		f.Hook()
	}
	f.Evals.Add(1)
	i, ok1 := f.L.xi[math.Float64bits(p.X+0)]
	j, ok2 := f.L.yi[math.Float64bits(p.Y+0)]
	k, ok3 := f.L.zi[math.Float64bits(p.Z+0)]
	if !ok1 || !ok2 || !ok3 {
		f.OffLattice.Add(1)
		return f.Default
	}
	if f.L.Stride == 2 {
		if i%2 != 0 || j%2 != 0 || k%2 != 0 {
			return f.Centre
		}
		i, j, k = i/2, j/2, k/2
	}
	if f.HookIdx != nil {
		f.HookIdx((i*f.ny+j)*f.nz + k)
	}
	return f.V[(i*f.ny+j)*f.nz+k]
}

// BoundingBox implements sdf.SDF3.
func (f *Field3) BoundingBox() sdf.Box3 { return f.L.BB }

// ---------------------------------------------------------------------------------------------
// 2D

type recorder2 struct {
	bb  sdf.Box2
	val float64
	mu  sync.Mutex
	pts map[v2.Vec]int
}

func (r *recorder2) Evaluate(p v2.Vec) float64 {
	r.mu.Lock()
	r.pts[p]++
	r.mu.Unlock()
	return r.val
}
func (r *recorder2) BoundingBox() sdf.Box2 { return r.bb }

// Lat2 is a discovered 2D lattice.
type Lat2 struct {
	BB     sdf.Box2
	X, Y   []float64
	xi, yi map[uint64]int
	Eval   map[[2]int]int
	Stride int
	NEvals int
	// Missing counts cell corners of the product lattice that the probe never evaluated although its field makes
	// nothing prunable; all of them belong to cells wholly outside the bounding box (otherwise discovery fails
	// with a CoverageError)
	Missing int
}

// Discover2 renders a constant field through r and returns the lattice.
func Discover2(r render.Render2, bb sdf.Box2, neutral float64) (*Lat2, error) {
	rec := &recorder2{bb: bb, val: neutral, pts: map[v2.Vec]int{}}
	ls := Collect2(rec, r)
	if len(ls) != 0 {
		return nil, fmt.Errorf("probe render of a constant field produced %d segments", len(ls))
	}
	xs, ys := map[float64]bool{}, map[float64]bool{}
	n := 0
	for p, k := range rec.pts {
		xs[p.X+0], ys[p.Y+0] = true, true
		n += k
	}
	l := &Lat2{BB: bb, X: uniq(xs), Y: uniq(ys), Eval: map[[2]int]int{}, NEvals: n}
	l.xi, l.yi = index(l.X), index(l.Y)
	for p, k := range rec.pts {
		l.Eval[[2]int{l.xi[math.Float64bits(p.X+0)], l.yi[math.Float64bits(p.Y+0)]}] = k
	}
	if len(l.Eval) == len(l.X)*len(l.Y) {
		l.Stride = 1
		return l, nil
	}
	for k := range l.Eval {
		e := k[0]%2 + k[1]%2
		if e != 0 && e != 2 {
			return nil, fmt.Errorf("2D lattice is neither a full product nor an even/odd hierarchy: point %v evaluated", k)
		}
	}
	for i := 0; i < len(l.X); i += 2 {
		for j := 0; j < len(l.Y); j += 2 {
			if l.Eval[[2]int{i, j}] == 0 {
				for _, a := range []int{i - 2, i} {
					for _, b := range []int{j - 2, j} {
						if overlaps(l.X, a, bb.Min.X, bb.Max.X) && overlaps(l.Y, b, bb.Min.Y, bb.Max.Y) {
							return nil, &CoverageError{[]float64{l.X[i], l.Y[j]}, fmt.Sprintf("the finest cell [%g,%g]x[%g,%g] intersects the bounding box %v..%v but its corner (%g,%g) is never evaluated, even for a field that makes no square prunable", l.X[a], l.X[a+2], l.Y[b], l.Y[b+2], bb.Min, bb.Max, l.X[i], l.Y[j])}
						}
					}
				}
				l.Missing++
			}
		}
	}
	l.Stride = 2
	return l, nil
}

// NC returns the number of cell corners per axis.
func (l *Lat2) NC() (int, int) {
	return (len(l.X) + l.Stride - 1) / l.Stride, (len(l.Y) + l.Stride - 1) / l.Stride
}

// Corner returns the coordinate of corner (i,j).
func (l *Lat2) Corner(i, j int) v2.Vec { return v2.Vec{X: l.X[i*l.Stride], Y: l.Y[j*l.Stride]} }

// Cell returns the cell edge lengths.
func (l *Lat2) Cell() v2.Vec {
	return v2.Vec{X: l.X[l.Stride] - l.X[0], Y: l.Y[l.Stride] - l.Y[0]}
}

// Field2 is a lookup field over the corners of a Lat2.
type Field2 struct {
	L          *Lat2
	V          []float64
	nx, ny     int
	Centre     float64
	Default    float64
	OffLattice atomic.Int64
	Evals      atomic.Int64
}

// NewField2 returns a field with every corner set to def.
func (l *Lat2) NewField2(def float64) *Field2 {
	nx, ny := l.NC()
	f := &Field2{L: l, V: make([]float64, nx*ny), nx: nx, ny: ny, Default: def}
	for i := range f.V {
		f.V[i] = def
	}
	return f
}

// Set sets corner (i,j).
func (f *Field2) Set(i, j int, v float64) { f.V[i*f.ny+j] = v }

// At returns corner (i,j).
func (f *Field2) At(i, j int) float64 { return f.V[i*f.ny+j] }

// Fill sets every corner to v.
func (f *Field2) Fill(v float64) {
	for i := range f.V {
		f.V[i] = v
	}
}

// Evaluate implements sdf.SDF2.
func (f *Field2) Evaluate(p v2.Vec) float64 {
	f.Evals.Add(1)
	i, ok1 := f.L.xi[math.Float64bits(p.X+0)]
	j, ok2 := f.L.yi[math.Float64bits(p.Y+0)]
	if !ok1 || !ok2 {
		f.OffLattice.Add(1)
		return f.Default
	}
	if f.L.Stride == 2 {
		if i%2 != 0 || j%2 != 0 {
			return f.Centre
		}
		i, j = i/2, j/2
	}
	return f.V[i*f.ny+j]
}

// BoundingBox implements sdf.SDF2.
func (f *Field2) BoundingBox() sdf.Box2 { return f.L.BB }

// ---------------------------------------------------------------------------------------------
// vertex oracle

func nearest(a []float64, stride int, x float64) (idx int, d float64) {
	n := (len(a) + stride - 1) / stride
	lo, hi := 0, n-1
	for lo < hi {
		m := (lo + hi) / 2
		if a[m*stride] < x {
			lo = m + 1
		} else {
			hi = m
		}
	}
	idx, d = lo, math.Abs(a[lo*stride]-x)
	if lo > 0 && math.Abs(a[(lo-1)*stride]-x) < d {
		idx, d = lo-1, math.Abs(a[(lo-1)*stride]-x)
	}
	return
}

// bracket returns i with corner[i] <= x <= corner[i+1] (clamped).
func bracket(a []float64, stride int, x float64) int {
	n := (len(a) + stride - 1) / stride
	i, _ := nearest(a, stride, x)
	if a[i*stride] > x {
		i--
	}
	if i < 0 {
		i = 0
	}
	if i > n-2 {
		i = n - 2
	}
	return i
}

// VertexCheck decides whether mesh vertex p is the linear zero crossing of a lattice edge whose end
// points straddle zero, for the corner values val.  tol is the geometric tolerance; ftol the tolerance
// on the linearly interpolated field value at p (covers the renderer's epsilon snapping).
func (l *Lat3) VertexCheck(p v3.Vec, val func(i, j, k int) float64, tol, ftol float64) (bool, string) {
	ax := [3][]float64{l.X, l.Y, l.Z}
	pc := [3]float64{p.X, p.Y, p.Z}
	var on [3]bool
	var idx [3]int
	non := 0
	for a := 0; a < 3; a++ {
		i, d := nearest(ax[a], l.Stride, pc[a])
		idx[a] = i
		if d <= tol {
			on[a] = true
			non++
		}
	}
	at := func(i [3]int) float64 { return val(i[0], i[1], i[2]) }
	nc := [3]int{}
	nc[0], nc[1], nc[2] = l.NC()
	switch {
	case non == 3:
		v := at(idx)
		if math.Abs(v) <= ftol {
			// must have a straddling neighbour
			for a := 0; a < 3; a++ {
				for _, d := range []int{-1, 1} {
					j := idx
					j[a] += d
					if j[a] < 0 || j[a] >= nc[a] {
						continue
					}
					if (at(j) < 0) != (v < 0) {
						return true, ""
					}
				}
			}
			return false, fmt.Sprintf("vertex on lattice corner %v (value %g) without a straddling incident edge", idx, v)
		}
		return false, fmt.Sprintf("vertex on lattice corner %v whose value is %g", idx, v)
	case non == 2:
		a := 0
		for !(!on[a]) {
			a++
		}
		i0 := idx
		i0[a] = bracket(ax[a], l.Stride, pc[a])
		i1 := i0
		i1[a]++
		v0, v1 := at(i0), at(i1)
		if (v0 < 0) == (v1 < 0) {
			return false, fmt.Sprintf("vertex on lattice edge %v-%v whose end values %g, %g do not straddle zero", i0, i1, v0, v1)
		}
		c0, c1 := ax[a][i0[a]*l.Stride], ax[a][i1[a]*l.Stride]
		s := (pc[a] - c0) / (c1 - c0)
		flin := v0 + s*(v1-v0)
		want := c0 + v0/(v0-v1)*(c1-c0)
		if math.Abs(flin) <= ftol || math.Abs(pc[a]-want) <= tol {
			return true, ""
		}
		return false, fmt.Sprintf("vertex at fraction %g of lattice edge %v-%v with end values %g, %g: interpolated field there is %g (zero crossing is at fraction %g)", s, i0, i1, v0, v1, flin, v0/(v0-v1))
	}
	return false, fmt.Sprintf("vertex %v is not on a lattice edge (on-plane axes: %v)", p, on)
}

// VertexCheck (2D).
func (l *Lat2) VertexCheck(p v2.Vec, val func(i, j int) float64, tol, ftol float64) (bool, string) {
	ax := [2][]float64{l.X, l.Y}
	pc := [2]float64{p.X, p.Y}
	var on [2]bool
	var idx [2]int
	non := 0
	for a := 0; a < 2; a++ {
		i, d := nearest(ax[a], l.Stride, pc[a])
		idx[a] = i
		if d <= tol {
			on[a] = true
			non++
		}
	}
	at := func(i [2]int) float64 { return val(i[0], i[1]) }
	nc := [2]int{}
	nc[0], nc[1] = l.NC()
	switch non {
	case 2:
		v := at(idx)
		if math.Abs(v) <= ftol {
			for a := 0; a < 2; a++ {
				for _, d := range []int{-1, 1} {
					j := idx
					j[a] += d
					if j[a] < 0 || j[a] >= nc[a] {
						continue
					}
					if (at(j) < 0) != (v < 0) {
						return true, ""
					}
				}
			}
			return false, fmt.Sprintf("end point on lattice corner %v (value %g) without a straddling incident edge", idx, v)
		}
		return false, fmt.Sprintf("end point on lattice corner %v whose value is %g", idx, v)
	case 1:
		a := 0
		if on[0] {
			a = 1
		}
		i0 := idx
		i0[a] = bracket(ax[a], l.Stride, pc[a])
		i1 := i0
		i1[a]++
		v0, v1 := at(i0), at(i1)
		if (v0 < 0) == (v1 < 0) {
			return false, fmt.Sprintf("end point on lattice edge %v-%v whose end values %g, %g do not straddle zero", i0, i1, v0, v1)
		}
		c0, c1 := ax[a][i0[a]*l.Stride], ax[a][i1[a]*l.Stride]
		s := (pc[a] - c0) / (c1 - c0)
		flin := v0 + s*(v1-v0)
		want := c0 + v0/(v0-v1)*(c1-c0)
		if math.Abs(flin) <= ftol || math.Abs(pc[a]-want) <= tol {
			return true, ""
		}
		return false, fmt.Sprintf("end point at fraction %g of lattice edge %v-%v with end values %g, %g: interpolated field there is %g", s, i0, i1, v0, v1, flin)
	}
	return false, fmt.Sprintf("end point %v is not on a lattice edge", p)
}
