//go:build !vsched

package lattice

import (
	"github.com/deadsy/sdfx/render"
	"github.com/deadsy/sdfx/sdf"
)

// Collect2 runs a Render2 into an in-memory buffer and returns the segments.
func Collect2(s sdf.SDF2, r render.Render2) []*sdf.Line2 {
	var lines []*sdf.Line2
	out := make(chan []*sdf.Line2)
	done := make(chan struct{})
	go func() {
		for ls := range out {
			lines = append(lines, ls...)
		}
		close(done)
	}()
	r.Render(s, sdf.NewLine2Buffer(out))
	close(out)
	<-done
	return lines
}
