//go:build vsched

package lattice

import (
	"github.com/deadsy/sdfx/render"
	"github.com/deadsy/sdfx/sdf"
	"github.com/deadsy/sdfx/verifrt/vsync"
)

// Collect2 runs a Render2 into an in-memory buffer and returns the segments (scheduler build: the
// channel and the consumer are scheduler objects).
func Collect2(s sdf.SDF2, r render.Render2) []*sdf.Line2 {
	var lines []*sdf.Line2
	out := vsync.MakeChan[[]*sdf.Line2]()
	var wg vsync.WaitGroup
	wg.Add(1)
	vsync.Go(func() {
		defer wg.Done()
		for {
			ls, ok := out.Recv2()
			if !ok {
				return
			}
			lines = append(lines, ls...)
		}
	})
	r.Render(s, sdf.NewLine2Buffer(out))
	out.Close()
	wg.Wait()
	return lines
}
