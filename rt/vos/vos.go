//go:build verif

// Package vos replaces package os in the rewritten render/stl.go and render/svg.go: an in-memory file
// system with a fault plan (create failure, a byte limit that makes a write fall short at any offset,
// seek failure, failure of writes after the seek, close failure).
package vos

import (
	"errors"
	"io"
	"io/fs"
	"sort"
	"time"
)

// Plan is the fault plan consulted by every file operation.
type Plan struct {
	FailCreate     bool
	Limit          int64 // maximum file size in bytes; a write beyond it is short and fails (-1: unlimited)
	FailSeek       bool
	FailAfterSeek  bool // writes after a successful Seek fail (the header rewrite)
	FailClose      bool
	MissingDirs    bool // Create fails with ENOENT-like error
	Fired          map[string]int
	WritesObserved int
}

// Current is the active plan.
var Current = &Plan{Limit: -1, Fired: map[string]int{}}

// Files is the in-memory file system.
var Files = map[string]*Data{}

// Data is the content of one file.
type Data struct {
	B      []byte
	Closed int
}

// Reset empties the file system and installs a plan.
func Reset(p *Plan) {
	Files = map[string]*Data{}
	if p == nil {
		p = &Plan{Limit: -1}
	}
	if p.Fired == nil {
		p.Fired = map[string]int{}
	}
	Current = p
}

// Names lists the files.
func Names() []string {
	var n []string
	for k := range Files {
		n = append(n, k)
	}
	sort.Strings(n)
	return n
}

// File replaces os.File.
type File struct {
	name   string
	d      *Data
	pos    int64
	seeked bool
	closed bool
}

var errInjected = errors.New("vos: injected fault")

// ErrNoSpace is returned by writes beyond the limit.
var ErrNoSpace = errors.New("vos: no space left on device / file size limit")

// Create replaces os.Create.
func Create(name string) (*File, error) {
	if Current.FailCreate {
		Current.Fired["create"]++
		return nil, &fs.PathError{Op: "open", Path: name, Err: errInjected}
	}
	d := &Data{}
	Files[name] = d
	return &File{name: name, d: d}, nil
}

// Open replaces os.Open.
func Open(name string) (*File, error) {
	d, ok := Files[name]
	if !ok {
		return nil, &fs.PathError{Op: "open", Path: name, Err: fs.ErrNotExist}
	}
	return &File{name: name, d: d}, nil
}

// Write implements io.Writer with the byte limit of the plan.
func (f *File) Write(p []byte) (int, error) {
	Current.WritesObserved++
	if f.closed {
		return 0, fs.ErrClosed
	}
	if f.seeked && Current.FailAfterSeek {
		Current.Fired["write-after-seek"]++
		return 0, errInjected
	}
	n := len(p)
	var err error
	if Current.Limit >= 0 && f.pos+int64(n) > Current.Limit {
		n = int(Current.Limit - f.pos)
		if n < 0 {
			n = 0
		}
		err = ErrNoSpace
		Current.Fired["limit"]++
	}
	end := f.pos + int64(n)
	if int64(len(f.d.B)) < end {
		f.d.B = append(f.d.B, make([]byte, end-int64(len(f.d.B)))...)
	}
	copy(f.d.B[f.pos:end], p[:n])
	f.pos = end
	return n, err
}

// Read implements io.Reader.
// WriteAt / ReadAt / Sync / Truncate: the remaining *os.File methods a writer may reasonably use; a positional
// write is subject to the same byte limit and does not move the offset.
func (f *File) WriteAt(p []byte, off int64) (int, error) {
	Current.WritesObserved++
	if f.closed {
		return 0, fs.ErrClosed
	}
	if off < 0 {
		return 0, errInjected
	}
	n := len(p)
	var err error
	if Current.Limit >= 0 && off+int64(n) > Current.Limit {
		n = int(Current.Limit - off)
		if n < 0 {
			n = 0
		}
		err = ErrNoSpace
		Current.Fired["limit"]++
	}
	end := off + int64(n)
	if int64(len(f.d.B)) < end {
		f.d.B = append(f.d.B, make([]byte, end-int64(len(f.d.B)))...)
	}
	copy(f.d.B[off:end], p[:n])
	return n, err
}

func (f *File) ReadAt(p []byte, off int64) (int, error) {
	if off >= int64(len(f.d.B)) {
		return 0, io.EOF
	}
	n := copy(p, f.d.B[off:])
	if n < len(p) {
		return n, io.EOF
	}
	return n, nil
}

func (f *File) Sync() error { return nil }

func (f *File) Truncate(size int64) error {
	if size < int64(len(f.d.B)) {
		f.d.B = f.d.B[:size]
	}
	for int64(len(f.d.B)) < size {
		f.d.B = append(f.d.B, 0)
	}
	return nil
}

func (f *File) Read(p []byte) (int, error) {
	if f.pos >= int64(len(f.d.B)) {
		return 0, io.EOF
	}
	n := copy(p, f.d.B[f.pos:])
	f.pos += int64(n)
	return n, nil
}

// Seek implements io.Seeker.
func (f *File) Seek(off int64, whence int) (int64, error) {
	if Current.FailSeek {
		Current.Fired["seek"]++
		return 0, errInjected
	}
	switch whence {
	case io.SeekStart:
		f.pos = off
	case io.SeekCurrent:
		f.pos += off
	case io.SeekEnd:
		f.pos = int64(len(f.d.B)) + off
	}
	f.seeked = true
	return f.pos, nil
}

// Close closes the file.
func (f *File) Close() error {
	f.closed = true
	f.d.Closed++
	if Current.FailClose {
		Current.Fired["close"]++
		return errInjected
	}
	return nil
}

type info struct {
	name string
	size int64
}

func (i info) Name() string       { return i.name }
func (i info) Size() int64        { return i.size }
func (i info) Mode() fs.FileMode  { return 0o644 }
func (i info) ModTime() time.Time { return time.Time{} }
func (i info) IsDir() bool        { return false }
func (i info) Sys() any           { return nil }

// Stat replaces (*os.File).Stat.
func (f *File) Stat() (fs.FileInfo, error) {
	return info{f.name, int64(len(f.d.B))}, nil
}

// FileMode mirrors os.FileMode.
type FileMode = fs.FileMode

// Flags mirroring package os (so that code using os.OpenFile still builds against vos).
const (
	O_RDONLY = 0x0
	O_WRONLY = 0x1
	O_RDWR   = 0x2
	O_APPEND = 0x400
	O_CREATE = 0x40
	O_EXCL   = 0x80
	O_TRUNC  = 0x200
)

// OpenFile replaces os.OpenFile.
func OpenFile(name string, flag int, perm FileMode) (*File, error) {
	if flag&O_CREATE != 0 {
		if Current.FailCreate {
			Current.Fired["create"]++
			return nil, &fs.PathError{Op: "open", Path: name, Err: errInjected}
		}
		d, ok := Files[name]
		if !ok {
			d = &Data{}
			Files[name] = d
		}
		if flag&O_TRUNC != 0 {
			d.B = nil
		}
		f := &File{name: name, d: d}
		if flag&O_APPEND != 0 {
			f.pos = int64(len(d.B))
		}
		return f, nil
	}
	return Open(name)
}
