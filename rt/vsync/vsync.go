//go:build verif

// Package vsync is the controlled scheduler of Engine S.  The concurrent files of sdfx are rewritten
// (by /verif/cmd/vrewrite, through a go build overlay) to use these types instead of sync.*, native
// channels and go statements.  In Explore mode every logical goroutine is a real goroutine that only
// runs while it holds the baton; before each visible operation it publishes the operation and the
// scheduler decides which enabled thread runs next.  In Pass mode every type delegates to the real
// primitive (used for the conformance run and the auxiliary free-running pass).
package vsync

import (
	"fmt"
	"hash/fnv"
	"runtime"
	"runtime/debug"
	"sort"
	"strings"
	"sync"
)

// Mode selects pass-through or exploration.
type ModeT int

const (
	Pass ModeT = iota
	Explore
)

// Mode is Pass unless an exploration is running.
var Mode = Pass

// ncpu is what NumCPU() answers (the harness decides the worker count).
var ncpu = 2

// SetNumCPU sets the answer of NumCPU.
func SetNumCPU(n int) { ncpu = n }

// NumCPU replaces runtime.NumCPU in the rewritten code.
func NumCPU() int { return ncpu }

type opKind uint8

const (
	opNone opKind = iota
	opResume
	opStart
	opGo
	opLock
	opUnlock
	opRLock
	opRUnlock
	opWgAdd
	opWgDone
	opWgWait
	opOnce
	opSend
	opRecv
	opClose
	opYield
)

var opNames = [...]string{"none", "resume", "start", "go", "lock", "unlock", "rlock", "runlock", "wg.add", "wg.done", "wg.wait", "once", "send", "recv", "close", "yield"}

type object interface {
	oid() int
}

type op struct {
	kind opKind
	obj  object
	ch   chanModel
}

type chanModel interface {
	object
	canSend() bool
	canRecv() bool
	isNil() bool
}

type thread struct {
	id    int
	wake  chan struct{}
	dead  chan struct{}
	pend  op
	done  bool
	since int // step at which the thread started waiting (FIFO among waiters)
	// rendezvous completion
	rval any
	rok  bool
	sval any
	name string
	h    uint64   // happens-before hash of the thread's own history
	vc   []uint32 // vector clock (data race detection)
}

func vcJoin(a, b []uint32) []uint32 {
	for len(a) < len(b) {
		a = append(a, 0)
	}
	for i, x := range b {
		if x > a[i] {
			a[i] = x
		}
	}
	return a
}

func vcCopy(a []uint32) []uint32 { return append([]uint32(nil), a...) }

func (t *thread) tick() {
	for len(t.vc) <= t.id {
		t.vc = append(t.vc, 0)
	}
	t.vc[t.id]++
}

// acquire / release implement the happens-before edges of the synchronisation operations.
func acquire(ovc []uint32) {
	s.cur.vc = vcJoin(s.cur.vc, ovc)
}

func release(ovc *[]uint32) {
	t := s.cur
	*ovc = vcJoin(*ovc, t.vc)
	t.tick()
}

type locState struct {
	wT    int
	wC    uint32
	reads map[int]uint32
}

func (t *thread) saw(o int, c uint32) bool { return o < len(t.vc) && t.vc[o] >= c }

func access(p any, label string, write bool) {
	if Mode == Pass || s == nil || s.killing {
		return
	}
	t := s.cur
	if len(t.vc) <= t.id {
		t.tick()
	}
	if write {
		s.x.Writes++
	} else {
		s.x.Reads++
	}
	l := s.locs[p]
	if l == nil {
		l = &locState{wT: -1, reads: map[int]uint32{}}
		s.locs[p] = l
	}
	race := ""
	if l.wT >= 0 && l.wT != t.id && !t.saw(l.wT, l.wC) {
		race = fmt.Sprintf("write by T%d", l.wT)
	}
	if write && race == "" {
		for rt, rc := range l.reads {
			if rt != t.id && !t.saw(rt, rc) {
				race = fmt.Sprintf("read by T%d", rt)
				break
			}
		}
	}
	if race != "" && !s.raced[label] {
		s.raced[label] = true
		kind := "read"
		if write {
			kind = "write"
		}
		s.x.Races = append(s.x.Races, label)
		s.fault(fmt.Sprintf("data race on %s: %s by T%d(%s) is not ordered after the %s", label, kind, t.id, t.name, race))
	}
	if write {
		l.wT, l.wC = t.id, t.vc[t.id]
		l.reads = map[int]uint32{}
	} else {
		l.reads[t.id] = t.vc[t.id]
	}
}

// R records a read of shared state (inserted by vrewrite).
func R(p any, label string) { access(p, label, false) }

// W records a write of shared state (inserted by vrewrite).
func W(p any, label string) { access(p, label, true) }

func mix(a uint64, bs ...uint64) uint64 {
	for _, b := range bs {
		a ^= b + 0x9e3779b97f4a7c15 + (a << 6) + (a >> 2)
		a *= 0xbf58476d1ce4e5b9
		a ^= a >> 29
	}
	return a
}

type killSentinel struct{}

// Point is one recorded choice point.
type Point struct {
	N          int  // number of enabled threads
	CurEnabled bool // the running thread could have continued
	Chosen     int
}

// Execution is what one run of the body looked like.
type Execution struct {
	Points    []Point
	Choices   []int
	Faults    []string
	Deadlock  bool
	Leaked    int // threads still parked when the main thread returned
	LeakedOps []string
	Steps     int
	TraceHash uint64
	Threads   int
	Trace     []string // only when Options.KeepTrace
	Preempt   int
	Races     []string // labels of shared state accessed without happens-before ordering
	LockOps   int      // mutex / rwmutex / once operations performed
	Writes    int      // instrumented write events
	Reads     int      // instrumented read events
	Pruned    bool     // abandoned because an equivalent state had been explored with at least the same budget
}

type sched struct {
	threads   []*thread
	cur       *thread
	prefix    []int
	pos       int
	x         *Execution
	killing   bool
	epoch     uint64
	nextOID   int
	finished  chan struct{}
	horizon   int
	keep      bool
	h         uint64
	diverged  string
	initiator *thread // the thread that started unwinding the execution
	mem       uint64  // hash of the order of explicit yields (they stand for unsynchronised memory accesses)
	objs      []keyed
	visited   map[uint64]int
	bound     int
	policy    func(n int, curEnabled bool) int // choice beyond the prefix (nil: option 0)
	locs      map[any]*locState
	raced     map[string]bool
}

type keyed interface {
	key() uint64
}

var s *sched
var epochCounter uint64

// passGoroutines counts goroutines started in Pass mode.  Such a goroutine may still be running when an
// exploration starts and would then enter the scheduler unannounced, so exploring is refused.
var passGoroutines int

// ---------------------------------------------------------------------------------------------

func (sc *sched) trace(t *thread, o op) {
	id := -1
	if o.obj != nil {
		id = o.obj.oid()
	}
	hh := fnv.New64a()
	fmt.Fprintf(hh, "%d|%d|%d|%d", sc.h, t.id, o.kind, id)
	sc.h = hh.Sum64()
	if sc.keep {
		sc.x.Trace = append(sc.x.Trace, fmt.Sprintf("T%d %s #%d", t.id, opNames[o.kind], id))
	}
}

func (sc *sched) enabled(t *thread) bool {
	if t.done {
		return false
	}
	o := t.pend
	switch o.kind {
	case opNone:
		return false
	case opResume, opStart, opGo, opUnlock, opRUnlock, opWgAdd, opWgDone, opYield, opClose:
		return true
	case opLock:
		switch m := o.obj.(type) {
		case *Mutex:
			return !m.locked
		case *RWMutex:
			return !m.w && m.r == 0
		}
	case opRLock:
		return !o.obj.(*RWMutex).w
	case opWgWait:
		return o.obj.(*WaitGroup).n == 0
	case opOnce:
		oc := o.obj.(*Once)
		return oc.state != 1 // not while another thread is inside f
	case opSend:
		if o.ch.isNil() {
			return false
		}
		return o.ch.canSend()
	case opRecv:
		if o.ch.isNil() {
			return false
		}
		return o.ch.canRecv()
	}
	return false
}

// stateKey hashes the global state at a scheduling point: every live thread's history hash and pending
// operation (as a multiset: threads with equal histories are interchangeable) and every object's hash.
func (sc *sched) stateKey() uint64 {
	var ts []uint64
	for _, t := range sc.threads {
		if t.done {
			continue
		}
		id := uint64(0)
		if t.pend.obj != nil {
			id = uint64(t.pend.obj.oid() + 3)
		}
		ts = append(ts, mix(t.h, uint64(t.pend.kind), id))
	}
	sort.Slice(ts, func(i, j int) bool { return ts[i] < ts[j] })
	k := mix(0x5bd1e995, ts...)
	for _, o := range sc.objs {
		k = mix(k, o.key())
	}
	return mix(k, sc.mem)
}

// choose picks the next thread among the enabled ones; cur (if non-nil and enabled) is option 0.
// pruned reports that the state reached here was already explored with at least the remaining budget.
func (sc *sched) choose(cur *thread) (next *thread, pruned bool) {
	var en []*thread
	curEn := cur != nil && sc.enabled(cur)
	if curEn {
		en = append(en, cur)
	}
	for _, t := range sc.threads {
		if t != cur && sc.enabled(t) {
			en = append(en, t)
		}
	}
	if len(en) == 0 {
		return nil, false
	}
	idx := 0
	if len(en) > 1 {
		if sc.pos < len(sc.prefix) {
			idx = sc.prefix[sc.pos]
			if idx >= len(en) {
				sc.diverged = fmt.Sprintf("replay divergence at choice %d: prefix wants option %d of %d", sc.pos, idx, len(en))
				idx = 0
			}
		} else if sc.policy != nil {
			idx = sc.policy(len(en), curEn)
			if idx < 0 || idx >= len(en) {
				idx = 0
			}
		} else if sc.visited != nil {
			left := 1 << 30
			if sc.bound >= 0 {
				left = sc.bound - sc.x.Preempt
			}
			k := sc.stateKey()
			if cur != nil {
				k = mix(k, uint64(cur.id)+1, 7)
			}
			if b, ok := sc.visited[k]; ok && b >= left {
				return nil, true
			}
			sc.visited[k] = left
		}
		sc.pos++
		sc.x.Points = append(sc.x.Points, Point{N: len(en), CurEnabled: curEn, Chosen: idx})
		sc.x.Choices = append(sc.x.Choices, idx)
		if curEn && idx > 0 {
			sc.x.Preempt++
		}
	}
	return en[idx], false
}

// step is called by the running thread before a visible operation.  It returns when the thread has
// been chosen to perform it.
func (sc *sched) step(o op) {
	t := sc.cur
	if sc.killing {
		return
	}
	t.pend = o
	t.since = sc.x.Steps
	sc.x.Steps++
	if sc.x.Steps > sc.horizon {
		sc.fault("step horizon exceeded (livelock?)")
		sc.endExecution(t)
	}
	next, pruned := sc.choose(t)
	if pruned {
		sc.x.Pruned = true
		sc.endExecution(t)
	}
	if next == nil {
		sc.x.Deadlock = true
		sc.fault("deadlock: no enabled thread; " + sc.describe())
		sc.endExecution(t)
	}
	if next != t {
		sc.cur = next
		next.wake <- struct{}{}
		<-t.wake
		if sc.killing {
			panic(killSentinel{})
		}
		sc.cur = t
	}
	sc.trace(t, t.pend)
	t.pend = op{}
}

func (sc *sched) describe() string {
	var b strings.Builder
	for _, t := range sc.threads {
		if t.done {
			continue
		}
		id := -1
		if t.pend.obj != nil {
			id = t.pend.obj.oid()
		}
		fmt.Fprintf(&b, "T%d(%s) waits in %s #%d; ", t.id, t.name, opNames[t.pend.kind], id)
	}
	return b.String()
}

func (sc *sched) fault(f string) {
	sc.x.Faults = append(sc.x.Faults, f)
}

// endExecution is called by the running thread r to abandon the execution (deadlock, horizon): all other
// threads are unwound, then r itself unwinds.
func (sc *sched) endExecution(r *thread) {
	sc.initiator = r
	sc.killOthers(r)
	panic(killSentinel{})
}

func (sc *sched) killOthers(r *thread) {
	sc.killing = true
	for _, t := range sc.threads {
		if t == r || t.done {
			continue
		}
		t.wake <- struct{}{}
		<-t.dead
	}
}

func (sc *sched) wrapper(t *thread, f func()) {
	<-t.wake
	if sc.killing {
		t.done = true
		t.dead <- struct{}{}
		return
	}
	sc.cur = t
	sc.trace(t, op{kind: opStart})
	t.pend = op{}
	killed := false
	func() {
		defer func() {
			if v := recover(); v != nil {
				if _, ok := v.(killSentinel); ok {
					killed = true
					return
				}
				if sc.killing {
					killed = true
					return
				}
				st := string(debug.Stack())
				sc.fault(fmt.Sprintf("panic in T%d(%s): %v\n%s", t.id, t.name, v, firstFrames(st)))
			}
		}()
		f()
	}()
	t.done = true
	if killed || (sc.killing && sc.initiator != nil) {
		if sc.initiator == t {
			sc.finished <- struct{}{}
		} else {
			t.dead <- struct{}{}
		}
		return
	}
	sc.threadGone(t)
}

// threadGone handles the exit of thread t.
func (sc *sched) threadGone(t *thread) {
	if t.id == 0 {
		// main returned: leak census, unwind the rest, end of execution
		for _, o := range sc.threads {
			if !o.done {
				sc.x.Leaked++
				id := -1
				if o.pend.obj != nil {
					id = o.pend.obj.oid()
				}
				sc.x.LeakedOps = append(sc.x.LeakedOps, fmt.Sprintf("T%d(%s) in %s #%d", o.id, o.name, opNames[o.pend.kind], id))
			}
		}
		sc.initiator = t
		sc.killOthers(t)
		sc.finished <- struct{}{}
		return
	}
	// an ordinary thread finished: hand the baton on
	sc.x.Steps++
	next, pruned := sc.choose(nil)
	if pruned {
		sc.x.Pruned = true
		sc.initiator = t
		sc.killOthers(t)
		sc.finished <- struct{}{}
		return
	}
	if next == nil {
		sc.x.Deadlock = true
		sc.fault("deadlock: no enabled thread after exit of T" + fmt.Sprint(t.id) + "; " + sc.describe())
		sc.initiator = t
		sc.killOthers(t)
		sc.finished <- struct{}{}
		return
	}
	sc.cur = next
	next.wake <- struct{}{}
}

func firstFrames(st string) string {
	lines := strings.Split(st, "\n")
	var out []string
	for _, l := range lines {
		if strings.Contains(l, "github.com/deadsy/sdfx/") && !strings.Contains(l, "verifrt/vsync") {
			out = append(out, strings.TrimSpace(l))
			if len(out) >= 6 {
				break
			}
		}
	}
	return strings.Join(out, "\n")
}

func (sc *sched) newThread(name string, f func()) *thread {
	t := &thread{id: len(sc.threads), wake: make(chan struct{}), dead: make(chan struct{}), name: name}
	t.pend = op{kind: opStart}
	sc.threads = append(sc.threads, t)
	sc.x.Threads++
	go sc.wrapper(t, f)
	return t
}

// run executes body once under the scheduler, replaying prefix and then taking option 0.
func run(prefix []int, horizon int, keep bool, body func(), visited map[uint64]int, bound int) *Execution {
	if passGoroutines > 0 {
		panic("vsync: goroutines were started in Pass mode before an exploration; run setup code under RunOnce")
	}
	epochCounter++
	sc := &sched{prefix: prefix, x: &Execution{}, epoch: epochCounter, finished: make(chan struct{}), horizon: horizon, keep: keep, visited: visited, bound: bound, policy: pendingPolicy, locs: map[any]*locState{}, raced: map[string]bool{}}
	s = sc
	Mode = Explore
	t0 := sc.newThread("main", body)
	sc.cur = t0
	t0.wake <- struct{}{}
	<-sc.finished
	Mode = Pass
	s = nil
	sc.x.TraceHash = sc.h
	if sc.diverged != "" {
		sc.x.Faults = append(sc.x.Faults, "HARNESS: "+sc.diverged)
	}
	return sc.x
}

// Options control an exploration.
type Options struct {
	Bound     int // maximum number of preemptions (-1 = unbounded)
	Horizon   int // maximum scheduler steps per execution
	MaxExec   int64
	Shard     int
	NShards   int
	KeepTrace bool
	Stop      func() bool // polled between executions (deadline)
	// Prune enables happens-before state hashing: an execution is abandoned at a scheduling point whose
	// global state (multiset of thread history hashes + object hashes) was already reached with at
	// least the same remaining preemption budget.  Sound for data-race-free code whose thread-local
	// state is a function of the thread's own synchronisation history.
	Prune bool
	// ShallowFirst explores the alternatives of the earliest choice points first (the set of schedules explored
	// is the same; when an exploration is cut by MaxExec or the deadline, what was covered by then deviates from
	// the default schedule early rather than only in its tail).
	ShallowFirst bool
	// SymmetricSpawn lists function names whose spawned goroutines are interchangeable (identical
	// closures without captured per-goroutine data): they start with equal history hashes.
	SymmetricSpawn []string
}

var symSites []string

// Stats summarises an exploration.
type Stats struct {
	Executions  int64
	ChoicePts   int64
	Steps       int64
	MaxPoints   int
	MaxThreads  int
	Distinct    map[uint64]int64 // trace hash -> count
	WithChoice  int64            // executions with at least one choice point
	Capped      bool
	BoundDone   int
	Pruned      int64
	MaxPreempt  int
	NonDetermin string
}

// ExploreAll runs body under every schedule with at most opt.Bound preemptions (iterative DFS over
// choice prefixes) and calls after for each execution.  after returning false stops the exploration.
func ExploreAll(opt Options, body func(), after func(x *Execution, prefix []int) bool) *Stats {
	if opt.Horizon == 0 {
		opt.Horizon = 1000000
	}
	if opt.NShards == 0 {
		opt.NShards = 1
	}
	st := &Stats{Distinct: map[uint64]int64{}, BoundDone: opt.Bound}
	// determinism self-check: the default schedule twice
	a := run(nil, opt.Horizon, false, body, nil, 0)
	b := run(nil, opt.Horizon, false, body, nil, 0)
	if a.TraceHash != b.TraceHash || len(a.Points) != len(b.Points) {
		st.NonDetermin = fmt.Sprintf("default schedule is not deterministic: trace %x (%d points) vs %x (%d points)", a.TraceHash, len(a.Points), b.TraceHash, len(b.Points))
		return st
	}
	type item struct {
		prefix []int
		cost   int
	}
	stack := []item{{nil, 0}}
	rootChildren := 0
	var visited map[uint64]int
	if opt.Prune {
		visited = map[uint64]int{}
		symSites = opt.SymmetricSpawn
	}
	for len(stack) > 0 {
		it := stack[len(stack)-1]
		stack = stack[:len(stack)-1]
		if opt.Stop != nil && opt.Stop() || (opt.MaxExec > 0 && st.Executions >= opt.MaxExec) {
			st.Capped = true
			break
		}
		x := run(it.prefix, opt.Horizon, opt.KeepTrace, body, visited, opt.Bound)
		isRoot := len(it.prefix) == 0
		if x.Pruned {
			st.Pruned++
		}
		if (!isRoot || opt.Shard == 0) && !x.Pruned {
			st.Executions++
			st.ChoicePts += int64(len(x.Points))
			st.Steps += int64(x.Steps)
			st.Distinct[x.TraceHash]++
			if len(x.Points) > 0 {
				st.WithChoice++
			}
			if len(x.Points) > st.MaxPoints {
				st.MaxPoints = len(x.Points)
			}
			if x.Threads > st.MaxThreads {
				st.MaxThreads = x.Threads
			}
			if x.Preempt > st.MaxPreempt {
				st.MaxPreempt = x.Preempt
			}
			if !after(x, it.prefix) {
				st.Capped = true
				break
			}
		}
		// children: alternatives at every point after the prefix
		costAt := make([]int, len(x.Points))
		cost := 0
		for i := 0; i < len(x.Points); i++ {
			costAt[i] = cost
			if p := x.Points[i]; p.CurEnabled && p.Chosen > 0 {
				cost++
			}
		}
		push := func(i int) {
			p := x.Points[i]
			for alt := p.N - 1; alt >= 1; alt-- {
				c := costAt[i]
				if p.CurEnabled {
					c++
				}
				if opt.Bound >= 0 && c > opt.Bound {
					continue
				}
				if isRoot {
					rootChildren++
					if rootChildren%opt.NShards != opt.Shard {
						continue
					}
				}
				np := make([]int, i+1)
				copy(np, x.Choices[:i])
				np[i] = alt
				stack = append(stack, item{np, c})
			}
		}
		if opt.ShallowFirst {
			for i := len(x.Points) - 1; i >= len(it.prefix); i-- {
				push(i)
			}
		} else {
			for i := len(it.prefix); i < len(x.Points); i++ {
				push(i)
			}
		}
	}
	return st
}

// RunPolicy executes body once, resolving every choice with policy (e.g. "always the last enabled
// thread", which lets spawned workers run before their creator continues).
func RunPolicy(policy func(n int, curEnabled bool) int, body func()) *Execution {
	pendingPolicy = policy
	defer func() { pendingPolicy = nil }()
	return run(nil, 1000000, false, body, nil, 0)
}

var pendingPolicy func(n int, curEnabled bool) int

// RunOnce executes body under one given schedule prefix (replay).
func RunOnce(prefix []int, keepTrace bool, body func()) *Execution {
	return run(prefix, 1000000, keepTrace, body, nil, 0)
}

// ---------------------------------------------------------------------------------------------
// objects

type base struct {
	id    int
	epoch uint64
	h     uint64
	vc    []uint32
}

func (b *base) oid() int { return b.id }

// touch (re)initialises the model state of an object at its first use in an execution.
func (b *base) touch() bool {
	if b.epoch != s.epoch {
		b.epoch = s.epoch
		b.id = s.nextOID
		s.nextOID++
		b.h = mix(0xabcdef, uint64(b.id))
		b.vc = nil
		return true
	}
	return false
}

// hb records operation k of the running thread on an object with history hash *oh: both histories
// absorb each other (pre-values), so that only the order of operations on the same object matters.
func hb(k opKind, oh *uint64) {
	s.x.LockOps++
	t := s.cur
	th, o := t.h, *oh
	t.h = mix(th, uint64(k), o)
	*oh = mix(o, uint64(k), th)
}

// Mutex replaces sync.Mutex.
type Mutex struct {
	base
	real   sync.Mutex
	locked bool
}

func (m *Mutex) Lock() {
	if Mode == Pass {
		m.real.Lock()
		return
	}
	if s.killing {
		return
	}
	if m.touch() {
		m.locked = false
		s.objs = append(s.objs, m)
	}
	s.step(op{kind: opLock, obj: m})
	m.locked = true
	hb(opLock, &m.h)
	acquire(m.vc)
}

func (m *Mutex) key() uint64 {
	if m.locked {
		return mix(uint64(m.id), m.h, 1)
	}
	return mix(uint64(m.id), m.h, 0)
}

func (m *Mutex) Unlock() {
	if Mode == Pass {
		m.real.Unlock()
		return
	}
	if s.killing {
		return
	}
	if m.touch() {
		m.locked = false
		s.objs = append(s.objs, m)
	}
	s.step(op{kind: opUnlock, obj: m})
	if !m.locked {
		s.fault("unlock of unlocked mutex")
	}
	m.locked = false
	hb(opUnlock, &m.h)
	release(&m.vc)
}

// RWMutex replaces sync.RWMutex.
type RWMutex struct {
	base
	real sync.RWMutex
	w    bool
	r    int
}

func (m *RWMutex) init() {
	if m.touch() {
		m.w, m.r = false, 0
		s.objs = append(s.objs, m)
	}
}

func (m *RWMutex) key() uint64 {
	w := uint64(0)
	if m.w {
		w = 1
	}
	return mix(uint64(m.id), m.h, w, uint64(m.r))
}

func (m *RWMutex) Lock() {
	if Mode == Pass {
		m.real.Lock()
		return
	}
	if s.killing {
		return
	}
	m.init()
	s.step(op{kind: opLock, obj: m})
	m.w = true
	hb(opLock, &m.h)
	acquire(m.vc)
}

func (m *RWMutex) Unlock() {
	if Mode == Pass {
		m.real.Unlock()
		return
	}
	if s.killing {
		return
	}
	m.init()
	s.step(op{kind: opUnlock, obj: m})
	if !m.w {
		s.fault("unlock of unlocked rwmutex")
	}
	m.w = false
	hb(opUnlock, &m.h)
	release(&m.vc)
}

func (m *RWMutex) RLock() {
	if Mode == Pass {
		m.real.RLock()
		return
	}
	if s.killing {
		return
	}
	m.init()
	s.step(op{kind: opRLock, obj: m})
	m.r++
	hb(opRLock, &m.h)
	acquire(m.vc)
}

func (m *RWMutex) RUnlock() {
	if Mode == Pass {
		m.real.RUnlock()
		return
	}
	if s.killing {
		return
	}
	m.init()
	s.step(op{kind: opRUnlock, obj: m})
	if m.r <= 0 {
		s.fault("runlock of unlocked rwmutex")
	}
	m.r--
	hb(opRUnlock, &m.h)
	release(&m.vc)
}

// WaitGroup replaces sync.WaitGroup.
type WaitGroup struct {
	base
	real sync.WaitGroup
	n    int
}

func (w *WaitGroup) Add(d int) {
	if Mode == Pass {
		w.real.Add(d)
		return
	}
	if s.killing {
		return
	}
	if w.touch() {
		w.n = 0
		s.objs = append(s.objs, w)
	}
	s.step(op{kind: opWgAdd, obj: w})
	w.h += mix(s.cur.h, uint64(opWgAdd), uint64(d)) // Add/Done commute with each other
	s.cur.h = mix(s.cur.h, uint64(opWgAdd), uint64(d))
	w.n += d
	if w.n < 0 {
		s.fault("negative WaitGroup counter")
	}
}

func (w *WaitGroup) Done() {
	if Mode == Pass {
		w.real.Done()
		return
	}
	if s.killing {
		return
	}
	if w.touch() {
		w.n = 0
		s.objs = append(s.objs, w)
	}
	s.step(op{kind: opWgDone, obj: w})
	w.h += mix(s.cur.h, uint64(opWgDone))
	s.cur.h = mix(s.cur.h, uint64(opWgDone))
	release(&w.vc)
	w.n--
	if w.n < 0 {
		s.fault("negative WaitGroup counter")
	}
}

func (w *WaitGroup) Wait() {
	if Mode == Pass {
		w.real.Wait()
		return
	}
	if s.killing {
		return
	}
	if w.touch() {
		w.n = 0
		s.objs = append(s.objs, w)
	}
	s.step(op{kind: opWgWait, obj: w})
	s.cur.h = mix(s.cur.h, uint64(opWgWait), w.h)
	acquire(w.vc)
}

func (w *WaitGroup) key() uint64 { return mix(uint64(w.id), w.h, uint64(w.n+1000)) }

// Once replaces sync.Once.
type Once struct {
	base
	real  sync.Once
	state int // 0 not started, 1 running, 2 done
}

func (o *Once) Do(f func()) {
	if Mode == Pass {
		o.real.Do(f)
		return
	}
	if s.killing {
		return
	}
	if o.touch() {
		o.state = 0
		s.objs = append(s.objs, o)
	}
	s.step(op{kind: opOnce, obj: o})
	hb(opOnce, &o.h)
	if o.state == 2 {
		acquire(o.vc)
		return
	}
	o.state = 1
	defer func() {
		o.state = 2
		if s != nil && !s.killing {
			hb(opOnce, &o.h)
			release(&o.vc)
		}
	}()
	f()
}

func (o *Once) key() uint64 { return mix(uint64(o.id), o.h, uint64(o.state)) }

// Chan replaces a native channel of element type T.
type Chan[T any] struct {
	base
	real   chan T
	cap    int
	buf    []T
	bufh   []uint64   // history hash carried by each buffered item
	bufvc  [][]uint32 // vector clock carried by each buffered item
	closed bool
	hs, hr uint64 // send-side and receive-side history chains
}

func (c *Chan[T]) key() uint64 {
	cl := uint64(0)
	if c.closed {
		cl = 1
	}
	return mix(uint64(c.id), c.hs, c.hr, uint64(len(c.buf)), cl)
}

// MakeChan replaces make(chan T, n).
func MakeChan[T any](n ...int) *Chan[T] {
	c := &Chan[T]{}
	if len(n) > 0 {
		c.cap = n[0]
	}
	c.real = make(chan T, c.cap)
	return c
}

func (c *Chan[T]) isNil() bool { return c == nil }

// Cap replaces cap(ch); Len replaces len(ch) (the number of buffered items; no scheduling point of its own).
func (c *Chan[T]) Cap() int {
	if c == nil {
		return 0
	}
	return c.cap
}

func (c *Chan[T]) Len() int {
	if c == nil {
		return 0
	}
	if Mode == Pass {
		return len(c.real)
	}
	return len(c.buf)
}

func (c *Chan[T]) init() {
	if c.touch() {
		c.buf, c.bufh, c.bufvc, c.closed = nil, nil, nil, false
		c.hs, c.hr = c.h, mix(c.h, 1)
		s.objs = append(s.objs, c)
	}
}

func (c *Chan[T]) canSend() bool {
	c.init()
	if c.closed {
		return true // will fault
	}
	if c.cap > 0 && len(c.buf) < c.cap {
		return true
	}
	// rendezvous: a receiver must be waiting (the sender is not s.cur while parked, so look at all)
	for _, t := range s.threads {
		if !t.done && t.pend.kind == opRecv && t.pend.obj == object(c) {
			return true
		}
	}
	return false
}

func (c *Chan[T]) canRecv() bool {
	c.init()
	if len(c.buf) > 0 || c.closed {
		return true
	}
	// an unbuffered receive completes through the sender's transition (a parked receiver is completed
	// by the sender); with a buffered channel a blocked sender could also complete us, handled there.
	return false
}

// Send replaces c <- v.
func (c *Chan[T]) Send(v T) {
	if Mode == Pass {
		c.real <- v
		return
	}
	if s.killing {
		return
	}
	if c == nil {
		s.step(op{kind: opSend, obj: nilObj{}, ch: nilChan{}})
		return
	}
	c.init()
	me := s.cur
	s.step(op{kind: opSend, obj: c, ch: c})
	if c.closed {
		panic("send on closed channel")
	}
	// hand directly to the oldest waiting receiver if any
	var r *thread
	for _, t := range s.threads {
		if !t.done && t != me && t.pend.kind == opRecv && t.pend.obj == object(c) {
			if r == nil || t.since < r.since {
				r = t
			}
		}
	}
	sh := me.h
	item := mix(c.hs, sh)
	me.h = mix(sh, uint64(opSend), c.hs)
	c.hs = mix(c.hs, uint64(opSend), sh)
	ivc := vcCopy(me.vc)
	if r != nil && len(c.buf) == 0 {
		r.rval, r.rok = v, true
		r.pend = op{kind: opResume}
		rh := r.h
		r.h = mix(rh, uint64(opRecv), item, c.hr)
		c.hr = mix(c.hr, rh)
		// rendezvous: the send happens before the receive completes, and (unbuffered) the receive
		// happens before the send completes
		rvc := vcCopy(r.vc)
		r.vc = vcJoin(r.vc, ivc)
		r.tick()
		if c.cap == 0 {
			me.vc = vcJoin(me.vc, rvc)
		}
		me.tick()
		return
	}
	c.buf = append(c.buf, v)
	c.bufh = append(c.bufh, item)
	c.bufvc = append(c.bufvc, ivc)
	me.tick()
}

// Recv2 replaces v, ok := <-c.
func (c *Chan[T]) Recv2() (T, bool) {
	var zero T
	if Mode == Pass {
		v, ok := <-c.real
		return v, ok
	}
	if s.killing {
		return zero, false
	}
	if c == nil {
		s.step(op{kind: opRecv, obj: nilObj{}, ch: nilChan{}})
		return zero, false
	}
	c.init()
	me := s.cur
	me.rval, me.rok = nil, false
	s.step(op{kind: opRecv, obj: c, ch: c})
	if me.rok {
		// completed by a sender's rendezvous while we were parked
		v := me.rval.(T)
		me.rval, me.rok = nil, false
		return v, true
	}
	if len(c.buf) > 0 {
		v := c.buf[0]
		c.buf = c.buf[1:]
		rh := me.h
		me.h = mix(rh, uint64(opRecv), c.bufh[0], c.hr)
		c.hr = mix(c.hr, rh)
		c.bufh = c.bufh[1:]
		me.vc = vcJoin(me.vc, c.bufvc[0])
		c.bufvc = c.bufvc[1:]
		return v, true
	}
	if c.closed {
		me.h = mix(me.h, uint64(opRecv), 0xdead, c.hs)
		acquire(c.vc)
		return zero, false
	}
	panic("vsync: receive chosen while not enabled")
}

// Recv replaces <-c.
func (c *Chan[T]) Recv() T {
	v, _ := c.Recv2()
	return v
}

// Close replaces close(c).
func (c *Chan[T]) Close() {
	if Mode == Pass {
		close(c.real)
		return
	}
	if s.killing {
		return
	}
	if c == nil {
		panic("close of nil channel")
	}
	c.init()
	s.step(op{kind: opClose, obj: c, ch: c})
	if c.closed {
		panic("close of closed channel")
	}
	c.closed = true
	th := s.cur.h
	s.cur.h = mix(th, uint64(opClose))
	c.hs = mix(c.hs, uint64(opClose), th)
	release(&c.vc)
}

type nilObj struct{}

func (nilObj) oid() int { return -2 }

type nilChan struct{ nilObj }

func (nilChan) canSend() bool { return false }
func (nilChan) canRecv() bool { return false }
func (nilChan) isNil() bool   { return true }

// Go replaces the go statement.
func Go(f func()) {
	if Mode == Pass {
		passGoroutines++
		go f()
		return
	}
	if s.killing {
		return
	}
	s.step(op{kind: opGo})
	p := s.cur
	name := "go"
	if pc, _, _, ok := runtime.Caller(1); ok {
		if fn := runtime.FuncForPC(pc); fn != nil {
			name = fn.Name()
		}
	}
	t := s.newThread(name, f)
	t.h = mix(0x60, p.h, uint64(t.id))
	for _, site := range symSites {
		if strings.Contains(name, site) {
			hh := fnv.New64a()
			hh.Write([]byte(site))
			t.h = mix(0x61, hh.Sum64()) // interchangeable goroutines start with equal histories
		}
	}
	p.h = mix(p.h, uint64(opGo))
	t.vc = vcCopy(p.vc)
	t.tick()
	p.tick()
}

// Yield is an explicit scheduling point placed by harness code.
func Yield() {
	if Mode == Pass || s == nil || s.killing {
		return
	}
	s.step(op{kind: opYield})
	th := s.cur.h
	s.cur.h = mix(th, uint64(opYield), s.mem)
	s.mem = mix(s.mem, th)
}

// Choice is an environment answer that the explorer enumerates like a scheduling decision (option 0 is the
// default): n alternatives, none of them a preemption.  The running thread's history absorbs the answer, so
// state hashing distinguishes executions that received different answers.
func Choice(n int) int {
	if Mode == Pass || s == nil || s.killing || n <= 1 {
		return 0
	}
	sc := s
	idx := 0
	if sc.pos < len(sc.prefix) {
		idx = sc.prefix[sc.pos]
		if idx >= n {
			sc.diverged = fmt.Sprintf("replay divergence at choice %d: prefix wants answer %d of %d", sc.pos, idx, n)
			idx = 0
		}
	} else if sc.policy != nil {
		idx = sc.policy(n, false)
		if idx < 0 || idx >= n {
			idx = 0
		}
	}
	sc.pos++
	sc.x.Points = append(sc.x.Points, Point{N: n, CurEnabled: false, Chosen: idx})
	sc.x.Choices = append(sc.x.Choices, idx)
	if sc.cur != nil {
		sc.cur.h = mix(sc.cur.h, 0x9e3779b9, uint64(idx), uint64(n))
	}
	return idx
}

// Pool replaces sync.Pool.  Whether Get still finds an item that was Put earlier is up to the garbage
// collector: under exploration it is an environment answer (reuse the most recently Put item / the pool was
// emptied), so both histories are explored.
type Pool struct {
	base
	New   func() any
	real  sync.Pool
	items []any
}

func (p *Pool) Get() any {
	if Mode == Pass || s == nil {
		p.real.New = p.New
		return p.real.Get()
	}
	if s.killing {
		return nil
	}
	if p.touch() {
		p.items = nil
	}
	if n := len(p.items); n > 0 {
		if Choice(2) == 0 {
			x := p.items[n-1]
			p.items = p.items[:n-1]
			return x
		}
		p.items = nil
	}
	if p.New != nil {
		return p.New()
	}
	return nil
}

func (p *Pool) Put(x any) {
	if Mode == Pass || s == nil {
		p.real.Put(x)
		return
	}
	if s.killing {
		return
	}
	if p.touch() {
		p.items = nil
	}
	p.items = append(p.items, x)
}

// CurThread is the id of the running logical thread (-1 in Pass mode).
func CurThread() int {
	if Mode == Pass || s == nil {
		return -1
	}
	return s.cur.id
}

// Fault lets harness code record a fault of the current execution.
func Fault(f string) {
	if s != nil {
		s.fault(f)
	}
}
