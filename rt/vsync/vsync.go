//go:build verif

// Package vsync is the controlled scheduler of Engine S.  The concurrent files of sdfx are rewritten
// (by /verif/cmd/vrewrite, through a go build overlay) to use these types instead of sync.*, native
// channels and go statements.  In Explore mode every logical goroutine is a real goroutine that only
// runs while it holds the baton; before each visible operation it publishes the operation and the
// scheduler decides which enabled thread runs next.  In Pass mode every type delegates to the real
// primitive (used for the conformance run and the auxiliary free-running pass).
package vsync

import (
	"fmt"
	"hash/fnv"
	"runtime/debug"
	"strings"
	"sync"
)

// Mode selects pass-through or exploration.
type ModeT int

const (
	Pass ModeT = iota
	Explore
)

// Mode is Pass unless an exploration is running.
var Mode = Pass

// ncpu is what NumCPU() answers (the harness decides the worker count).
var ncpu = 2

// SetNumCPU sets the answer of NumCPU.
func SetNumCPU(n int) { ncpu = n }

// NumCPU replaces runtime.NumCPU in the rewritten code.
func NumCPU() int { return ncpu }

type opKind uint8

const (
	opNone opKind = iota
	opResume
	opStart
	opGo
	opLock
	opUnlock
	opRLock
	opRUnlock
	opWgAdd
	opWgDone
	opWgWait
	opOnce
	opSend
	opRecv
	opClose
	opYield
)

var opNames = [...]string{"none", "resume", "start", "go", "lock", "unlock", "rlock", "runlock", "wg.add", "wg.done", "wg.wait", "once", "send", "recv", "close", "yield"}

type object interface {
	oid() int
}

type op struct {
	kind opKind
	obj  object
	ch   chanModel
}

type chanModel interface {
	object
	canSend() bool
	canRecv() bool
	isNil() bool
}

type thread struct {
	id    int
	wake  chan struct{}
	dead  chan struct{}
	pend  op
	done  bool
	since int // step at which the thread started waiting (FIFO among waiters)
	// rendezvous completion
	rval any
	rok  bool
	sval any
	name string
}

type killSentinel struct{}

// Point is one recorded choice point.
type Point struct {
	N          int  // number of enabled threads
	CurEnabled bool // the running thread could have continued
	Chosen     int
}

// Execution is what one run of the body looked like.
type Execution struct {
	Points    []Point
	Choices   []int
	Faults    []string
	Deadlock  bool
	Leaked    int // threads still parked when the main thread returned
	LeakedOps []string
	Steps     int
	TraceHash uint64
	Threads   int
	Trace     []string // only when Options.KeepTrace
	Preempt   int
}

type sched struct {
	threads  []*thread
	cur      *thread
	prefix   []int
	pos      int
	x        *Execution
	killing  bool
	epoch    uint64
	nextOID  int
	finished chan struct{}
	horizon  int
	keep     bool
	h        uint64
	diverged string
	initiator *thread // the thread that started unwinding the execution
}

var s *sched
var epochCounter uint64

// ---------------------------------------------------------------------------------------------

func (sc *sched) trace(t *thread, o op) {
	id := -1
	if o.obj != nil {
		id = o.obj.oid()
	}
	hh := fnv.New64a()
	fmt.Fprintf(hh, "%d|%d|%d|%d", sc.h, t.id, o.kind, id)
	sc.h = hh.Sum64()
	if sc.keep {
		sc.x.Trace = append(sc.x.Trace, fmt.Sprintf("T%d %s #%d", t.id, opNames[o.kind], id))
	}
}

func (sc *sched) enabled(t *thread) bool {
	if t.done {
		return false
	}
	o := t.pend
	switch o.kind {
	case opNone:
		return false
	case opResume, opStart, opGo, opUnlock, opRUnlock, opWgAdd, opWgDone, opYield, opClose:
		return true
	case opLock:
		switch m := o.obj.(type) {
		case *Mutex:
			return !m.locked
		case *RWMutex:
			return !m.w && m.r == 0
		}
	case opRLock:
		return !o.obj.(*RWMutex).w
	case opWgWait:
		return o.obj.(*WaitGroup).n == 0
	case opOnce:
		oc := o.obj.(*Once)
		return oc.state != 1 // not while another thread is inside f
	case opSend:
		if o.ch.isNil() {
			return false
		}
		return o.ch.canSend()
	case opRecv:
		if o.ch.isNil() {
			return false
		}
		return o.ch.canRecv()
	}
	return false
}

// choose picks the next thread among the enabled ones; cur (if non-nil and enabled) is option 0.
func (sc *sched) choose(cur *thread) *thread {
	var en []*thread
	curEn := cur != nil && sc.enabled(cur)
	if curEn {
		en = append(en, cur)
	}
	for _, t := range sc.threads {
		if t != cur && sc.enabled(t) {
			en = append(en, t)
		}
	}
	if len(en) == 0 {
		return nil
	}
	idx := 0
	if len(en) > 1 {
		if sc.pos < len(sc.prefix) {
			idx = sc.prefix[sc.pos]
			if idx >= len(en) {
				sc.diverged = fmt.Sprintf("replay divergence at choice %d: prefix wants option %d of %d", sc.pos, idx, len(en))
				idx = 0
			}
		}
		sc.pos++
		sc.x.Points = append(sc.x.Points, Point{N: len(en), CurEnabled: curEn, Chosen: idx})
		sc.x.Choices = append(sc.x.Choices, idx)
		if curEn && idx > 0 {
			sc.x.Preempt++
		}
	}
	return en[idx]
}

// step is called by the running thread before a visible operation.  It returns when the thread has
// been chosen to perform it.
func (sc *sched) step(o op) {
	t := sc.cur
	if sc.killing {
		return
	}
	t.pend = o
	t.since = sc.x.Steps
	sc.x.Steps++
	if sc.x.Steps > sc.horizon {
		sc.fault("step horizon exceeded (livelock?)")
		sc.endExecution(t)
	}
	next := sc.choose(t)
	if next == nil {
		sc.x.Deadlock = true
		sc.fault("deadlock: no enabled thread; " + sc.describe())
		sc.endExecution(t)
	}
	if next != t {
		sc.cur = next
		next.wake <- struct{}{}
		<-t.wake
		if sc.killing {
			panic(killSentinel{})
		}
		sc.cur = t
	}
	sc.trace(t, t.pend)
	t.pend = op{}
}

func (sc *sched) describe() string {
	var b strings.Builder
	for _, t := range sc.threads {
		if t.done {
			continue
		}
		id := -1
		if t.pend.obj != nil {
			id = t.pend.obj.oid()
		}
		fmt.Fprintf(&b, "T%d(%s) waits in %s #%d; ", t.id, t.name, opNames[t.pend.kind], id)
	}
	return b.String()
}

func (sc *sched) fault(f string) {
	sc.x.Faults = append(sc.x.Faults, f)
}

// endExecution is called by the running thread r to abandon the execution (deadlock, horizon): all other
// threads are unwound, then r itself unwinds.
func (sc *sched) endExecution(r *thread) {
	sc.initiator = r
	sc.killOthers(r)
	panic(killSentinel{})
}

func (sc *sched) killOthers(r *thread) {
	sc.killing = true
	for _, t := range sc.threads {
		if t == r || t.done {
			continue
		}
		t.wake <- struct{}{}
		<-t.dead
	}
}

func (sc *sched) wrapper(t *thread, f func()) {
	<-t.wake
	if sc.killing {
		t.done = true
		t.dead <- struct{}{}
		return
	}
	sc.cur = t
	sc.trace(t, op{kind: opStart})
	t.pend = op{}
	killed := false
	func() {
		defer func() {
			if v := recover(); v != nil {
				if _, ok := v.(killSentinel); ok {
					killed = true
					return
				}
				if sc.killing {
					killed = true
					return
				}
				st := string(debug.Stack())
				sc.fault(fmt.Sprintf("panic in T%d(%s): %v\n%s", t.id, t.name, v, firstFrames(st)))
			}
		}()
		f()
	}()
	t.done = true
	if killed || (sc.killing && sc.initiator != nil) {
		if sc.initiator == t {
			sc.finished <- struct{}{}
		} else {
			t.dead <- struct{}{}
		}
		return
	}
	sc.threadGone(t)
}

// threadGone handles the exit of thread t.
func (sc *sched) threadGone(t *thread) {
	if t.id == 0 {
		// main returned: leak census, unwind the rest, end of execution
		for _, o := range sc.threads {
			if !o.done {
				sc.x.Leaked++
				id := -1
				if o.pend.obj != nil {
					id = o.pend.obj.oid()
				}
				sc.x.LeakedOps = append(sc.x.LeakedOps, fmt.Sprintf("T%d(%s) in %s #%d", o.id, o.name, opNames[o.pend.kind], id))
			}
		}
		sc.initiator = t
		sc.killOthers(t)
		sc.finished <- struct{}{}
		return
	}
	// an ordinary thread finished: hand the baton on
	sc.x.Steps++
	next := sc.choose(nil)
	if next == nil {
		sc.x.Deadlock = true
		sc.fault("deadlock: no enabled thread after exit of T" + fmt.Sprint(t.id) + "; " + sc.describe())
		sc.initiator = t
		sc.killOthers(t)
		sc.finished <- struct{}{}
		return
	}
	sc.cur = next
	next.wake <- struct{}{}
}

func firstFrames(st string) string {
	lines := strings.Split(st, "\n")
	var out []string
	for _, l := range lines {
		if strings.Contains(l, "github.com/deadsy/sdfx/") && !strings.Contains(l, "verifrt/vsync") {
			out = append(out, strings.TrimSpace(l))
			if len(out) >= 6 {
				break
			}
		}
	}
	return strings.Join(out, "\n")
}

func (sc *sched) newThread(name string, f func()) *thread {
	t := &thread{id: len(sc.threads), wake: make(chan struct{}), dead: make(chan struct{}), name: name}
	t.pend = op{kind: opStart}
	sc.threads = append(sc.threads, t)
	sc.x.Threads++
	go sc.wrapper(t, f)
	return t
}

// run executes body once under the scheduler, replaying prefix and then taking option 0.
func run(prefix []int, horizon int, keep bool, body func()) *Execution {
	epochCounter++
	sc := &sched{prefix: prefix, x: &Execution{}, epoch: epochCounter, finished: make(chan struct{}), horizon: horizon, keep: keep}
	s = sc
	Mode = Explore
	t0 := sc.newThread("main", body)
	sc.cur = t0
	t0.wake <- struct{}{}
	<-sc.finished
	Mode = Pass
	s = nil
	sc.x.TraceHash = sc.h
	if sc.diverged != "" {
		sc.x.Faults = append(sc.x.Faults, "HARNESS: "+sc.diverged)
	}
	return sc.x
}

// Options control an exploration.
type Options struct {
	Bound     int // maximum number of preemptions (-1 = unbounded)
	Horizon   int // maximum scheduler steps per execution
	MaxExec   int64
	Shard     int
	NShards   int
	KeepTrace bool
	Stop      func() bool // polled between executions (deadline)
}

// Stats summarises an exploration.
type Stats struct {
	Executions  int64
	ChoicePts   int64
	Steps       int64
	MaxPoints   int
	MaxThreads  int
	Distinct    map[uint64]int64 // trace hash -> count
	WithChoice  int64            // executions with at least one choice point
	Capped      bool
	BoundDone   int
	Pruned      int64
	MaxPreempt  int
	NonDetermin string
}

// ExploreAll runs body under every schedule with at most opt.Bound preemptions (iterative DFS over
// choice prefixes) and calls after for each execution.  after returning false stops the exploration.
func ExploreAll(opt Options, body func(), after func(x *Execution, prefix []int) bool) *Stats {
	if opt.Horizon == 0 {
		opt.Horizon = 1000000
	}
	if opt.NShards == 0 {
		opt.NShards = 1
	}
	st := &Stats{Distinct: map[uint64]int64{}, BoundDone: opt.Bound}
	// determinism self-check: the default schedule twice
	a := run(nil, opt.Horizon, false, body)
	b := run(nil, opt.Horizon, false, body)
	if a.TraceHash != b.TraceHash || len(a.Points) != len(b.Points) {
		st.NonDetermin = fmt.Sprintf("default schedule is not deterministic: trace %x (%d points) vs %x (%d points)", a.TraceHash, len(a.Points), b.TraceHash, len(b.Points))
		return st
	}
	type item struct {
		prefix []int
		cost   int
	}
	stack := []item{{nil, 0}}
	rootChildren := 0
	for len(stack) > 0 {
		it := stack[len(stack)-1]
		stack = stack[:len(stack)-1]
		if opt.Stop != nil && opt.Stop() || (opt.MaxExec > 0 && st.Executions >= opt.MaxExec) {
			st.Capped = true
			break
		}
		x := run(it.prefix, opt.Horizon, opt.KeepTrace, body)
		isRoot := len(it.prefix) == 0
		if !isRoot || opt.Shard == 0 {
			st.Executions++
			st.ChoicePts += int64(len(x.Points))
			st.Steps += int64(x.Steps)
			st.Distinct[x.TraceHash]++
			if len(x.Points) > 0 {
				st.WithChoice++
			}
			if len(x.Points) > st.MaxPoints {
				st.MaxPoints = len(x.Points)
			}
			if x.Threads > st.MaxThreads {
				st.MaxThreads = x.Threads
			}
			if x.Preempt > st.MaxPreempt {
				st.MaxPreempt = x.Preempt
			}
			if !after(x, it.prefix) {
				st.Capped = true
				break
			}
		}
		// children: alternatives at every point after the prefix
		cost := 0
		for i := 0; i < len(x.Points); i++ {
			p := x.Points[i]
			if i >= len(it.prefix) {
				for alt := p.N - 1; alt >= 1; alt-- {
					c := cost
					if p.CurEnabled {
						c++
					}
					if opt.Bound >= 0 && c > opt.Bound {
						continue
					}
					if isRoot {
						rootChildren++
						if rootChildren%opt.NShards != opt.Shard {
							continue
						}
					}
					np := make([]int, i+1)
					copy(np, x.Choices[:i])
					np[i] = alt
					stack = append(stack, item{np, c})
				}
			}
			if p.CurEnabled && p.Chosen > 0 {
				cost++
			}
		}
	}
	return st
}

// RunOnce executes body under one given schedule prefix (replay).
func RunOnce(prefix []int, keepTrace bool, body func()) *Execution {
	return run(prefix, 1000000, keepTrace, body)
}

// ---------------------------------------------------------------------------------------------
// objects

type base struct {
	id    int
	epoch uint64
}

func (b *base) oid() int { return b.id }

// touch (re)initialises the model state of an object at its first use in an execution.
func (b *base) touch() bool {
	if b.epoch != s.epoch {
		b.epoch = s.epoch
		b.id = s.nextOID
		s.nextOID++
		return true
	}
	return false
}

// Mutex replaces sync.Mutex.
type Mutex struct {
	base
	real   sync.Mutex
	locked bool
}

func (m *Mutex) Lock() {
	if Mode == Pass {
		m.real.Lock()
		return
	}
	if s.killing {
		return
	}
	if m.touch() {
		m.locked = false
	}
	s.step(op{kind: opLock, obj: m})
	m.locked = true
}

func (m *Mutex) Unlock() {
	if Mode == Pass {
		m.real.Unlock()
		return
	}
	if s.killing {
		return
	}
	if m.touch() {
		m.locked = false
	}
	s.step(op{kind: opUnlock, obj: m})
	if !m.locked {
		s.fault("unlock of unlocked mutex")
	}
	m.locked = false
}

// RWMutex replaces sync.RWMutex.
type RWMutex struct {
	base
	real sync.RWMutex
	w    bool
	r    int
}

func (m *RWMutex) init() {
	if m.touch() {
		m.w, m.r = false, 0
	}
}

func (m *RWMutex) Lock() {
	if Mode == Pass {
		m.real.Lock()
		return
	}
	if s.killing {
		return
	}
	m.init()
	s.step(op{kind: opLock, obj: m})
	m.w = true
}

func (m *RWMutex) Unlock() {
	if Mode == Pass {
		m.real.Unlock()
		return
	}
	if s.killing {
		return
	}
	m.init()
	s.step(op{kind: opUnlock, obj: m})
	if !m.w {
		s.fault("unlock of unlocked rwmutex")
	}
	m.w = false
}

func (m *RWMutex) RLock() {
	if Mode == Pass {
		m.real.RLock()
		return
	}
	if s.killing {
		return
	}
	m.init()
	s.step(op{kind: opRLock, obj: m})
	m.r++
}

func (m *RWMutex) RUnlock() {
	if Mode == Pass {
		m.real.RUnlock()
		return
	}
	if s.killing {
		return
	}
	m.init()
	s.step(op{kind: opRUnlock, obj: m})
	if m.r <= 0 {
		s.fault("runlock of unlocked rwmutex")
	}
	m.r--
}

// WaitGroup replaces sync.WaitGroup.
type WaitGroup struct {
	base
	real sync.WaitGroup
	n    int
}

func (w *WaitGroup) Add(d int) {
	if Mode == Pass {
		w.real.Add(d)
		return
	}
	if s.killing {
		return
	}
	if w.touch() {
		w.n = 0
	}
	s.step(op{kind: opWgAdd, obj: w})
	w.n += d
	if w.n < 0 {
		s.fault("negative WaitGroup counter")
	}
}

func (w *WaitGroup) Done() {
	if Mode == Pass {
		w.real.Done()
		return
	}
	if s.killing {
		return
	}
	if w.touch() {
		w.n = 0
	}
	s.step(op{kind: opWgDone, obj: w})
	w.n--
	if w.n < 0 {
		s.fault("negative WaitGroup counter")
	}
}

func (w *WaitGroup) Wait() {
	if Mode == Pass {
		w.real.Wait()
		return
	}
	if s.killing {
		return
	}
	if w.touch() {
		w.n = 0
	}
	s.step(op{kind: opWgWait, obj: w})
}

// Once replaces sync.Once.
type Once struct {
	base
	real  sync.Once
	state int // 0 not started, 1 running, 2 done
}

func (o *Once) Do(f func()) {
	if Mode == Pass {
		o.real.Do(f)
		return
	}
	if s.killing {
		return
	}
	if o.touch() {
		o.state = 0
	}
	s.step(op{kind: opOnce, obj: o})
	if o.state == 2 {
		return
	}
	o.state = 1
	defer func() { o.state = 2 }()
	f()
}

// Chan replaces a native channel of element type T.
type Chan[T any] struct {
	base
	real   chan T
	cap    int
	buf    []T
	closed bool
}

// MakeChan replaces make(chan T, n).
func MakeChan[T any](n ...int) *Chan[T] {
	c := &Chan[T]{}
	if len(n) > 0 {
		c.cap = n[0]
	}
	c.real = make(chan T, c.cap)
	return c
}

func (c *Chan[T]) isNil() bool { return c == nil }

func (c *Chan[T]) init() {
	if c.touch() {
		c.buf, c.closed = nil, false
	}
}

func (c *Chan[T]) canSend() bool {
	c.init()
	if c.closed {
		return true // will fault
	}
	if c.cap > 0 && len(c.buf) < c.cap {
		return true
	}
	// rendezvous: a receiver must be waiting (the sender is not s.cur while parked, so look at all)
	for _, t := range s.threads {
		if !t.done && t.pend.kind == opRecv && t.pend.obj == object(c) {
			return true
		}
	}
	return false
}

func (c *Chan[T]) canRecv() bool {
	c.init()
	if len(c.buf) > 0 || c.closed {
		return true
	}
	// an unbuffered receive completes through the sender's transition (a parked receiver is completed
	// by the sender); with a buffered channel a blocked sender could also complete us, handled there.
	return false
}

// Send replaces c <- v.
func (c *Chan[T]) Send(v T) {
	if Mode == Pass {
		c.real <- v
		return
	}
	if s.killing {
		return
	}
	if c == nil {
		s.step(op{kind: opSend, obj: nilObj{}, ch: nilChan{}})
		return
	}
	c.init()
	me := s.cur
	s.step(op{kind: opSend, obj: c, ch: c})
	if c.closed {
		panic("send on closed channel")
	}
	// hand directly to the oldest waiting receiver if any
	var r *thread
	for _, t := range s.threads {
		if !t.done && t != me && t.pend.kind == opRecv && t.pend.obj == object(c) {
			if r == nil || t.since < r.since {
				r = t
			}
		}
	}
	if r != nil && len(c.buf) == 0 {
		r.rval, r.rok = v, true
		r.pend = op{kind: opResume}
		return
	}
	c.buf = append(c.buf, v)
}

// Recv2 replaces v, ok := <-c.
func (c *Chan[T]) Recv2() (T, bool) {
	var zero T
	if Mode == Pass {
		v, ok := <-c.real
		return v, ok
	}
	if s.killing {
		return zero, false
	}
	if c == nil {
		s.step(op{kind: opRecv, obj: nilObj{}, ch: nilChan{}})
		return zero, false
	}
	c.init()
	me := s.cur
	me.rval, me.rok = nil, false
	s.step(op{kind: opRecv, obj: c, ch: c})
	if me.rok {
		// completed by a sender's rendezvous while we were parked
		v := me.rval.(T)
		me.rval, me.rok = nil, false
		return v, true
	}
	if len(c.buf) > 0 {
		v := c.buf[0]
		c.buf = c.buf[1:]
		return v, true
	}
	if c.closed {
		return zero, false
	}
	panic("vsync: receive chosen while not enabled")
}

// Recv replaces <-c.
func (c *Chan[T]) Recv() T {
	v, _ := c.Recv2()
	return v
}

// Close replaces close(c).
func (c *Chan[T]) Close() {
	if Mode == Pass {
		close(c.real)
		return
	}
	if s.killing {
		return
	}
	if c == nil {
		panic("close of nil channel")
	}
	c.init()
	s.step(op{kind: opClose, obj: c, ch: c})
	if c.closed {
		panic("close of closed channel")
	}
	c.closed = true
}

type nilObj struct{}

func (nilObj) oid() int { return -2 }

type nilChan struct{ nilObj }

func (nilChan) canSend() bool { return false }
func (nilChan) canRecv() bool { return false }
func (nilChan) isNil() bool   { return true }

// Go replaces the go statement.
func Go(f func()) {
	if Mode == Pass {
		go f()
		return
	}
	if s.killing {
		return
	}
	s.step(op{kind: opGo})
	s.newThread("go", f)
}

// Yield is an explicit scheduling point placed by harness code.
func Yield() {
	if Mode == Pass || s == nil || s.killing {
		return
	}
	s.step(op{kind: opYield})
}

// CurThread is the id of the running logical thread (-1 in Pass mode).
func CurThread() int {
	if Mode == Pass || s == nil {
		return -1
	}
	return s.cur.id
}

// Fault lets harness code record a fault of the current execution.
func Fault(f string) {
	if s != nil {
		s.fault(f)
	}
}
