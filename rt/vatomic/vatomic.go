// Package vatomic replaces sync/atomic in the files rewritten by vrewrite: every atomic operation is a
// read-modify-write under a scheduler-visible lock of its own (two scheduling points), so the explorer
// interleaves other threads before and after it.  This models sequentially consistent atomics; it adds a
// happens-before edge from every operation to the next one on the same variable (also from a load to a later
// store, which real atomics do not give), so the in-scheduler race detector may miss a race that is ordered only
// through such a pair - values and interleavings are exact.
package vatomic

import (
	"unsafe"

	"github.com/deadsy/sdfx/verifrt/vsync"
)

type number interface {
	~int32 | ~int64 | ~uint32 | ~uint64 | ~uintptr
}

type cell[T number] struct {
	mu vsync.Mutex
	v  T
}

func (c *cell[T]) Load() T    { c.mu.Lock(); v := c.v; c.mu.Unlock(); return v }
func (c *cell[T]) Store(v T)  { c.mu.Lock(); c.v = v; c.mu.Unlock() }
func (c *cell[T]) Swap(v T) T { c.mu.Lock(); o := c.v; c.v = v; c.mu.Unlock(); return o }
func (c *cell[T]) Add(d T) T  { c.mu.Lock(); c.v += d; v := c.v; c.mu.Unlock(); return v }
func (c *cell[T]) CompareAndSwap(o, n T) bool {
	c.mu.Lock()
	ok := c.v == o
	if ok {
		c.v = n
	}
	c.mu.Unlock()
	return ok
}

// Int32 etc. replace the types of sync/atomic.
type Int32 struct{ cell[int32] }
type Int64 struct{ cell[int64] }
type Uint32 struct{ cell[uint32] }
type Uint64 struct{ cell[uint64] }
type Uintptr struct{ cell[uintptr] }

// Bool replaces atomic.Bool.
type Bool struct {
	mu vsync.Mutex
	v  bool
}

func (b *Bool) Load() bool   { b.mu.Lock(); v := b.v; b.mu.Unlock(); return v }
func (b *Bool) Store(v bool) { b.mu.Lock(); b.v = v; b.mu.Unlock() }
func (b *Bool) Swap(v bool) bool {
	b.mu.Lock()
	o := b.v
	b.v = v
	b.mu.Unlock()
	return o
}
func (b *Bool) CompareAndSwap(o, n bool) bool {
	b.mu.Lock()
	ok := b.v == o
	if ok {
		b.v = n
	}
	b.mu.Unlock()
	return ok
}

// Pointer replaces atomic.Pointer[T].
type Pointer[T any] struct {
	mu vsync.Mutex
	v  *T
}

func (p *Pointer[T]) Load() *T   { p.mu.Lock(); v := p.v; p.mu.Unlock(); return v }
func (p *Pointer[T]) Store(v *T) { p.mu.Lock(); p.v = v; p.mu.Unlock() }
func (p *Pointer[T]) Swap(v *T) *T {
	p.mu.Lock()
	o := p.v
	p.v = v
	p.mu.Unlock()
	return o
}
func (p *Pointer[T]) CompareAndSwap(o, n *T) bool {
	p.mu.Lock()
	ok := p.v == o
	if ok {
		p.v = n
	}
	p.mu.Unlock()
	return ok
}

// Value replaces atomic.Value.
type Value struct {
	mu vsync.Mutex
	v  any
}

func (x *Value) Load() any   { x.mu.Lock(); v := x.v; x.mu.Unlock(); return v }
func (x *Value) Store(v any) { x.mu.Lock(); x.v = v; x.mu.Unlock() }

// function forms on plain variables: one lock per address
var locks = map[unsafe.Pointer]*vsync.Mutex{}
var locksMu vsync.Mutex // taken only in pass-through mode, where threads really run in parallel

func lockOf(p unsafe.Pointer) *vsync.Mutex {
	if vsync.Mode == vsync.Pass {
		locksMu.Lock()
		defer locksMu.Unlock()
	}
	m := locks[p]
	if m == nil {
		m = &vsync.Mutex{}
		locks[p] = m
	}
	return m
}

func load[T any](a *T) T     { m := lockOf(unsafe.Pointer(a)); m.Lock(); v := *a; m.Unlock(); return v }
func store[T any](a *T, v T) { m := lockOf(unsafe.Pointer(a)); m.Lock(); *a = v; m.Unlock() }
func swap[T any](a *T, v T) T {
	m := lockOf(unsafe.Pointer(a))
	m.Lock()
	o := *a
	*a = v
	m.Unlock()
	return o
}
func add[T number](a *T, d T) T {
	m := lockOf(unsafe.Pointer(a))
	m.Lock()
	*a += d
	v := *a
	m.Unlock()
	return v
}
func cas[T comparable](a *T, o, n T) bool {
	m := lockOf(unsafe.Pointer(a))
	m.Lock()
	ok := *a == o
	if ok {
		*a = n
	}
	m.Unlock()
	return ok
}

func LoadInt32(a *int32) int32                         { return load(a) }
func LoadInt64(a *int64) int64                         { return load(a) }
func LoadUint32(a *uint32) uint32                      { return load(a) }
func LoadUint64(a *uint64) uint64                      { return load(a) }
func StoreInt32(a *int32, v int32)                     { store(a, v) }
func StoreInt64(a *int64, v int64)                     { store(a, v) }
func StoreUint32(a *uint32, v uint32)                  { store(a, v) }
func StoreUint64(a *uint64, v uint64)                  { store(a, v) }
func SwapInt32(a *int32, v int32) int32                { return swap(a, v) }
func SwapInt64(a *int64, v int64) int64                { return swap(a, v) }
func SwapUint32(a *uint32, v uint32) uint32            { return swap(a, v) }
func SwapUint64(a *uint64, v uint64) uint64            { return swap(a, v) }
func AddInt32(a *int32, d int32) int32                 { return add(a, d) }
func AddInt64(a *int64, d int64) int64                 { return add(a, d) }
func AddUint32(a *uint32, d uint32) uint32             { return add(a, d) }
func AddUint64(a *uint64, d uint64) uint64             { return add(a, d) }
func CompareAndSwapInt32(a *int32, o, n int32) bool    { return cas(a, o, n) }
func CompareAndSwapInt64(a *int64, o, n int64) bool    { return cas(a, o, n) }
func CompareAndSwapUint32(a *uint32, o, n uint32) bool { return cas(a, o, n) }
func CompareAndSwapUint64(a *uint64, o, n uint64) bool { return cas(a, o, n) }
