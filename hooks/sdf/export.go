//go:build verif

package sdf

import "math/rand"

// VerifSetRand replaces the library-private random source (used by the bezier sampler) so that the
// verification harness owns every random answer.
func VerifSetRand(src rand.Source) {
	sdfRand = rand.New(src)
}

// VerifThreadNames lists every key of the thread database.
func VerifThreadNames() []string {
	var n []string
	for k := range threadDB {
		n = append(n, k)
	}
	return n
}
