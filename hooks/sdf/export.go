//go:build verif

package sdf

import (
	"fmt"
	"math/rand"
)

// VerifSetRand replaces the library-private random source (used by the bezier sampler) so that the
// verification harness owns every random answer.
func VerifSetRand(src rand.Source) {
	sdfRand = rand.New(src)
}

// VerifThreadNames lists every key of the thread database.
func VerifThreadNames() []string {
	var n []string
	for k := range threadDB {
		n = append(n, k)
	}
	return n
}

// VerifQtDump lists the leaves of a polygon quadtree: box and clipped segments.
func VerifQtDump(s SDF2) []string {
	m, ok := s.(*MeshSDF2)
	if !ok {
		return nil
	}
	var out []string
	var rec func(n *qtNode, path string)
	rec = func(n *qtNode, path string) {
		if n == nil {
			return
		}
		if n.leaf != nil {
			for _, li := range n.leaf {
				out = append(out, fmt.Sprintf("%s box %v..%v seg %v -> %v", path, n.box.Min, n.box.Max, li.line[0], li.line[1]))
			}
			return
		}
		for i, c := range n.child {
			rec(c, fmt.Sprintf("%s%d", path, i))
		}
	}
	rec(m.qt, "")
	return out
}
