//go:build verif

package render

import (
	"github.com/deadsy/sdfx/sdf"
	v2 "github.com/deadsy/sdfx/vec/v2"
	v3 "github.com/deadsy/sdfx/vec/v3"
	"github.com/deadsy/sdfx/vec/v2i"
	"github.com/deadsy/sdfx/vec/v3i"
)

// VerifMcToTriangles exposes the per-cell marching cubes step to the verification harness.
func VerifMcToTriangles(p [8]v3.Vec, v [8]float64, x float64) []*sdf.Triangle3 {
	return mcToTriangles(p, v, x)
}

// VerifMsToLines exposes the per-cell marching squares step to the verification harness.
func VerifMsToLines(p [4]v2.Vec, v [4]float64, x float64) []*sdf.Line2 {
	return msToLines(p, v, x)
}

// VerifDcache3 builds the octree renderer's distance cache and returns its evaluate function.
func VerifDcache3(s sdf.SDF3, origin v3.Vec, resolution float64, levels uint) func(x, y, z int) float64 {
	dc := newDcache3(s, origin, resolution, levels)
	return func(x, y, z int) float64 {
		_, d := dc.evaluate(v3i.Vec{X: x, Y: y, Z: z})
		return d
	}
}

// VerifDcache2 builds the quadtree renderer's distance cache and returns its evaluate function.
func VerifDcache2(s sdf.SDF2, origin v2.Vec, resolution float64, levels uint) func(x, y int) float64 {
	dc := newDcache2(s, origin, resolution, levels)
	return func(x, y int) float64 {
		_, d := dc.evaluate(v2i.Vec{X: x, Y: y})
		return d
	}
}
