//go:build verif

package render

import (
	"github.com/deadsy/sdfx/sdf"
	v2 "github.com/deadsy/sdfx/vec/v2"
	v3 "github.com/deadsy/sdfx/vec/v3"
)

// VerifMcToTriangles exposes the per-cell marching cubes step to the verification harness.
func VerifMcToTriangles(p [8]v3.Vec, v [8]float64, x float64) []*sdf.Triangle3 {
	return mcToTriangles(p, v, x)
}

// VerifMsToLines exposes the per-cell marching squares step to the verification harness.
func VerifMsToLines(p [4]v2.Vec, v [4]float64, x float64) []*sdf.Line2 {
	return msToLines(p, v, x)
}
