#!/bin/bash
# confirm_seed.sh <outdir> <seedname> <property> <demo_src_rel> <demo_dest_rel> <needs> -- <go test/run args...>
# Confirms a seeded change in a scratch worktree of /repo HEAD: demo passes without the patch, the patch applies,
# builds, the repository test suite still passes, and the demo fails with it.  Then stores it under /verif/seeded/<seedname>/.
set -u
OUT="$1"; NAME="$2"; PROP="$3"; DSRC="$4"; DDEST="$5"; NEEDS="$6"; shift 7
export GOFLAGS=-mod=mod GOPROXY=off GOSUMDB=off GOTOOLCHAIN=local
WT=/tmp/confirm/$NAME
rm -rf "$WT"; git -C /repo worktree prune; git -C /repo worktree add --detach "$WT" HEAD >/dev/null 2>&1 || { echo "worktree failed"; exit 2; }
cleanup() { git -C /repo worktree remove --force "$WT" >/dev/null 2>&1; }
trap cleanup EXIT
mkdir -p "$(dirname "$WT/$DDEST")"; cp -r "$OUT/$DSRC" "$WT/$DDEST"
cd "$WT"
echo "== demo on unchanged tree (must pass)"; ( "$@" ) > /tmp/confirm/$NAME.pre.log 2>&1; PRE=$?
echo "   exit=$PRE"
if ! git apply --exclude='out/*' "$OUT/patch.diff"; then echo "PATCH DOES NOT APPLY"; exit 2; fi
echo "== build"; go build ./... || { echo BUILD FAILED; exit 2; }
echo "== suite"; go test -vet=off -count=1 ./sdf ./render ./vec/v3 > /tmp/confirm/$NAME.suite.log 2>&1; SUITE=$?
# exclude the demo itself from the suite judgement: rerun with demo removed if it failed
if [ $SUITE -ne 0 ]; then mv "$WT/$DDEST" /tmp/confirm/$NAME.demo.bak; go test -vet=off -count=1 ./sdf ./render ./vec/v3 > /tmp/confirm/$NAME.suite.log 2>&1; SUITE=$?; mv /tmp/confirm/$NAME.demo.bak "$WT/$DDEST"; fi
echo "   suite exit=$SUITE"
echo "== demo with change (must fail)"; ( "$@" ) > /tmp/confirm/$NAME.post.log 2>&1; POST=$?
echo "   exit=$POST"
if [ $PRE -eq 0 ] && [ $SUITE -eq 0 ] && [ $POST -ne 0 ]; then
  D=/verif/seeded/$NAME; mkdir -p $D; cp "$OUT/patch.diff" $D/; cp -r "$OUT/$DSRC" $D/; cp "$OUT/README.md" $D/ 2>/dev/null
  python3 - "$D" "$PROP" "$NEEDS" "$DDEST" "$*" <<'PY'
import json,sys
d,prop,needs,dest,cmd=sys.argv[1:6]
json.dump({"property":prop,"needs_to_manifest":needs,"demo_placement":dest,"demo_cmd":cmd,
 "confirmed":"scratch worktree of /repo HEAD: demo passed without the patch; patch applied, go build ./... ok, go test ./sdf ./render ./vec/v3 passed; demo failed with the patch",
 "source":"independent sub-agent given only the property text"},open(d+"/meta.json","w"),indent=1)
PY
  echo "CONFIRMED -> $D"
else
  echo "NOT CONFIRMED (pre=$PRE suite=$SUITE post=$POST)"; tail -15 /tmp/confirm/$NAME.pre.log /tmp/confirm/$NAME.suite.log | head -60
fi
