#!/bin/bash
# selftest.sh [tier]: regression of the machinery itself.
#  1. every check on the unchanged tree must exit 0 with no VIOLATION line;
#  2. every seeded change (seeded/<ID>-n) and every reverse patch of a fix (mutants/revert-<ID>-*) must make the
#     check of its property exit 1 with a VIOLATION line.
# Writes selftest/RESULT.txt. /repo is left as found (patches are applied with git apply and undone with checkout).
TIER="${1:-quick}"
cd /verif || exit 2
mkdir -p selftest .work
OUT=selftest/RESULT.txt
: > $OUT
if [ -n "$(git -C /repo status --porcelain --untracked-files=no)" ]; then echo "/repo not clean"; exit 2; fi
FAIL=0
echo "== unchanged tree ($(git -C /repo rev-parse --short HEAD)), tier $TIER" >> $OUT
for ID in C01 C02 C03 C04 C05 C06 C07 C08 C09 C10 C11 C12 C13 C14 C15 C16 C17 C18 C19 C20; do
  ./vcheck $ID $TIER > .work/self.$ID.log 2>&1; RC=$?
  NV=$(grep -c '^VIOLATION' .work/self.$ID.log)
  [ $RC -ne 0 -o $NV -ne 0 ] && FAIL=1
  echo "clean $ID exit=$RC violations=$NV known=$(grep -c '^KNOWN-FINDING' .work/self.$ID.log) :: $(tail -1 .work/self.$ID.log | cut -c1-160)" >> $OUT
done
echo "== seeded changes" >> $OUT
for d in seeded/C*/; do
  N=$(basename $d); ID=${N%-*}
  L=$(scripts/seedrun.sh $N $ID quick | head -1)
  case "$L" in *"exit=1 "*) ;; *) FAIL=1;; esac
  echo "$L" >> $OUT
done
echo "== reverse patches of fixes" >> $OUT
for d in mutants/revert-*/; do
  N=$(basename $d); ID=$(echo $N | cut -d- -f2)
  L=$(scripts/mutantrun.sh $N $ID quick | head -1)
  case "$L" in *"check_exit=1 "*) ;; *) FAIL=1;; esac
  echo "$L" >> $OUT
done
echo "== overall: $([ $FAIL -eq 0 ] && echo PASS || echo FAIL)" >> $OUT
tail -1 $OUT
exit $FAIL
