#!/bin/bash
# selftest.sh [lanes]: regression of the machinery itself (quick tier).
#  1. every check on the unchanged tree must exit 0 with no VIOLATION line;
#  2. every seeded change (seeded/<ID>-n) and every reverse patch of a fix (mutants/revert-<ID>-*) must make the
#     check of its property exit 1 with a VIOLATION line (reverse patches: the repository's test suite must pass).
# /repo and /verif are not touched: every lane works in its own scratch worktree of /repo HEAD and its own copy of
# /verif under $SELFROOT (default /tmp/selftest), removed at the end.  Writes selftest/RESULT.txt.
LANES="${1:-3}"
ROOT="${SELFROOT:-/tmp/selftest}"
export GOFLAGS=-mod=mod GOPROXY=off GOSUMDB=off GOTOOLCHAIN=local
cd /verif || exit 2
mkdir -p selftest "$ROOT"
OUT=${SELF_OUT:-selftest/RESULT.txt}
HEAD=$(git -C /repo rev-parse --short HEAD)
# work list
: > "$ROOT/jobs"
for ID in C01 C02 C03 C04 C05 C06 C07 C08 C09 C10 C11 C12 C13 C14 C15 C16 C17 C18 C19 C20; do echo "clean $ID $ID" >> "$ROOT/jobs"; done
for d in seeded/C*/; do N=$(basename $d); echo "seed $N ${N%-*}" >> "$ROOT/jobs"; done
for d in mutants/revert-*/; do N=$(basename $d); echo "mutant $N $(echo $N | cut -d- -f2)" >> "$ROOT/jobs"; done
# SELF_IDS="C01 C11": only the jobs of these properties (used to refresh part of the result file)
if [ -n "$SELF_IDS" ]; then awk -v ids=" $SELF_IDS " 'index(ids, " "$3" ")' "$ROOT/jobs" > "$ROOT/jobs.f"; mv "$ROOT/jobs.f" "$ROOT/jobs"; fi
lane() {
  L=$1; WT="$ROOT/wt$L"; VD="$ROOT/verif$L"
  git -C /repo worktree add --detach "$WT" HEAD >/dev/null 2>&1
  rsync -a --delete --exclude .work --exclude .git --exclude replays --exclude evidence --exclude selftest /verif/ "$VD/"; mkdir -p "$VD/.work" "$VD/evidence"
  awk -v l=$L -v n=$LANES 'NR%n==l%n' "$ROOT/jobs" | while read KIND NAME ID; do
    ( cd "$WT" && git checkout -q -- . )
    SUITE=-
    case $KIND in
      seed)   ( cd "$WT" && git apply --exclude='out/*' /verif/seeded/$NAME/patch.diff ) || { echo "seed=$NAME check=$ID PATCH DOES NOT APPLY" >> "$ROOT/res$L"; continue; } ;;
      mutant) ( cd "$WT" && git apply /verif/mutants/$NAME/patch.diff ) || { echo "mutant=$NAME check=$ID PATCH DOES NOT APPLY" >> "$ROOT/res$L"; continue; }
              ( cd "$WT" && go build ./... && go test -vet=off -count=1 ./sdf ./render ./vec/v3 >/dev/null 2>&1 ); SUITE=$? ;;
    esac
    VERIF_DIR="$VD" VERIF_REPO="$WT" "$VD/vcheck" $ID quick > "$VD/.work/self.$NAME.log" 2>&1; RC=$?
    NV=$(grep -c '^VIOLATION' "$VD/.work/self.$NAME.log")
    case $KIND in
      clean)  echo "clean $ID exit=$RC violations=$NV known=$(grep -c '^KNOWN-FINDING' "$VD/.work/self.$NAME.log") :: $(grep "^$ID tier=" "$VD/.work/self.$NAME.log" | tail -1 | cut -c1-160)" >> "$ROOT/res$L" ;;
      seed)   echo "seed=$NAME check=$ID tier=quick exit=$RC $NV violation lines" >> "$ROOT/res$L" ;;
      mutant) echo "mutant=$NAME check=$ID suite_exit=$SUITE check_exit=$RC $NV violation lines" >> "$ROOT/res$L" ;;
    esac
  done
  git -C /repo worktree remove --force "$WT" >/dev/null 2>&1; rm -rf "$VD"
}
rm -f "$ROOT"/res*
for L in $(seq 1 $LANES); do lane $L & done
wait
{ echo "== tree $HEAD, quick tier, $(wc -l < "$ROOT/jobs") jobs in $LANES lanes (scratch worktrees under $ROOT)"
  echo "== unchanged tree"; cat "$ROOT"/res* | grep '^clean ' | sort
  echo "== seeded changes"; cat "$ROOT"/res* | grep '^seed=' | sort -V
  echo "== reverse patches of fixes"; cat "$ROOT"/res* | grep '^mutant=' | sort; } > $OUT
FAIL=0
grep '^clean ' $OUT | grep -v 'exit=0 violations=0' >/dev/null && FAIL=1
grep '^seed=' $OUT | grep -v 'exit=1 ' >/dev/null && FAIL=1
grep '^mutant=' $OUT | grep -v 'suite_exit=0 check_exit=1 ' >/dev/null && FAIL=1
[ "$(grep -c '^clean \|^seed=\|^mutant=' $OUT)" -eq "$(wc -l < "$ROOT/jobs")" ] || FAIL=1
echo "== overall: $([ $FAIL -eq 0 ] && echo PASS || echo FAIL)" >> $OUT
git -C /repo worktree prune; rm -rf "$ROOT"
tail -1 $OUT
exit $FAIL
