#!/usr/bin/env python3
"""Assembles /verif/DESIGN.md from design-src/*.md; the cost tables are filled from selftest/QUICK.txt and
selftest/THOROUGH.txt (summary lines of one run of every check per tier)."""
import re, os
V = "/verif"
def table(path):
    rows = ["| check | states | transitions | distinct non-trivial | exhaustive | known findings printed | wall |", "|---|---|---|---|---|---|---|"]
    if not os.path.exists(path):
        return "(not recorded)"
    for l in open(path):
        m = re.search(r"(C\d\d) tier=\w+ states=(\d+) transitions=(\d+) nontrivial=(\d+) exhaustive=(\w+) violations=(\d+) known=(\d+) wall=([\d.]+)s", l)
        if m:
            rows.append("| %s | %s | %s | %s | %s | %s | %s s |" % (m.group(1), m.group(2), m.group(3), m.group(4), m.group(5), m.group(7), m.group(8)))
    return "\n".join(rows)
parts = [open(os.path.join(V, "design-src", f)).read() for f in ["00_head.md", "30_checks.md", "40_tail.md", "90_cost.md"]]
s = "\n".join(parts)
s = s.replace("@@QUICKTABLE@@", table(os.path.join(V, "selftest", "QUICK.txt"))).replace("@@THOROUGHTABLE@@", table(os.path.join(V, "selftest", "THOROUGH.txt")))
open(os.path.join(V, "DESIGN.md"), "w").write(s)
print("DESIGN.md", len(s.splitlines()), "lines")
