#!/usr/bin/env python3
"""Writes /verif/MANIFEST.json from the table below (kept in one place so it is always valid)."""
import json, os
V = "/verif"
checks = {
 "C16": dict(engine="E", design="3/C16",
   technique="small-scope exhaustive enumeration of the real code against an exact reference (explicit-state, dyadic alphabet)",
   text="Every integer box in [-2,2]^d x every half-integer point in [-3,3]^d (all 25/125 position classes, exact == against a clamp/corner oracle), every pair of closed intervals with end points 0..4, and every operand multiset of size 2-3 (4 thorough) from a 14-entry placed-primitive menu in two orders x 8 blends x a 25x25 lattice, Evaluate vs EvaluateSlow vs an independent fold. Bounded-exhaustive: the statement covered is the enumerated alphabet, not all reals.",
   note="dyadic coordinates (exact arithmetic); union operands are exact distance fields; blended values within 1e-9 of 0 are not sign-compared"),
 "C20": dict(engine="E", design="3/C20",
   technique="small-scope exhaustive enumeration of the real code against exact rational predicates (explicit-state)",
   text="Every subset of size 3..6 (7-8 thorough) of a jittered 4x4 lattice (general position verified exactly with big.Rat) in several jitter scales, coordinate scales and offsets, in sorted and reversed input order, through the real Delaunay2d and Delaunay2dSlow; oracle = the unique exact Delaunay triangulation (all triples with exactly-empty circumcircle), count 2n-2-h with an exact hull, exact empty-circle test. Equality: every permutation x every rotation of every real triangulation with <=5 triangles and of every set of <=3 (4 thorough) triples over indices 0..5, plus one-triangle-different negatives.",
   note="point sets are subsets of a fixed jittered lattice; two classes of genuine defects (hull slivers, absolute epsilon at micro scale) are listed in known_findings.json and matched by a predicate on the counterexample"),
 "C14": dict(engine="E", design="3/C14",
   technique="bounded-exhaustive enumeration of file contents (token sequences, lengths x header counts) through the real loader, worker subprocess with address-space limit",
   text="Every sequence of <=5 (7 thorough) lines over a 12-line ASCII alphabet (padded past the 84-byte header, and unpadded for <=3 lines), every binary length 0..235 x a header-count menu (small, length-consistent +-1, 2^16, 2^31, 2^32-1 and every count consistent with the length only modulo 2^32 or 2^31) x 4 fill patterns, every truncation/extension of a valid binary and a valid ASCII file, a 70 KiB single line and a 30000-line file, through render.LoadSTL and obj.ImportSTL under recover with per-file allocation measurement; a dying worker (fatal OOM) is reported as a violation on the file being loaded.",
   note="contents bounded to the alphabets; 'hang' is a 60 s watchdog on files <= 400 KiB; allocation bound 64*size+1MiB per binary file"),
 "C05": dict(engine="L", design="3/C05",
   technique="exhaustive enumeration of sign/magnitude tables on the renderer's own discovered lattice, through the real renderers (explicit-state over cell configurations)",
   text="Through the real render.ToTriangles with the uniform and the octree marching-cubes renderers on lookup fields over the lattice each renderer itself samples (discovered by a probe render): every {-1,0,1}^8 table and all 256 sign configurations x every choice of <=2 special corners with magnitude 1/4 or 1e-13 of a free cell; all 4096 sign tables of a face-adjacent cell pair in the 3 orientations (plus ternary values on the shared face; {-1,0,1}^12 thorough); 2^18 sign tables of a 3x3x2 block (quick: a 2^16 / 2^14 prefix); 20 analytic scenes x 7 (17) resolutions x 3 boxes. Oracle: welded (1e-6 cell) directed-edge balance, no repeated vertex, positive signed volume, vertices within the cells adjacent to inside corners.",
   note="boundary corners positive so the surface is strictly inside the box; octree tables scaled so nothing is prunable (pruning is C07); closedness for arbitrary magnitudes only through the scenes"),
 "C07": dict(engine="L", design="3/C07",
   technique="exhaustive enumeration of exact voxel/pixel solids x positions x alignments on the discovered lattice; three-way multiset comparison against the unpruned render and the finest-cell reference",
   text="All 255 unions of a 2x2x2 voxel block (3D octree) and all 511 unions of a 3x3 pixel block (2D quadtree), voxel size 1 and 2 cells, at every position of a 2^3 (3^3) / 3^2 (4^2) window of the renderer's own discovered lattice, with faces on lattice planes, 1e-5 cell either side of them, mid-cell and third-cell, at meshCells 4,5,8(,16) / 5,8,16(,32); plus analytic shapes (incl. discs of radius 1e-5..0.05 cell centred on corners shared by coarse squares) at 3-11 resolutions. Each is rendered through the real hierarchical renderer and compared bit-exactly as a multiset with (1) the same renderer on the 2^-10-scaled field (nothing prunable) and (2) the real per-cell step applied to every finest cell of the discovered lattice; (3) the sampled volume must cover the bounding box.",
   note="solids are exact (never overestimating) by construction; lattice and corner coordinates are taken from a probe render, not recomputed"),
 "C06": dict(engine="L", design="3/C06",
   technique="exhaustive table enumeration on the discovered lattice + bounded analytic families, independent zero-crossing oracle on every vertex",
   text="(A) every {-1,0,1}^8 table and 256 sign configurations x <=2 special corners (magnitudes 1/4, 1e-13, 3) of a free cell, and position-coded fields (all corner values distinct; 5 sign patterns incl. exact zeros and 1e-13) on 7 lattices whose y-z layers have 81/99/100/121/200/225/300 points (evaluation batch size 100 hit exactly, +-1, twice), through both real renderers: every mesh vertex must lie on an edge of the discovered lattice whose end values straddle zero, at the independently computed linear zero crossing. (B) planes in all 124 directions of {-2..2}^3 x 5 offsets, spheres (3 radii x 9 centres), 6 solids x 3 poses, at 3-7 resolutions, both renderers: |f(v)| within the bound of the property (1e-9 size / h^2/(8(R-h)) / h), mesh sample points within a cell diagonal, normals along the gradient, vertices inside the sampled box, sampled box covers the bounding box; completeness (sphere incl. poles, box faces, shapes in their own tight boxes) by exact point-to-mesh distance; volume error ratio >= 3 per doubling on the ladder 8,16,32(,64).",
   note="continuous quantifiers decided on finite families; convergence on a finite ladder"),
 "C08": dict(engine="L", design="3/C08",
   technique="exhaustive table enumeration on the discovered 2D lattice through the real renderers + bounded analytic families",
   text="Through the real uniform and quadtree marching-squares renderers (segments collected via sdf.NewLine2Buffer): all 7^4 tables over {-1,-1/4,-1e-13,0,1e-13,1/4,1} of a free cell, both adjacent-pair orientations x 5^6 (thorough 7^6) tables, all 2^16 sign tables of a 4x4 corner block, position-coded fields (all corner values distinct incl. the boundary rows) on 4 lattices x 5 patterns. Oracle: welded (1e-6 cell) end points have even degree (exactly 2 or 4 without degenerate values), no zero-length segment, every end point is the independently computed linear zero crossing of a straddling edge of the discovered lattice. Analytic: lines in 48 directions x 3 offsets (exact), circles within h^2/(8(R-h)), boxes; sampled area covers the box; perimeter error ratio >= 3 per doubling on 8..64 (256).",
   note="segment orientation is not part of the property and is not checked (the pristine tables are not consistently oriented)"),
 "C11": dict(engine="S", design="3/C11",
   technique="stateless model checking of the real code under a controlled scheduler (preemption-bounded DFS over schedules), reference = written sequence",
   text="The real Triangle3Buffer/Line2Buffer, sdf.WriteTriangles, render.ToTriangles, ToSTL and ToSVG (sync, channels and go statements rewritten onto the cooperative scheduler by a type-checked source rewrite that refuses unknown constructs) driven by scripted producers emitting numbered items from a reused, poisoned scratch slice: every sequence of <=2 (3 thorough) Write calls over batch sizes {0,1,2,5,T-1,T,T+1,2T-1,2T,2T+3}, one producer under ALL interleavings with the consumer, two producers (7x7 batch plans) under ALL interleavings, three producers with <=3 preemptions (thorough: all) - unbounded search uses happens-before state hashing to skip schedules that only reorder independent operations. Oracle per execution: delivered sequence == written sequence (P=1), multiset + per-producer order (P>1), STL count field/length, no deadlock/panic/left-over goroutine.",
   note="interleavings at synchronisation operations only (sufficient for race-free code; races are C10); 3MF/DXF content is C15, their termination C12"),
 "C12": dict(engine="S", design="3/C12",
   technique="stateless model checking under a controlled scheduler x exhaustive fault-plan enumeration on an in-memory file system; deadlock detection instead of timeouts",
   text="render.ToSTL on the in-memory file system under every fault plan (create / seek / header-rewrite / close failure; a byte limit at 0,1,83,84,85, around every 4096-byte flush boundary, size-50, size-1) x item counts {0,1,81,300,700} x ALL schedules (unbounded, happens-before state hashing); ToSVG (create/limit), To3MF and ToDXF against a nonexistent directory, /dev/full and a writable path; the real uniform and octree renderers (1-2 workers) into the collector and a failing STL sink. 'Never returns' = deadlock (main unfinished, no enabled thread). Goroutine accumulation = census of threads still parked after k=1..4 consecutive renders must not grow with k.",
   note="I/O failure modelled as error returns of Create/Write/Seek/Close; kernel signal behaviour outside the model"),
 "C09": dict(engine="S", design="3/C09",
   technique="stateless model checking of the real render pipeline under a controlled scheduler (preemption-bounded DFS + happens-before state pruning) with an in-scheduler vector-clock race detector; reference = sequential cell loop",
   text="The real uniform marching-cubes pipeline (process-global evaluation channel and workers, layer batches of 100, Triangle3Buffer, writer goroutine; sync/chan/go rewritten onto the scheduler, shared mutable package variables and receiver fields instrumented with read/write events) on position-coded lookup fields over lattices whose layers are 9, 25, 100 (exactly one batch) and 121 points, with 1-3 workers and yields inside Evaluate: ToTriangles and ToSTL under all schedules with <=2-3 preemptions, two different renders concurrently, and A;B;A histories; octree and marching-squares renderers through ToTriangles/ToSVG under all schedules. Every execution must reproduce the independent sequential reference (per-cell step over the discovered lattice) / identical file bytes; the probe render must evaluate the same points under two opposite scheduling policies; any pair of accesses to instrumented shared state that is not ordered by happens-before is a violation.",
   note="GOMAXPROCS itself is not varied (the worker count is); weak-memory effects not modelled; happens-before pruning assumes race freedom, which the vector-clock detector checks on the instrumented state; DXF/3MF bytes not explored under the scheduler"),
 "C13": dict(engine="E", design="3/C13",
   technique="bounded-exhaustive enumeration of triangle lists and write histories through the real writers/loader, independent byte parser",
   text="All 1000 vertices of a 10-value coordinate menu cubed (0, -0, +-1, 1/3, 16777217, 1e-40, +-3e38, 1e39) as one file and as single-triangle files, all lists of length 0-2 over a 48-triangle menu (scales 1e-7..1e3, degenerate, reversed winding), long lists at 81/82/255/256/257/1000 (70000 thorough), and decreasing-size histories on one path written by SaveSTL, ToSTL and alternating. Oracle: own parser (80-byte header, count == n, length == 84+50n, float32 bits of every input vertex in order, zero attribute, right-hand unit normal from an independent float64 cross product), ToSTL bytes == SaveSTL bytes, LoadSTL returns the float32 roundings bit-exactly in order, reference ASCII files (LF/CRLF, %g/%e/%.9f, blanks/tabs) load to their listed vertices.",
   note="normals checked for |coordinates| <= 1e6 and non-collinear (1e-6) triangles only"),
 "C15": dict(engine="E", design="3/C15",
   technique="bounded-exhaustive enumeration of geometry lists through the real writers, decoded by independent readers (go3mf, yofu/dxf, encoding/xml)",
   text="All ordered lists of length 0-3 (4 thorough) with repetition over an 8-triangle / 8-segment menu (shared vertices, exact duplicates, reversed winding, a sliver below the 1e-6 de-duplication grid, 1e-5, 12345.678912, values rounding differently at 2/4 decimals, drawings that do not contain the origin), through To3MF, ToDXF/SaveDXF and ToSVG/SaveSVG. 3MF: one millimetre mesh object, triangle i = input i with winding, vertices = float32 at four decimals, identical corners share a vertex. DXF: one LINE per segment on layer Lines, six-decimal coordinates, in order. SVG: one <line> per segment shifted to the minimum corner with y flipped, canvas = extent.",
   note="3MF vertex tolerance 1.5e-4 (format decimals + de-duplication grid)"),
 "C17": dict(engine="E", design="3/C17",
   technique="bounded-exhaustive enumeration of builder inputs against independent geometric constructions; the library's random source is an enumerated environment answer",
   text="Every non-collinear corner (prev, v, next) on the 5x5 integer grid (13k geometries, both turning directions, short edges) x radius {1/8,1/2,1,3} x facets {1,2,5,6}, as the middle vertex of an open polygon and as the first vertex of a closed one, smoothed and chamfered: left unchanged iff the tangent distance r/tan(theta/2) exceeds an adjacent edge, else facets+1 points from tangent point to tangent point on the circle centred on the bisector at r/sin(theta/2) in equal steps. Arcs over all 600 grid chords x |r| in {d/2(1+2^-20), d, 4d} x both signs x facets {2,3,8}. All relative/polar chains of length 2-4 over a 6-entry menu; N-gons 3..32. Bezier: every control polygon of degree 1-3 (every 6th of degree 4; all thorough) on the 3x3 grid, open and closed: every vertex is the de Casteljau point at a multiple of 1/512 in increasing order, exact end points, degree-1 exact; the random perturbation is answered from {1/4; 0, 3/4, 1-2^-53} with single deviations at the first 12 calls and pairs among the first 4; 648 handle specifications.",
   note="corners with the tangent distance within 1e-9 of an edge length are skipped; handle-specified end points compared to 1e-12"),
 "C18": dict(engine="E", design="3/C18",
   technique="exhaustive enumeration of the thread database x configuration menus against independent standard tables and lattice evaluation",
   text="Every key of the thread database (via an export shim; 82 today): the name must parse under the metric / UNC / UNF / NPT grammar and radius, pitch, taper and units must equal an independently typed table of the standard series; ToMillimetre scales by 25.4, is idempotent, and neither it nor ThreadedCylinderParms.Object may change what a later lookup returns (history). Screw3D(ISOThread) for starts {1,-1,2,-2,3}: f(p) == f(rotate(p, dphi) + starts*pitch*dphi/2pi z) for 4 angles and f(p) == f(p + pitch z) on a 13x12x49 cylindrical lattice at least one pitch from the ends (5 threads quick, all thorough). Mating for EVERY entry (tapered too): with bolt/nut tolerances (0,0),(0.05p,0),(0,0.05p),(0.2p,0.2p) no lattice point (33 radii across the thread depth x 8 angles x 48 steps/pitch) is inside both the external thread and the material left by the internal cutter; same against obj.Nut.",
   note="space sampled on a cylindrical lattice; standard tables typed into the harness"),
 "C19": dict(engine="L", design="3/C19",
   technique="exhaustive sign-table enumeration on trilinear lookup fields + bounded analytic families through the real dual-contouring renderers",
   text="DualContouringV1 (no simplification, LockVertices) and DualContouringV2 (default, FarAway 0.25, CenterPush 0.1): every one of the 2^8 sign tables of a 2x2x2 interior corner block and 2^12 of a 3x2x2 block (all orientations and settings thorough) as trilinear lookup fields with a positive boundary layer; 18 analytic shapes (smooth, sharp, rotated, CSG, six crescents, cubes/spheres with faces exactly on lattice points at non-dyadic cell sizes) in enlarged sampling cubes at 3-7 resolutions. Oracle: welded directed-edge balance, positive volume, every vertex inside the sampled box and with |f(v)| <= one cell diagonal, two consecutive runs identical.",
   note="settings with locking/clamping off are outside the property and not run; |f(v)| <= diagonal is a necessary condition for CSG shapes"),
 "C04": dict(engine="E", design="3/C04",
   technique="small-scope exhaustive enumeration of simple polygons x query points, three-way comparison with an exact-predicate oracle",
   text="Every simple polygon with <=5 (6 thorough) vertices on the 4x4 integer grid in both orientations (25 620 quick), plus 96 family polygons (combs, staircases, n-gons 3..64 incl. the hexagon of obj.Hex2D, slivers of width 2^-10, plates with a step on the centre line; reversed, centred, translated to negative coordinates, scaled by 2^-7 and 2^9), each queried on the quarter-integer lattice over the box +-1, on EVERY corner/centre coordinate of the quadtree boxes returned by the public Boxes() and those +-1 ulp, on every vertex level +-1 ulp and 1000 sizes away (about 4 800 points per polygon): Polygon2D vs Mesh2DSlow vs an oracle with exact orientation predicates (float filter, big.Rat fallback) for inside/outside and float64 segment distance (1e-9).",
   note="points exactly on the boundary only need |value| <= 1e-9; one tolerance-band class is a recorded known finding"),
}
props = [json.loads(l) for l in open(os.path.join(V, "properties.jsonl"))]
pending_reason = "check not built yet in this session (work in progress, see DESIGN.md section 3 for the planned bounded-exhaustive check)"
man = {
 "version": 1,
 "setup_cmd": "bash /verif/scripts/setup.sh",
 "hooks": {
   "guard": "verif",
   "enable": "no source commits: /verif/vcheck generates a go build overlay (scripts/mkoverlay.py) that injects /verif/hooks/<pkg>/*.go (all '//go:build verif') and, for the scheduler checks, rewritten copies of the concurrent files, then builds with -tags verif -overlay; /repo itself is never modified by a check",
   "baseline_off_cmd": "cd /repo && export GOFLAGS=-mod=mod GOPROXY=off GOSUMDB=off GOTOOLCHAIN=local && go test -json -vet=off -count=1 -timeout 25m ./...",
   "source_commits": [],
   "add_only": True,
 },
 "engines": [
   {"name": "E", "path": "/verif/lib/vlib", "serves_properties": sorted(k for k, v in checks.items() if v["engine"] == "E"),
    "kind_free_text": "small-scope exhaustive enumeration of inputs/histories through the real code against independent reference models"},
   {"name": "L", "path": "/verif/lib/lattice", "serves_properties": sorted(k for k, v in checks.items() if v["engine"] == "L"),
    "kind_free_text": "lattice-lookup fields: every sign/magnitude table on the renderer's own discovered lattice, through the real renderers"},
   {"name": "S", "path": "/verif/lib/sched", "serves_properties": sorted(k for k, v in checks.items() if v["engine"] == "S"),
    "kind_free_text": "stateless model checking: cooperative scheduler + preemption-bounded DFS over the real goroutines (sync/chan rewritten by overlay), fault plans on an in-memory file system"},
 ],
 "checks": [],
 "not_applicable": [],
 "notes": "All checks: /verif/vcheck <ID> <tier>; exit 0 held / 1 VIOLATION / 3 harness error. known findings and fixed defects: /verif/known_findings.json.",
}
for p in props:
    i = p["id"]
    if i in checks:
        c = checks[i]
        man["checks"].append({
          "property_id": i,
          "quick_cmd": "/verif/vcheck %s quick" % i,
          "thorough_cmd": "/verif/vcheck %s thorough" % i,
          "evidence_file": "/verif/evidence/%s.json" % i,
          "replay_cmd_template": "/verif/vcheck %s quick --replay {path}" % i,
          "engine": c["engine"],
          "level_claimed": {"category": "model_checking", "text": c["text"], "design_ref": "DESIGN.md " + c["design"]},
          "level_note": c["note"],
          "technique": c["technique"],
        })
    else:
        man["not_applicable"].append({"property_id": i, "reason": pending_reason})
json.dump(man, open(os.path.join(V, "MANIFEST.json"), "w"), indent=1)
print("checks:", len(man["checks"]), "not_applicable:", len(man["not_applicable"]))
