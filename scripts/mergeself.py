#!/usr/bin/env python3
"""mergeself.py <partial>: replace, in selftest/RESULT.txt, the lines of the properties present in a partial
self-test result (scripts/selftest.sh with SELF_IDS / SELF_OUT) and recompute the overall line."""
import re, sys
full = open('/verif/selftest/RESULT.txt').read().splitlines()
part = open(sys.argv[1]).read().splitlines()
def key(l):
    m = re.match(r'clean (C\d\d) ', l)
    if m: return ('clean', m.group(1))
    m = re.match(r'seed=(\S+) ', l)
    if m: return ('seed', m.group(1))
    m = re.match(r'mutant=(\S+) ', l)
    if m: return ('mutant', m.group(1))
    return None
new = {key(l): l for l in part if key(l)}
out, seen = [], set()
for l in full:
    k = key(l)
    if k in new:
        out.append(new[k]); seen.add(k)
    elif l.startswith('== overall'):
        continue
    else:
        out.append(l)
missing = [k for k in new if k not in seen]
assert all(k[0] == 'seed' for k in missing), missing   # seeds stored after the full run: appended to their section
if missing:
    at = next(i for i, l in enumerate(out) if l.startswith('== reverse patches'))
    out[at:at] = [new[k] for k in missing]
    first = next(i for i, l in enumerate(out) if l.startswith('== seeded changes')) + 1
    nat = lambda l: [int(t) if t.isdigit() else t for t in re.split(r'(\d+)', l.split()[0])]
    out[first:at + len(missing)] = sorted(out[first:at + len(missing)], key=nat)
bad = [l for l in out if key(l) and not (('clean' == key(l)[0] and 'exit=0 violations=0' in l) or ('seed' == key(l)[0] and ' exit=1 ' in l) or ('mutant' == key(l)[0] and 'suite_exit=0 check_exit=1 ' in l))]
out.insert(1, '== lines of %s refreshed by a partial run after the checks of these properties were changed' % ' '.join(sorted({k[1][:3] for k in new if k[0] != "mutant"})))
out.append('== overall: %s' % ('PASS' if not bad else 'FAIL'))
open('/verif/selftest/RESULT.txt', 'w').write('\n'.join(out) + '\n')
print(out[-1], len(new), 'lines replaced;', len(bad), 'bad')
