#!/bin/bash
# mutantrun.sh <mutant dir name> <ID> [tier] : apply one of our own mutants (mutants/<name>/patch.diff) to /repo, check the
# repository test suite still passes, run the check (must report a violation), undo.
NAME="$1"; ID="$2"; TIER="${3:-quick}"
export GOFLAGS=-mod=mod GOPROXY=off GOSUMDB=off GOTOOLCHAIN=local
cd /repo || exit 2
if [ -n "$(git status --porcelain --untracked-files=no)" ]; then echo "/repo not clean"; exit 2; fi
git apply /verif/mutants/$NAME/patch.diff || { echo "patch does not apply"; exit 2; }
go build ./... && go test -vet=off -count=1 ./sdf ./render ./vec/v3 >/dev/null 2>&1; SUITE=$?
cp /verif/evidence/$ID.json /verif/.work/evidence.keep.$ID.json 2>/dev/null
/verif/vcheck $ID $TIER > /verif/.work/mutant.$NAME.$ID.log 2>&1; RC=$?
git -C /repo checkout -- .
echo "mutant=$NAME check=$ID suite_exit=$SUITE check_exit=$RC $(grep -c '^VIOLATION' /verif/.work/mutant.$NAME.$ID.log) violation lines"
grep '^VIOLATION\|HARNESS' /verif/.work/mutant.$NAME.$ID.log | cut -c1-220 | head -3
[ -f /verif/.work/evidence.keep.$ID.json ] && mv /verif/.work/evidence.keep.$ID.json /verif/evidence/$ID.json
