#!/bin/bash
# seedrun2.sh <ID> <n> [checkID] [tier]: run a check against a seed agent's worktree (/tmp/seed2/<ID>) with its patch
# out/<n>/patch.diff applied, using a private copy of /verif ($VERIF2, default /tmp/verif2) so that /repo and /verif are untouched.
ID="$1"; N="$2"; CK="${3:-$1}"; TIER="${4:-quick}"
WT=${SEEDROOT:-/tmp/seed5}/$ID
cd $WT || exit 2
git checkout -q -- . ; git apply --exclude='out/*' out/$N/patch.diff || { echo "patch does not apply"; exit 2; }
rsync -a --delete --exclude .work --exclude .git --exclude replays --exclude evidence /verif/ ${VERIF2:-/tmp/verif2}/
mkdir -p ${VERIF2:-/tmp/verif2}/.work ${VERIF2:-/tmp/verif2}/evidence
VERIF_DIR=${VERIF2:-/tmp/verif2} VERIF_REPO=$WT ${VERIF2:-/tmp/verif2}/vcheck $CK $TIER > ${VERIF2:-/tmp/verif2}/.work/seed.$ID-$N.$CK.log 2>&1; RC=$?
git checkout -q -- .
echo "seed=$ID/$N check=$CK tier=$TIER exit=$RC $(grep -c '^VIOLATION' ${VERIF2:-/tmp/verif2}/.work/seed.$ID-$N.$CK.log) violation lines"
grep '^VIOLATION\|HARNESS' ${VERIF2:-/tmp/verif2}/.work/seed.$ID-$N.$CK.log | cut -c1-250 | head -3
