#!/bin/bash
# One-time setup after a fresh restore: warm the Go build cache for every check (offline).
export GOFLAGS=-mod=mod GOPROXY=off GOSUMDB=off GOTOOLCHAIN=local
cd /verif || exit 1
cp /repo/go.sum go.sum 2>/dev/null
mkdir -p .work/bin evidence replays
python3 scripts/mkoverlay.py /repo > .work/overlay.setup.json || exit 1
for d in checks/*/; do
  id=$(basename "$d")
  go build -tags verif -overlay .work/overlay.setup.json -o .work/bin/$id ./checks/$id || echo "setup: $id failed to build"
done
echo setup done
