#!/bin/bash
# One-time setup after a fresh restore: build every harness exactly as a check run does (overlay, source
# rewrite for the scheduler checks, race-detector pass of C10) so that the Go build cache is warm. Offline.
export GOFLAGS=-mod=mod GOPROXY=off GOSUMDB=off GOTOOLCHAIN=local
cd /verif || exit 1
cp /repo/go.sum go.sum 2>/dev/null
mkdir -p .work/bin evidence replays
RC=0
for d in checks/*/; do
  id=$(basename "$d")
  VCHECK_BUILD_ONLY=1 ./vcheck $id quick || { echo "setup: $id failed to build"; RC=1; }
done
echo setup done
exit $RC
