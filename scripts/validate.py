#!/usr/bin/env python3
"""Validate MANIFEST.json and every evidence file against the schemas (run with python3-vt)."""
import json, glob, sys, jsonschema
ok = True
try:
    jsonschema.validate(json.load(open('/verif/MANIFEST.json')), json.load(open('/root/.vp/MANIFEST.schema.json')))
except Exception as e:
    print("MANIFEST invalid:", e); ok = False
sch = json.load(open('/root/.vp/EVIDENCE.schema.json'))
for f in sorted(glob.glob('/verif/evidence/C*.json')):
    try:
        jsonschema.validate(json.load(open(f)), sch)
    except Exception as e:
        print(f, "invalid:", str(e)[:300]); ok = False
print("valid" if ok else "INVALID")
sys.exit(0 if ok else 1)
