#!/usr/bin/env python3
"""Generate the go build overlay: every /verif/hooks/<pkg path with __ for />/<name>.go is injected
into <repo>/<pkg path>/zz_verif_<name>.go.  All hook files carry //go:build verif."""
import json, os, sys
repo = sys.argv[1] if len(sys.argv) > 1 else "/repo"
root = os.path.join(os.environ.get("VERIF_DIR", "/verif"), "hooks")
rep = {}
for d in sorted(os.listdir(root)):
    p = os.path.join(root, d)
    if not os.path.isdir(p):
        continue
    pkg = d.replace("__", "/")
    for f in sorted(os.listdir(p)):
        if f.endswith(".go"):
            src = os.path.join(p, f)
            if "//go:build verif" not in open(src).read(400):
                sys.stderr.write("hook file without verif guard: %s\n" % src); sys.exit(1)
            rep[os.path.join(repo, pkg, "zz_verif_" + f)] = src
extra = os.environ.get("VERIF_EXTRA_OVERLAY")
if extra:
    rep.update(json.load(open(extra))["Replace"])
json.dump({"Replace": rep}, sys.stdout, indent=1)
