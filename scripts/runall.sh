#!/bin/bash
# runall.sh <tier>: every check once on the current tree; summary lines to selftest/<TIER>.txt
TIER="${1:-quick}"; cd /verif || exit 2
OUT=selftest/$(echo $TIER | tr a-z A-Z).txt; mkdir -p selftest; : > $OUT; RC=0
for ID in C01 C02 C03 C04 C05 C06 C07 C08 C09 C10 C11 C12 C13 C14 C15 C16 C17 C18 C19 C20; do
  ./vcheck $ID $TIER > .work/runall.$ID.log 2>&1; E=$?
  [ $E -ne 0 ] && RC=1
  echo "exit=$E $(grep -c '^VIOLATION' .work/runall.$ID.log) violation lines :: $(grep "^$ID tier=" .work/runall.$ID.log | tail -1)" >> $OUT
  grep '^HARNESS' .work/runall.$ID.log | head -3 >> $OUT
done
exit $RC
