#!/bin/bash
# cleanrun.sh <ID> [tier]: run a check on a pristine worktree of /repo HEAD through the private copy of /verif
# (for use while /repo's working tree is occupied by the self-test).
ID="$1"; TIER="${2:-quick}"
rsync -a --delete --exclude .work --exclude .git --exclude replays --exclude evidence /verif/ /tmp/verif3/
mkdir -p /tmp/verif3/.work /tmp/verif3/evidence
VERIF_DIR=/tmp/verif3 VERIF_REPO=/tmp/seed5/CLEAN /tmp/verif3/vcheck $ID $TIER 2>&1 | grep "VIOLATION\|HARNESS\|tier=" | cut -c1-300
