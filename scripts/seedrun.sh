#!/bin/bash
# seedrun.sh <seedname> <ID> [tier] : apply a seeded change to /repo, run the check, undo.
NAME="$1"; ID="$2"; TIER="${3:-quick}"
cd /repo || exit 2
if [ -n "$(git status --porcelain --untracked-files=no)" ]; then echo "/repo not clean"; exit 2; fi
git apply --exclude='out/*' /verif/seeded/$NAME/patch.diff || { echo "patch does not apply"; exit 2; }
cp /verif/evidence/$ID.json /verif/.work/evidence.keep.$ID.json 2>/dev/null
/verif/vcheck $ID $TIER > /verif/.work/seed.$NAME.$ID.log 2>&1; RC=$?
git -C /repo checkout -- .
echo "seed=$NAME check=$ID tier=$TIER exit=$RC $(grep -c '^VIOLATION' /verif/.work/seed.$NAME.$ID.log) violation lines"
grep '^VIOLATION\|HARNESS' /verif/.work/seed.$NAME.$ID.log | cut -c1-260 | head -4
# restore evidence written by the mutated run
[ -f /verif/.work/evidence.keep.$ID.json ] && mv /verif/.work/evidence.keep.$ID.json /verif/evidence/$ID.json
exit 0
