// C02 — combinators denote the set / geometric operation they name.
// Engine E: the expression-tree enumeration of C01 with a reference interpreter that calls the real
// Evaluate only on the leaves and implements every node from its documented meaning (own linear
// algebra: Rodrigues rotations, Gauss-Jordan inverse); blend functions on an exhaustive dyadic grid;
// all query histories of length <= 5 over a 5-point menu on the cache wrapper (explicit-state BFS);
// voxel wrappers at every lattice corner and inside every cell.
package main

import (
	"fmt"
	"math"
	"sort"
	"strings"
	"sync"
	"sync/atomic"

	"github.com/deadsy/sdfx/sdf"
	v2 "github.com/deadsy/sdfx/vec/v2"
	"github.com/deadsy/sdfx/vec/v2i"
	v3 "github.com/deadsy/sdfx/vec/v3"
	"github.com/deadsy/sdfx/vec/v3i"

	"verif/lib/shapes"
	"verif/lib/vlib"
)

func axis(lo, hi float64, n int) []float64 {
	size := hi - lo
	pad := math.Max(size/4, 0.5)
	a, b := lo-pad, hi+pad
	var out []float64
	for i := 0; i < n; i++ {
		out = append(out, a+(b-a)*(float64(i)+0.3819660112501051)/float64(n))
	}
	return out // generic points only: alignments with vertex levels / split lines are C04's subject
}

func paramClass(name string) string {
	i := strings.Index(name, "[")
	j := strings.Index(name, "]")
	if i < 0 || j < i {
		return ""
	}
	p := name[i+1 : j]
	if k := strings.IndexAny(p, "(=0123456789 -"); k > 0 {
		p = p[:k]
	}
	return p
}

func main() {
	c := vlib.Start("C02")
	// fields that are not continuous functions of the point (nearest-triangle sign of the mesh import, the
	// Mesh3D stub) cannot be compared at inverse-mapped points that differ by rounding
	cont := func(name string) bool {
		// (CubicSpline2D evaluates by Newton iteration to a tolerance: its value is not reproducible to 1e-9
		// at points that differ by rounding)
		return !strings.Contains(name, "ImportTriMesh") && !strings.Contains(name, "ImportSTL") && !strings.Contains(name, "Mesh3D") && !strings.Contains(name, "CubicSpline")
	}
	var n2 []shapes.N2
	for _, n := range shapes.Nodes2(vlib.Pick(c, 1, 2)) {
		if cont(n.Name) {
			n2 = append(n2, n)
		}
	}
	var n3 []shapes.N3
	for _, n := range shapes.Nodes3(vlib.Pick(c, 1, 2)) {
		if cont(n.Name) {
			n3 = append(n3, n)
		}
	}
	if !c.Thorough() {
		// recorded witnesses of the known finding that only the thorough enumeration contains
		have := map[string]bool{}
		for _, n := range n2 {
			have[n.Name] = true
		}
		for _, w := range shapes.Witness2("Union2D[plain](Transform2D[Scale(2,0.5)](Polygon2D(L-shape)@(-5,-5)), Circle2D(r=1))", "Multi2D[3 positions](Transform2D[Translate(3,-2)](GearRack2D(n=11,m=0.03125,pa=20,bl=0,h=0.025)))") {
			if !have[w.Name] {
				n2 = append(n2, w)
			}
		}
	}
	N2, N3 := vlib.Pick(c, 17, 41), vlib.Pick(c, 8, 16)
	var cmp, built, withRef int64
	roots := vlib.NewCounter()

	type res struct {
		real, ref float64
		p         any
	}
	judge := func(name, root string, kind shapes.RefKind, scale float64, r res, desc func() map[string]any) bool {
		tol := 1e-9 * (1 + scale)
		if math.IsNaN(r.ref) {
			return true // the reference leaves this point undecided (on a cutting plane)
		}
		pc := paramClass(name)
		switch kind {
		case shapes.RefValue:
			if math.IsInf(r.ref, 0) && math.IsInf(r.real, 0) {
				return true
			}
			if math.Abs(r.real-r.ref) > tol*(1+math.Abs(r.ref)) {
				k := "value"
				if (r.real < 0) != (r.ref < 0) && math.Abs(r.ref) > tol {
					k = "inside-outside"
				}
				c.Violation(fmt.Sprintf("denotation|%s[%s]|%s", root, pc, k), fmt.Sprintf("%s at %v: Evaluate %g, reference %g", name, r.p, r.real, r.ref), desc())
				return false
			}
		case shapes.RefSet:
			if math.Abs(r.ref) > tol && math.Abs(r.real) > tol && (r.real < 0) != (r.ref < 0) {
				c.Violation(fmt.Sprintf("denotation|%s[%s]|inside-outside", root, pc), fmt.Sprintf("%s at %v: Evaluate %g, reference %g", name, r.p, r.real, r.ref), desc())
				return false
			}
		}
		return true
	}

	done2 := c.ParFor(len(n2), func(i int) {
		nd := n2[i]
		if nd.Depth == 0 || (nd.Kind == shapes.RefNone && !strings.Contains(nd.Name, "[Poly(")) {
			return
		}
		s, err := nd.Build()
		if err != nil {
			return
		}
		atomic.AddInt64(&built, 1)
		bb := s.BoundingBox()
		scale := bb.Max.Sub(bb.Min).Length()
		if nd.Kind == shapes.RefNone {
			return // blended 2D nodes are covered by the 3D ones and the blend grid
		}
		ref, err := nd.Ref()
		if err != nil {
			return
		}
		atomic.AddInt64(&withRef, 1)
		roots.Add(nd.Root+"["+paramClass(nd.Name)+"]", 1)
		var n int64
		for _, x := range axis(bb.Min.X, bb.Max.X, N2) {
			for _, y := range axis(bb.Min.Y, bb.Max.Y, N2) {
				p := v2.Vec{X: x, Y: y}
				n++
				real, rv := s.Evaluate(p), ref(p)
				// the 2D union prunes operands by their bounding boxes; that is only valid for operands whose value is
				// at least the distance to their own box.  With an operand that is not a distance field (documented for
				// non-uniform scaling; also intersections such as GearRack2D) the pruned value can exceed the pointwise
				// minimum while the sign stays right: a listed finding, recognised by EvaluateSlow agreeing with the
				// reference.  With exact operands any such difference is reported as an ordinary violation.
				if us, ok := s.(*sdf.UnionSDF2); ok && !nd.OperandExact && nd.Kind == shapes.RefValue && !math.IsNaN(rv) {
					tol := 1e-9 * (1 + scale)
					if math.Abs(real-rv) > tol*(1+math.Abs(rv)) && (real < 0) == (rv < 0) && real > rv {
						if slow := us.EvaluateSlow(p); math.Abs(slow-rv) <= tol*(1+math.Abs(rv)) {
							c.Violation("denotation|UnionSDF2|value|box-pruning-with-an-operand-that-is-not-a-distance-field", fmt.Sprintf("%s at %v: Evaluate %g, EvaluateSlow and the pointwise minimum %g (same sign)", nd.Name, p, real, rv), map[string]any{"shape": nd.Name, "dim": 2, "point": p})
							atomic.AddInt64(&cmp, n)
							return
						}
					}
				}
				if !judge(nd.Name, nd.Root, nd.Kind, scale, res{real, rv, p}, func() map[string]any { return map[string]any{"shape": nd.Name, "dim": 2, "point": p} }) {
					atomic.AddInt64(&cmp, n)
					return
				}
			}
		}
		atomic.AddInt64(&cmp, n)
	})
	done3 := c.ParFor(len(n3), func(i int) {
		nd := n3[i]
		if nd.Depth == 0 {
			return
		}
		s, err := nd.Build()
		if err != nil {
			return
		}
		atomic.AddInt64(&built, 1)
		bb := s.BoundingBox()
		scale := bb.Max.Sub(bb.Min).Length()
		n := N3
		if strings.Contains(nd.Name, "ImportSTL") || strings.Contains(nd.Name, "Knurl") || strings.Contains(nd.Name, "DrainCover") {
			n = 4
		}
		xs, ys, zs := axis(bb.Min.X, bb.Max.X, n), axis(bb.Min.Y, bb.Max.Y, n), axis(bb.Min.Z, bb.Max.Z, n)
		if nd.Kind == shapes.RefNone {
			// blended binary node: the property's inequalities
			if !strings.Contains(nd.Name, "[Poly(") || nd.Depth != 1 {
				return
			}
			op := strings.TrimSuffix(nd.Root, "3D")
			// operands are rebuilt through the plain node of the same operands
			plainName := strings.Replace(nd.Name, "[Poly(0.5)]", "[plain]", 1)
			_ = plainName
			a, b := splitOperands(nd.Name)
			fa, fb := findLeaf3(a), findLeaf3(b)
			if fa == nil || fb == nil {
				return
			}
			atomic.AddInt64(&withRef, 1)
			roots.Add(nd.Root+"[Poly]", 1)
			// the mirrored node for symmetry
			var cnt int64
			for _, x := range xs {
				for _, y := range ys {
					for _, z := range zs {
						p := v3.Vec{X: x, Y: y, Z: z}
						va, vb := fa(p), fb(p)
						lo, hi := shapes.BlendBounds(op, 0.5, va, vb)
						got := s.Evaluate(p)
						cnt++
						tol := 1e-9 * (1 + scale)
						if got < lo-tol || got > hi+tol {
							c.Violation(fmt.Sprintf("blend|%s[Poly]|outside-[min-k/4,min]-band", nd.Root), fmt.Sprintf("%s at %v: operands %g, %g give %g, allowed [%g, %g]", nd.Name, p, va, vb, got, lo, hi),
								map[string]any{"shape": nd.Name, "point": p})
							atomic.AddInt64(&cmp, cnt)
							return
						}
					}
				}
			}
			atomic.AddInt64(&cmp, cnt)
			return
		}
		ref, err := nd.Ref()
		if err != nil {
			return
		}
		atomic.AddInt64(&withRef, 1)
		roots.Add(nd.Root+"["+paramClass(nd.Name)+"]", 1)
		var cnt int64
		for _, x := range xs {
			for _, y := range ys {
				for _, z := range zs {
					p := v3.Vec{X: x, Y: y, Z: z}
					cnt++
					if !judge(nd.Name, nd.Root, nd.Kind, scale, res{s.Evaluate(p), ref(p), p}, func() map[string]any { return map[string]any{"shape": nd.Name, "dim": 3, "point": p} }) {
						atomic.AddInt64(&cmp, cnt)
						return
					}
				}
			}
		}
		atomic.AddInt64(&cmp, cnt)
	})

	// ---------------- blend functions on the dyadic grid ----------------
	var bl int64
	type bf struct {
		name string
		f    sdf.MinFunc
		k    float64
		poly bool
		exp  bool
	}
	var bfs []bf
	for _, k := range []float64{0.125, 0.5, 2} {
		bfs = append(bfs, bf{fmt.Sprintf("RoundMin(%g)", k), sdf.RoundMin(k), k, false, false}, bf{fmt.Sprintf("ChamferMin(%g)", k), sdf.ChamferMin(k), k, false, false},
			bf{fmt.Sprintf("PolyMin(%g)", k), sdf.PolyMin(k), k, true, false}, bf{fmt.Sprintf("ExpMin(%g)", 32*k), sdf.ExpMin(32 * k), k, false, true})
	}
	for _, b := range bfs {
		for ia := -16; ia <= 16; ia++ {
			for ib := -16; ib <= 16; ib++ {
				a, bb := float64(ia)/8, float64(ib)/8
				r, rs := b.f(a, bb), b.f(bb, a)
				m := math.Min(a, bb)
				bl++
				desc := map[string]any{"blend": b.name, "a": a, "b": bb, "result": r}
				if math.Abs(r-rs) > 1e-12*(1+math.Abs(r)) {
					c.Violation("blend|"+strings.Split(b.name, "(")[0]+"|not-symmetric", fmt.Sprintf("%s(%g,%g) = %g but (%g,%g) = %g", b.name, a, bb, r, bb, a, rs), desc)
				}
				if r > m+1e-12 {
					c.Violation("blend|"+strings.Split(b.name, "(")[0]+"|removes-material", fmt.Sprintf("%s(%g,%g) = %g > min %g", b.name, a, bb, r, m), desc)
				}
				if b.poly {
					lo, hi := shapes.BlendBounds("Union", b.k, a, bb)
					if r < lo-1e-12 || r > hi+1e-12 {
						c.Violation("blend|PolyMin|outside-[min-k/4,min]-band", fmt.Sprintf("%s(%g,%g) = %g, allowed [%g,%g]", b.name, a, bb, r, lo, hi), desc)
					}
					mx := sdf.PolyMax(b.k)(a, bb)
					if math.Abs(mx+sdf.PolyMin(b.k)(-a, -bb)) > 1e-12 {
						c.Violation("blend|PolyMax|not-mirror-image-of-PolyMin", fmt.Sprintf("PolyMax(%g)(%g,%g) = %g, -PolyMin(-a,-b) = %g", b.k, a, bb, mx, -sdf.PolyMin(b.k)(-a, -bb)), desc)
					}
				}
			}
		}
	}

	// ---------------- the folding helper of rotate-copy, screw and rack: SawTooth on a dyadic grid ----------------
	// documented: returns a value in [-period/2, period/2) congruent to x modulo the period; on this grid the
	// arithmetic is exact, so the comparison is ==.  Half-period points (sector boundaries of RotateCopy, which the
	// generic lattice of the tree comparison never hits) are all on the grid.
	var sawPoints int64
	for _, per := range []float64{0.25, 0.5, 1, 2, 4} { // powers of two: x/period and the products are exact
		for i := -64; i <= 64; i++ {
			x := float64(i) / 8
			got := sdf.SawTooth(x, per)
			want := x - per*math.Floor(x/per+0.5)
			sawPoints++
			if got != want || got < -per/2 || got >= per/2 {
				side := "elsewhere"
				if math.Mod(math.Abs(x), per) == per/2 {
					side = "at-a-half-period-point"
				}
				c.Violation("SawTooth|not-the-representative-in-[-p/2,p/2)|"+side, fmt.Sprintf("SawTooth(%g, %g) = %g, want %g", x, per, got, want), map[string]any{"x": x, "period": per})
			}
		}
	}
	var states int64
	// ---------------- histories around the constructors: the caller's slices ----------------
	// A composed shape is determined by its operands at construction time: changing the slice that was passed
	// to the constructor afterwards must not change the shape, and the constructor must not rearrange the
	// caller's slice (added after seed C02-7).
	{
		sph := func(x, y, z float64) sdf.SDF3 {
			s, _ := sdf.Sphere3D(0.5)
			return sdf.Transform3D(s, sdf.Translate3d(v3.Vec{X: x, Y: y, Z: z}))
		}
		cir := func(x, y float64) sdf.SDF2 {
			s, _ := sdf.Circle2D(0.5)
			return sdf.Transform2D(s, sdf.Translate2d(v2.Vec{X: x, Y: y}))
		}
		var p3 []v3.Vec
		var p2 []v2.Vec
		for i := -4; i <= 4; i++ {
			for j := -4; j <= 4; j++ {
				p2 = append(p2, v2.Vec{X: float64(i) * 0.7, Y: float64(j) * 0.6})
				for k := -2; k <= 2; k++ {
					p3 = append(p3, v3.Vec{X: float64(i) * 0.7, Y: float64(j) * 0.6, Z: float64(k) * 0.55})
				}
			}
		}
		ev3 := func(s sdf.SDF3) []float64 {
			o := make([]float64, len(p3))
			for i, p := range p3 {
				o[i] = s.Evaluate(p)
			}
			return o
		}
		ev2 := func(s sdf.SDF2) []float64 {
			o := make([]float64, len(p2))
			for i, p := range p2 {
				o[i] = s.Evaluate(p)
			}
			return o
		}
		same := func(a, b []float64) bool {
			for i := range a {
				if a[i] != b[i] && !(math.IsNaN(a[i]) && math.IsNaN(b[i])) {
					return false
				}
			}
			return true
		}
		type hcase struct {
			name string
			run  func() (before, after []float64, rearranged bool)
		}
		cases := []hcase{
			{"Union3D", func() ([]float64, []float64, bool) {
				parts := []sdf.SDF3{sph(0, 0, 0), nil, sph(2, 1, 0), sph(-2, -1, 0.5), nil}
				keep := append([]sdf.SDF3{}, parts...)
				u := sdf.Union3D(parts...)
				re := false
				for i := range parts {
					if parts[i] != keep[i] {
						re = true
					}
				}
				b := ev3(u)
				for i := range parts {
					parts[i] = sph(0.3, 2, -1)
				}
				return b, ev3(u), re
			}},
			{"Union2D", func() ([]float64, []float64, bool) {
				parts := []sdf.SDF2{cir(0, 0), nil, cir(2, 1), cir(-2, -1), nil}
				keep := append([]sdf.SDF2{}, parts...)
				u := sdf.Union2D(parts...)
				re := false
				for i := range parts {
					if parts[i] != keep[i] {
						re = true
					}
				}
				b := ev2(u)
				for i := range parts {
					parts[i] = cir(0.3, 2)
				}
				return b, ev2(u), re
			}},
			{"Multi3D", func() ([]float64, []float64, bool) {
				pos := v3.VecSet{{X: 0}, {X: 2, Y: 1}, {X: -2, Y: -1, Z: 0.5}}
				u := sdf.Multi3D(sph(0, 0, 0), pos)
				b := ev3(u)
				for i := range pos {
					pos[i] = v3.Vec{X: 0.3, Y: 2, Z: -1}
				}
				return b, ev3(u), false
			}},
			{"Multi2D", func() ([]float64, []float64, bool) {
				pos := v2.VecSet{{X: 0}, {X: 2, Y: 1}, {X: -2, Y: -1}}
				u := sdf.Multi2D(cir(0, 0), pos)
				b := ev2(u)
				for i := range pos {
					pos[i] = v2.Vec{X: 0.3, Y: 2}
				}
				return b, ev2(u), false
			}},
			{"Orient3D", func() ([]float64, []float64, bool) {
				dirs := v3.VecSet{{X: 1}, {Y: 1}, {X: -1, Y: -1, Z: 1}}
				u := sdf.Orient3D(sph(0, 0, 2), v3.Vec{Z: 1}, dirs)
				b := ev3(u)
				for i := range dirs {
					dirs[i] = v3.Vec{Z: -1}
				}
				return b, ev3(u), false
			}},
			{"Polygon2D", func() ([]float64, []float64, bool) {
				vs := []v2.Vec{{X: -1, Y: -1}, {X: 2, Y: -1}, {X: 2, Y: 0}, {X: 0, Y: 0}, {X: 0, Y: 2}, {X: -1, Y: 2}}
				keep := append([]v2.Vec{}, vs...)
				u, err := sdf.Polygon2D(vs)
				if err != nil {
					return nil, nil, false
				}
				re := false
				for i := range vs {
					if vs[i] != keep[i] {
						re = true
					}
				}
				b := ev2(u)
				for i := range vs {
					vs[i] = v2.Vec{X: float64(i), Y: float64(i * i)}
				}
				return b, ev2(u), re
			}},
			{"Mesh2D", func() ([]float64, []float64, bool) {
				ls := sdf.VertexToLine([]v2.Vec{{X: -1, Y: -1}, {X: 2, Y: -1}, {X: 2, Y: 0}, {X: 0, Y: 0}, {X: 0, Y: 2}, {X: -1, Y: 2}}, true)
				u, err := sdf.Mesh2D(ls)
				if err != nil {
					return nil, nil, false
				}
				b := ev2(u)
				for i := range ls {
					ls[i] = &sdf.Line2{{X: 5, Y: 5}, {X: 6, Y: 6 + float64(i)}}
				}
				return b, ev2(u), false
			}},
		}
		for _, h := range cases {
			b, a, re := h.run()
			states++
			if b == nil {
				continue
			}
			if re {
				c.Violation(h.name+"|rearranges-the-callers-slice", h.name+": the slice passed to the constructor was modified by it", map[string]any{"constructor": h.name})
			}
			if !same(b, a) {
				c.Violation(h.name+"|shape-changes-when-the-callers-slice-is-modified-afterwards", h.name+": Evaluate changed after the slice that had been passed to the constructor was overwritten", map[string]any{"constructor": h.name})
			}
		}
		// an operand changed AFTER it was used as an operand (a blend installed on a nested union): the outer
		// shape holds the operand, not a copy of what it was made of, so the outer value is the pointwise
		// min / max with the operand's value at the time of the call
		{
			c3 := cir(0, 0.9)
			in2 := sdf.Union2D(cir(0, 0), cir(0.8, 0))
			out2 := sdf.Union2D(in2, c3)
			dif2 := sdf.Difference2D(cir(0.3, 0.3), in2)
			int2 := sdf.Intersect2D(in2, cir(0.4, 0.2))
			in2.(*sdf.UnionSDF2).SetMin(sdf.PolyMin(0.3))
			s3 := sph(0, 0.9, 0)
			in3 := sdf.Union3D(sph(0, 0, 0), sph(0.8, 0, 0))
			out3 := sdf.Union3D(in3, s3)
			dif3 := sdf.Difference3D(sph(0.3, 0.3, 0), in3)
			int3 := sdf.Intersect3D(in3, sph(0.4, 0.2, 0))
			in3.(*sdf.UnionSDF3).SetMin(sdf.PolyMin(0.3))
			states += 6
			bad := func(name string, p any, got, want float64) {
				c.Violation(name+"|outer-shape-ignores-a-blend-installed-on-its-operand-afterwards", fmt.Sprintf("%s at %v: %v, pointwise rule on the operands' current values %v", name, p, got, want), map[string]any{"constructor": name, "history": "inner := Union(a, b); outer := op(inner, c); inner.SetMin(PolyMin(0.3))"})
			}
			for _, p := range p2 {
				i := in2.Evaluate(p)
				if g, w := out2.Evaluate(p), math.Min(i, c3.Evaluate(p)); g != w {
					bad("Union2D(nested union, circle)", p, g, w)
					break
				}
				if g, w := dif2.Evaluate(p), math.Max(cir(0.3, 0.3).Evaluate(p), -i); g != w {
					bad("Difference2D(circle, nested union)", p, g, w)
					break
				}
				if g, w := int2.Evaluate(p), math.Max(i, cir(0.4, 0.2).Evaluate(p)); g != w {
					bad("Intersect2D(nested union, circle)", p, g, w)
					break
				}
			}
			for _, p := range p3 {
				i := in3.Evaluate(p)
				if g, w := out3.Evaluate(p), math.Min(i, s3.Evaluate(p)); g != w {
					bad("Union3D(nested union, sphere)", p, g, w)
					break
				}
				if g, w := dif3.Evaluate(p), math.Max(sph(0.3, 0.3, 0).Evaluate(p), -i); g != w {
					bad("Difference3D(sphere, nested union)", p, g, w)
					break
				}
				if g, w := int3.Evaluate(p), math.Max(i, sph(0.4, 0.2, 0).Evaluate(p)); g != w {
					bad("Intersect3D(nested union, sphere)", p, g, w)
					break
				}
			}
		}
		// arrays with a blend installed (polynomial, round, chamfer, exponential): finite, never above
		// the minimum over the copies, and for the polynomial blend at most (copies-1)*k/4 below it
		{
			type blf struct {
				name string
				f    sdf.MinFunc
				poly float64
			}
			bls := []blf{{"PolyMin(0.3)", sdf.PolyMin(0.3), 0.3}, {"RoundMin(0.3)", sdf.RoundMin(0.3), 0}, {"ChamferMin(0.3)", sdf.ChamferMin(0.3), 0}, {"ExpMin(8)", sdf.ExpMin(8), 0}} // PowMin overflows on the arrays' MaxFloat64 start value on the unchanged tree (NaN); the property names the polynomial blend
			for _, bl := range bls {
				a3 := sdf.Array3D(sph(0, 0, 0), v3i.Vec{X: 3, Y: 2, Z: 1}, v3.Vec{X: 0.8, Y: 0.9, Z: 1})
				a3.(*sdf.ArraySDF3).SetMin(bl.f)
				a2 := sdf.Array2D(cir(0, 0), v2i.Vec{X: 3, Y: 2}, v2.Vec{X: 0.8, Y: 0.9})
				a2.(*sdf.ArraySDF2).SetMin(bl.f)
				states += 2
				for _, p := range p3 {
					m := math.Inf(1)
					for i := 0; i < 3; i++ {
						for j := 0; j < 2; j++ {
							m = math.Min(m, sph(0, 0, 0).Evaluate(p.Sub(v3.Vec{X: 0.8 * float64(i), Y: 0.9 * float64(j)})))
						}
					}
					g := a3.Evaluate(p)
					if math.IsNaN(g) || math.IsInf(g, 0) || g > m+1e-9 || (bl.poly > 0 && g < m-5*bl.poly/4-1e-9) {
						c.Violation("Array3D["+bl.name+"]|blended-array-not-within-the-bounds-of-the-blend", fmt.Sprintf("Array3D 3x2x1 of a sphere with %s at %v: %v, minimum over the copies %v", bl.name, p, g, m), map[string]any{"blend": bl.name, "point": p})
						break
					}
				}
				for _, p := range p2 {
					m := math.Inf(1)
					for i := 0; i < 3; i++ {
						for j := 0; j < 2; j++ {
							m = math.Min(m, cir(0, 0).Evaluate(p.Sub(v2.Vec{X: 0.8 * float64(i), Y: 0.9 * float64(j)})))
						}
					}
					g := a2.Evaluate(p)
					if math.IsNaN(g) || math.IsInf(g, 0) || g > m+1e-9 || (bl.poly > 0 && g < m-5*bl.poly/4-1e-9) {
						c.Violation("Array2D["+bl.name+"]|blended-array-not-within-the-bounds-of-the-blend", fmt.Sprintf("Array2D 3x2 of a circle with %s at %v: %v, minimum over the copies %v", bl.name, p, g, m), map[string]any{"blend": bl.name, "point": p})
						break
					}
				}
			}
		}
		// plain unions nested in plain unions, directly and through a transform, with far-apart inner operands: the
		// outer union is the pointwise minimum whatever scratch space the inner evaluation uses
		{
			a, b, d := cir(-3, 0), cir(3, 0.3), cir(0, 2)
			in := sdf.Union2D(a, b)
			for k, outer := range []sdf.SDF2{
				sdf.Union2D(in, d), sdf.Union2D(d, in), sdf.Union2D(sdf.Transform2D(in, sdf.Translate2d(v2.Vec{X: 0.25})), d),
				sdf.Union2D(sdf.Union2D(in, cir(0, -2.5)), d), sdf.Union2D(sdf.Union2D(a), sdf.Union2D(b), sdf.Union2D(d)),
			} {
				states++
				for _, p := range p2 {
					for _, q := range []v2.Vec{p, p.MulScalar(1.7), {X: p.Y, Y: p.X}} {
						ia, ib := a.Evaluate(q), b.Evaluate(q)
						want := math.Min(math.Min(ia, ib), d.Evaluate(q))
						switch k {
						case 2:
							q2 := q.Sub(v2.Vec{X: 0.25})
							want = math.Min(math.Min(a.Evaluate(q2), b.Evaluate(q2)), d.Evaluate(q))
						case 3:
							want = math.Min(want, cir(0, -2.5).Evaluate(q))
						}
						if g := outer.Evaluate(q); g != want {
							c.Violation("Union2D(nested plain unions)|value-differs-from-the-pointwise-minimum", fmt.Sprintf("nesting %d at %v: %v, pointwise minimum of the leaves %v", k, q, g, want), map[string]any{"nesting": k, "point": q})
							break
						}
					}
				}
			}
		}
		// transforms that are almost, but not exactly, the identity still map the point: very small models moved
		// by very small amounts, and far-away models turned by very small angles
		{
			tiny := func(name string, got, want float64, scale float64) {
				states++
				if !(math.Abs(got-want) <= 1e-9*scale) {
					c.Violation("denotation|"+name+"|near-identity-transform-not-applied", fmt.Sprintf("%s: value %g, operand at the mapped point %g", name, got, want), map[string]any{"case": name})
				}
			}
			s10, _ := sdf.Sphere3D(1e-10)
			c10, _ := sdf.Circle2D(1e-10)
			for _, e := range []float64{6e-10, -3e-10, 1e-12} {
				q3 := v3.Vec{X: e}
				tiny(fmt.Sprintf("Transform3D[Translate(%g,0,0)](Sphere3D(1e-10))", e), sdf.Transform3D(s10, sdf.Translate3d(q3)).Evaluate(q3), -1e-10, 1e-10)
				tiny(fmt.Sprintf("Transform3D[Translate(%g,0,0)](Sphere3D(1e-10)) at the origin", e), sdf.Transform3D(s10, sdf.Translate3d(q3)).Evaluate(v3.Vec{}), math.Abs(e)-1e-10, 1e-10)
				q2 := v2.Vec{Y: e}
				tiny(fmt.Sprintf("Transform2D[Translate(0,%g)](Circle2D(1e-10))", e), sdf.Transform2D(c10, sdf.Translate2d(q2)).Evaluate(q2), -1e-10, 1e-10)
				tiny(fmt.Sprintf("Transform2D[Translate(0,%g)](Circle2D(1e-10)) at the origin", e), sdf.Transform2D(c10, sdf.Translate2d(q2)).Evaluate(v2.Vec{}), math.Abs(e)-1e-10, 1e-10)
			}
			far3 := sdf.Transform3D(sph(0, 0, 0), sdf.Translate3d(v3.Vec{X: 1e9}))
			for _, a := range []float64{8e-10, -2e-10} {
				// turning by a about z moves the far sphere by 1e9*a along y
				r := sdf.Transform3D(far3, sdf.RotateZ(a))
				tiny(fmt.Sprintf("Transform3D[RotateZ(%g rad)](sphere r=0.5 at x=1e9)", a), r.Evaluate(v3.Vec{X: 1e9, Y: 1e9 * a}), -0.5, 1e3)
				far2 := sdf.Transform2D(cir(0, 0), sdf.Translate2d(v2.Vec{X: 1e9}))
				r2 := sdf.Transform2D(far2, sdf.Rotate2d(a))
				tiny(fmt.Sprintf("Transform2D[Rotate(%g rad)](circle r=0.5 at x=1e9)", a), r2.Evaluate(v2.Vec{X: 1e9, Y: 1e9 * a}), -0.5, 1e3)
			}
			for _, k := range []float64{1 + 1e-10, 1 - 1e-10} {
				big, _ := sdf.Sphere3D(1e9)
				tiny(fmt.Sprintf("ScaleUniform3D[%v](Sphere3D(1e9))", k), sdf.ScaleUniform3D(big, k).Evaluate(v3.Vec{X: 1e9 * k}), 0, 1e3)
			}
		}
		// RotateToVector for parallel, anti-parallel and general direction pairs of any length: a sphere on the
		// base direction must end up on the target direction (independent of which half turn is chosen for
		// opposite vectors)
		sp, _ := sdf.Sphere3D(0.5)
		for _, la := range []float64{1, 2, 25.4, 0.1} {
			for _, b := range []v3.Vec{{Z: 1}, {Z: -1}, {Z: -2}, {Z: 5}, {Z: -25.4}, {X: 1}, {X: -3}, {Y: 2}, {X: 1, Y: 2, Z: 2}, {X: -1, Y: -1, Z: -1}, {X: 0.5, Z: -0.5}} {
				for ax := 0; ax < 3; ax++ {
					base := [3]v3.Vec{{Z: la}, {X: la}, {Y: -la}}[ax]
					bu := base.MulScalar(1 / base.Length())
					m := sdf.RotateToVector(base, b)
					s := sdf.Transform3D(sdf.Transform3D(sp, sdf.Translate3d(bu.MulScalar(3))), m)
					tu := b.MulScalar(3 / b.Length())
					states++
					for _, q := range []v3.Vec{tu, tu.MulScalar(0.5), {X: 0.3, Y: -0.2, Z: 0.1}, tu.Add(v3.Vec{X: 0.25, Y: 0.25})} {
						want := q.Sub(tu).Length() - 0.5
						if got := s.Evaluate(q); !(math.Abs(got-want) <= 1e-9) {
							c.Violation("denotation|Transform3D[RotateToVector]|value|"+rtvClass(base, b), fmt.Sprintf("RotateToVector(%v, %v) applied to a sphere at 3 along the base: value %g at %v, a sphere at 3 along the target gives %g", base, b, got, q, want), map[string]any{"base": base, "target": b, "point": q})
							break
						}
					}
				}
			}
		}
	}

	// ---------------- cache wrapper: all query histories (explicit-state BFS) ----------------
	menu := []v2.Vec{{X: 0, Y: 0}, {X: math.Copysign(0, -1), Y: 0}, {X: 0.75, Y: 0.25}, {X: 0.75, Y: 0.25000000000000006}, {X: -3, Y: 7}}
	var hist int64
	for _, mk := range []func() sdf.SDF2{
		func() sdf.SDF2 { s, _ := sdf.Circle2D(1); return s },
		func() sdf.SDF2 { return sdf.Box2D(v2.Vec{X: 2, Y: 1}, 0.25) },
		func() sdf.SDF2 { s, _ := sdf.Polygon2D(sdf.Nagon(5, 2)); return s },
	} {
		inner := mk()
		seen := map[string]bool{}
		var rec func(h []int)
		rec = func(h []int) {
			hist++
			cs := sdf.Cache2D(mk())
			keys := map[int]bool{}
			for step, q := range h {
				got := cs.Evaluate(menu[q])
				want := inner.Evaluate(menu[q])
				if math.Float64bits(got) != math.Float64bits(want) {
					c.Violation("Cache2D|returns-a-value-other-than-the-wrapped-shape's", fmt.Sprintf("history %v step %d: cache %v, wrapped shape %v at %v", h, step, got, want, menu[q]), map[string]any{"history": h, "menu": menu})
					return
				}
				keys[q] = true
			}
			var ks []int
			for k := range keys {
				ks = append(ks, k)
			}
			sort.Ints(ks)
			key := fmt.Sprint(ks)
			if !seen[key] {
				seen[key] = true
				states++
			}
			if len(h) == 5 {
				return
			}
			for q := range menu {
				rec(append(append([]int{}, h...), q))
			}
		}
		rec(nil)
	}

	// ---------------- voxel wrapper ----------------
	var vox int64
	sph, _ := sdf.Sphere3D(1)
	bx, _ := sdf.Box3D(v3.Vec{X: 2, Y: 1, Z: 3}, 0.25)
	cyl, _ := sdf.Cylinder3D(2, 0.75, 0)
	for si, s := range []sdf.SDF3{sph, bx, sdf.Transform3D(cyl, sdf.Translate3d(v3.Vec{X: -4, Y: -3, Z: -5}))} {
		for _, n := range []int{1, 2, 3, 5} {
			vx := sdf.NewVoxelSDF3(s, n, nil)
			bb := s.BoundingBox()
			size := bb.Size()
			res := size.MaxComponent() / float64(n)
			cx, cy, cz := int(size.X/res), int(size.Y/res), int(size.Z/res)
			desc := map[string]any{"shape_index": si, "meshCells": n}
			corner := func(i, j, k int) v3.Vec {
				return v3.Vec{X: bb.Min.X + size.X*float64(i)/float64(cx), Y: bb.Min.Y + size.Y*float64(j)/float64(cy), Z: bb.Min.Z + size.Z*float64(k)/float64(cz)}
			}
			for i := 0; i < cx; i++ {
				for j := 0; j < cy; j++ {
					for k := 0; k < cz; k++ {
						lo, hi := math.Inf(1), math.Inf(-1)
						for d := 0; d < 8; d++ {
							p := corner(i+d&1, j+d>>1&1, k+d>>2&1)
							w := s.Evaluate(p)
							lo, hi = math.Min(lo, w), math.Max(hi, w)
							if d == 0 {
								vox++
								if g := vx.Evaluate(p); math.Abs(g-w) > 1e-9*(1+size.Length()) {
									c.Violation("NewVoxelSDF3|corner-value", fmt.Sprintf("voxel(%d cells) at corner %v: %g, wrapped shape %g", n, p, g, w), desc)
								}
							}
						}
						for a := 1; a < 5; a++ {
							for b := 1; b < 5; b++ {
								for e := 1; e < 5; e++ {
									p0, p1 := corner(i, j, k), corner(i+1, j+1, k+1)
									p := v3.Vec{X: p0.X + (p1.X-p0.X)*float64(a)/5, Y: p0.Y + (p1.Y-p0.Y)*float64(b)/5, Z: p0.Z + (p1.Z-p0.Z)*float64(e)/5}
									vox++
									if g := vx.Evaluate(p); g < lo-1e-9 || g > hi+1e-9 {
										c.Violation("NewVoxelSDF3|value-outside-corner-range", fmt.Sprintf("voxel(%d cells) at %v: %g outside the corner range [%g, %g]", n, p, g, lo, hi), desc)
									}
								}
							}
						}
					}
				}
			}
		}
	}
	c.Guard("reference-checked combinator classes >= 60", roots.Len() >= 60, fmt.Sprint(roots.Len()))
	c.Finish(vlib.Coverage{
		States: withRef + hist + int64(len(bfs)), Transitions: cmp + bl + vox + hist, Evaluations: done2 + done3 + hist, Nontrivial: withRef,
		Rule:       "states = expression trees compared with the reference interpreter + cache query histories + blend functions; transitions = point comparisons; non-trivial = trees that carry a reference",
		Samples:    []any{n3[len(n3)/2].Name, n2[len(n2)/2].Name, map[string]any{"cache_histories": hist, "distinct_cache_states": states, "blend_grid_points": bl, "voxel_points": vox, "built": built}},
		Exhaustive: true,
		Bounds:     map[string]any{"tree_depth": 3, "lattice_2d": N2, "lattice_3d": N3, "cache_history_length": 5, "cache_point_menu": 5, "blend_grid": "a,b in [-2,2] step 1/8, k in {1/8,1/2,2}"},
		Extra:      map[string]any{"classes": roots.Len()},
		Assumptions: []string{"value identity where the operation fixes the value; inside/outside only (outside a 1e-9 band) where the distance to a cutting surface is an implementation choice (cut, extrusion slabs, revolve wedge, screw)",
			"twist handedness and the in-plane basis of Slice2D are those of the pinned commit (the documentation does not fix them); Screw3D is right-handed for starts > 0 as documented", "rotate-copy is compared with the union of n rotated copies for operands inside one sector"},
	})
}

// splitOperands returns the two operand names of "Op3D[blend](a, b)" for leaf operands.
func splitOperands(name string) (string, string) {
	i := strings.Index(name, "](")
	if i < 0 {
		return "", ""
	}
	body := name[i+2 : len(name)-1]
	// operands are leaves: split at ", " with balanced parentheses
	depth := 0
	for k := 0; k < len(body)-1; k++ {
		switch body[k] {
		case '(':
			depth++
		case ')':
			depth--
		case ',':
			if depth == 0 && body[k+1] == ' ' {
				return body[:k], body[k+2:]
			}
		}
	}
	return "", ""
}

// rtvClass names the relative position of the two directions.
func rtvClass(a, b v3.Vec) string {
	cr := a.Cross(b).Length()
	d := a.Dot(b)
	l := "unit-lengths"
	if math.Abs(a.Length()-1) > 1e-12 || math.Abs(b.Length()-1) > 1e-12 {
		l = "non-unit-lengths"
	}
	switch {
	case cr <= 1e-12*a.Length()*b.Length() && d > 0:
		return "parallel," + l
	case cr <= 1e-12*a.Length()*b.Length():
		return "anti-parallel," + l
	}
	return "general," + l
}

var (
	leaf3     map[string]shapes.N3
	leaf3Once sync.Once
)

func findLeaf3(name string) shapes.Ev3 {
	leaf3Once.Do(func() {
		leaf3 = map[string]shapes.N3{}
		for _, l := range shapes.LeafNodes3() {
			leaf3[l.Name] = l
		}
	})
	l, ok := leaf3[name]
	if !ok {
		return nil
	}
	f, err := l.Ref()
	if err != nil {
		return nil
	}
	return f
}
