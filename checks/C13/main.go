// C13 — STL files are well-formed and round-trip exactly.
// Engine E: every vertex of a 10-value coordinate menu cubed, all lists of length 0..2 over a 40-triangle
// menu, long lists at the buffer boundaries, decreasing-size histories on one path, through SaveSTL,
// the streaming ToSTL writer and LoadSTL, checked by an independent byte-level parser.
package main

import (
	"bytes"
	"encoding/binary"
	"fmt"
	"math"
	"os"
	"path/filepath"
	"strings"
	"sync/atomic"

	"github.com/deadsy/sdfx/render"
	"github.com/deadsy/sdfx/sdf"
	v3 "github.com/deadsy/sdfx/vec/v3"

	"verif/lib/vlib"
)

var work = filepath.Join(vlib.VerifDir, ".work", "c13")

type scripted struct{ ts []*sdf.Triangle3 }

func (s scripted) Render(_ sdf.SDF3, out sdf.Triangle3Writer) {
	// batches of 0..5 triangles like a marching cubes renderer; long lists mix these with writes beyond the
	// buffer's flush threshold (3, 260, 127, 5, 300, 1, ...)
	big := []int{200, -1, 180, -1, 3, 260, 127, -1, 5, 300, 1, 256, 2} // -1: Close() used as a flush in the middle of the stream
	for i, k := 0, 0; i < len(s.ts); k++ {
		n := 1 + i%5
		if len(s.ts) >= 300 {
			n = big[k%len(big)]
		}
		if n < 0 {
			out.Close()
			continue
		}
		if i+n > len(s.ts) {
			n = len(s.ts) - i
		}
		out.Write(s.ts[i : i+n])
		out.Write(nil)
		i += n
	}
	out.Close()
}
func (s scripted) Info(sdf.SDF3) string { return "scripted" }

type dummy struct{}

func (dummy) Evaluate(v3.Vec) float64 { return 1 }
func (dummy) BoundingBox() sdf.Box3   { return sdf.Box3{Max: v3.Vec{X: 1, Y: 1, Z: 1}} }

type rec struct {
	n, a, b, c [3]uint32
	attr       uint16
}

// parse is the independent reader: returns header count and records, or an error string.
func parse(b []byte) (uint32, []rec, string) {
	if len(b) < 84 {
		return 0, nil, fmt.Sprintf("file has %d bytes (< 84)", len(b))
	}
	cnt := binary.LittleEndian.Uint32(b[80:84])
	if int64(len(b)) != 84+50*int64(cnt) {
		return cnt, nil, fmt.Sprintf("count field %d but file length %d (expected %d)", cnt, len(b), 84+50*int64(cnt))
	}
	rs := make([]rec, cnt)
	for i := range rs {
		p := b[84+50*i:]
		for k := 0; k < 3; k++ {
			rs[i].n[k] = binary.LittleEndian.Uint32(p[4*k:])
			rs[i].a[k] = binary.LittleEndian.Uint32(p[12+4*k:])
			rs[i].b[k] = binary.LittleEndian.Uint32(p[24+4*k:])
			rs[i].c[k] = binary.LittleEndian.Uint32(p[36+4*k:])
		}
		rs[i].attr = binary.LittleEndian.Uint16(p[48:])
	}
	return cnt, rs, ""
}

func f32(x float64) uint32 { return math.Float32bits(float32(x)) }

func vbits(v v3.Vec) [3]uint32 { return [3]uint32{f32(v.X), f32(v.Y), f32(v.Z)} }

// moderate reports whether the normal of t is well defined numerically; it returns the reference normal.
func moderate(t *sdf.Triangle3) (v3.Vec, bool) {
	for _, p := range t {
		for _, x := range []float64{p.X, p.Y, p.Z} {
			if math.Abs(x) > 1e6 || (x != 0 && math.Abs(x) < 1e-12) {
				return v3.Vec{}, false
			}
		}
	}
	e1 := v3.Vec{X: t[1].X - t[0].X, Y: t[1].Y - t[0].Y, Z: t[1].Z - t[0].Z}
	e2 := v3.Vec{X: t[2].X - t[0].X, Y: t[2].Y - t[0].Y, Z: t[2].Z - t[0].Z}
	c := v3.Vec{X: e1.Y*e2.Z - e1.Z*e2.Y, Y: e1.Z*e2.X - e1.X*e2.Z, Z: e1.X*e2.Y - e1.Y*e2.X}
	l := math.Sqrt(c.X*c.X + c.Y*c.Y + c.Z*c.Z)
	l1 := math.Sqrt(e1.X*e1.X + e1.Y*e1.Y + e1.Z*e1.Z)
	l2 := math.Sqrt(e2.X*e2.X + e2.Y*e2.Y + e2.Z*e2.Z)
	if l1 == 0 || l2 == 0 || l/(l1*l2) < 1e-6 {
		return v3.Vec{}, false
	}
	return v3.Vec{X: c.X / l, Y: c.Y / l, Z: c.Z / l}, true
}

func class(ts []*sdf.Triangle3) string {
	tiny, huge := false, false
	for _, t := range ts {
		for _, p := range t {
			for _, x := range []float64{p.X, p.Y, p.Z} {
				if math.Abs(x) > 1e30 {
					huge = true
				}
				if x != 0 && math.Abs(x) < 1e-5 {
					tiny = true
				}
			}
		}
	}
	switch {
	case huge:
		return "huge-coordinates"
	case tiny:
		return "tiny-coordinates"
	}
	return fmt.Sprintf("ordinary,n=%s", sizeClass(len(ts)))
}

func sizeClass(n int) string {
	switch {
	case n == 0:
		return "0"
	case n <= 2:
		return "1-2"
	case n <= 82:
		return "<=82"
	}
	return ">82"
}

// checkBytes verifies a binary STL against the list it was written from.
func checkBytes(c *vlib.Ctx, who string, b []byte, ts []*sdf.Triangle3, desc map[string]any) bool {
	cl := class(ts)
	cnt, rs, e := parse(b)
	if e != "" {
		c.Violation(who+"|malformed-file|"+cl, fmt.Sprintf("%s of %d triangles: %s", who, len(ts), e), desc)
		return false
	}
	if int(cnt) != len(ts) {
		c.Violation(who+"|count-field|"+cl, fmt.Sprintf("%s: count field %d for %d triangles", who, cnt, len(ts)), desc)
		return false
	}
	for i, t := range ts {
		r := rs[i]
		if r.a != vbits(t[0]) || r.b != vbits(t[1]) || r.c != vbits(t[2]) {
			c.Violation(who+"|vertex-not-float32-of-input-in-order|"+cl, fmt.Sprintf("%s: record %d holds %x %x %x for triangle %v", who, i, r.a, r.b, r.c, *t), desc)
			return false
		}
		if r.attr != 0 {
			c.Violation(who+"|attribute-bytes-nonzero|"+cl, fmt.Sprintf("%s: record %d attribute %d", who, i, r.attr), desc)
			return false
		}
		if n, ok := moderate(t); ok {
			g := v3.Vec{X: float64(math.Float32frombits(r.n[0])), Y: float64(math.Float32frombits(r.n[1])), Z: float64(math.Float32frombits(r.n[2]))}
			if !(math.Abs(g.Length()-1) <= 1e-6 && g.Dot(n) >= 1-1e-6) {
				c.Violation(who+"|normal-not-right-hand-unit-normal|"+cl, fmt.Sprintf("%s: record %d normal %v for triangle %v (expected %v)", who, i, g, *t, n), desc)
				return false
			}
		}
	}
	return true
}

func main() {
	c := vlib.Start("C13")
	os.MkdirAll(work, 0o755)
	var states, trans int64
	samples := []any{}
	V := []float64{0, math.Copysign(0, -1), 1, -1, 1.0 / 3, 16777217, 1e-40, 3e38, -3e38, 1e39}
	var verts []v3.Vec
	for _, x := range V {
		for _, y := range V {
			for _, z := range V {
				verts = append(verts, v3.Vec{X: x, Y: y, Z: z})
			}
		}
	}
	// (1) 1000 triangles: vertex i, a rotation of it and a fixed vertex; in one file and one per file
	var big []*sdf.Triangle3
	for i, v := range verts {
		big = append(big, &sdf.Triangle3{v, verts[(i*7+3)%len(verts)], {X: v.Z, Y: v.X, Z: v.Y}})
	}
	// (2) sub-menu of 40 triangles incl. scales 1e-7..1e3, degenerate and shared vertices
	var menu []*sdf.Triangle3
	for _, sc := range []float64{1e-7, 1e-3, 1, 1e3} {
		for k := 0; k < 8; k++ {
			a := v3.Vec{X: sc * float64(k%3), Y: sc * float64(k%2), Z: sc * 0.25 * float64(k)}
			b := v3.Vec{X: a.X + sc, Y: a.Y + sc*float64(k%2), Z: a.Z}
			d := v3.Vec{X: a.X, Y: a.Y + sc, Z: a.Z + sc*float64((k+1)%2)}
			menu = append(menu, &sdf.Triangle3{a, b, d})
		}
	}
	menu = append(menu, &sdf.Triangle3{{X: 1, Y: 2, Z: 3}, {X: 1, Y: 2, Z: 3}, {X: 4, Y: 5, Z: 6}}, // degenerate
		&sdf.Triangle3{{X: -1.5, Y: -2.25, Z: -3}, {X: 0, Y: 0, Z: 0}, {X: 1.0 / 3, Y: 2.0 / 3, Z: 16777217}},
		&sdf.Triangle3{{X: 0, Y: 0, Z: 0}, {X: 0, Y: 1, Z: 0}, {X: 1, Y: 0, Z: 0}}, // clockwise seen from +z
		&sdf.Triangle3{{X: 1e39, Y: 0, Z: 0}, {X: 0, Y: -1e39, Z: 0}, {X: 0, Y: 0, Z: 1e-40}},
		&sdf.Triangle3{{X: 12345.678912, Y: -0.1, Z: 0.1}, {X: 3, Y: 4, Z: 5}, {X: 6, Y: 7, Z: 9}},
		// small triangles far from the origin with coordinates that are not float32 values: the normal comes from
		// the edge vectors, not from products of the positions
		&sdf.Triangle3{{X: 200000.123, Y: -150000.77, Z: 99999.31}, {X: 200000.146, Y: -150000.77, Z: 99999.32}, {X: 200000.123, Y: -150000.751, Z: 99999.335}},
		&sdf.Triangle3{{X: -512345.6789, Y: 4321.0123, Z: 777777.7}, {X: -512345.6589, Y: 4321.0223, Z: 777777.7}, {X: -512345.6789, Y: 4321.0323, Z: 777777.73}},
		&sdf.Triangle3{{X: 1, Y: 0, Z: 0}, {X: 0, Y: 1, Z: 0}, {X: 0, Y: 0, Z: 1}},
		&sdf.Triangle3{{X: 0.1, Y: 0.2, Z: 0.3}, {X: 0.4, Y: 0.5, Z: 0.6}, {X: 0.7, Y: 0.8, Z: 0.95}},
		&sdf.Triangle3{{X: 100, Y: 100, Z: 100}, {X: 100 + 1e-6, Y: 100, Z: 100}, {X: 100, Y: 100 + 1e-6, Z: 100}},
		// slivers whose float32-rounded corners wind the other way round than the input (round 8): the stored normal
		// (from the float64 input) and the stored corners disagree, and the loader must return the corners as stored
		&sdf.Triangle3{{X: 0, Y: 0, Z: 0}, {X: 1, Y: 1 + 6e-8, Z: 0}, {X: 3, Y: 3 + 2e-7, Z: 0}},
		&sdf.Triangle3{{X: 2500.0001, Y: -2100.0002, Z: 7}, {X: 2500.0003, Y: -2100.00005, Z: 7}, {X: 2500.00012, Y: -2100.00041, Z: 7}})
	{
		flipped := 0
		for _, t := range menu {
			r := func(v v3.Vec) v3.Vec {
				return v3.Vec{X: float64(float32(v.X)), Y: float64(float32(v.Y)), Z: float64(float32(v.Z))}
			}
			n64 := t[1].Sub(t[0]).Cross(t[2].Sub(t[0]))
			n32 := r(t[1]).Sub(r(t[0])).Cross(r(t[2]).Sub(r(t[0])))
			if n64.Dot(n32) < 0 {
				flipped++
			}
		}
		c.Guard("menu holds a triangle whose float32 rounding reverses its orientation", flipped >= 1, fmt.Sprint(flipped))
	}
	var lists [][]*sdf.Triangle3
	lists = append(lists, nil, big)
	for _, t := range big {
		lists = append(lists, []*sdf.Triangle3{t})
	}
	for _, a := range menu {
		lists = append(lists, []*sdf.Triangle3{a})
		for _, b := range menu {
			lists = append(lists, []*sdf.Triangle3{a, b})
		}
	}
	if c.Thorough() {
		// all lists of length 3 over the menu, and every length 3..1100 of the numbered family
		for _, a := range menu {
			for _, b := range menu {
				for _, d := range menu {
					lists = append(lists, []*sdf.Triangle3{a, b, d})
				}
			}
		}
	}
	long := func(n int) []*sdf.Triangle3 {
		o := make([]*sdf.Triangle3, n)
		for i := range o {
			f := float64(i)
			o[i] = &sdf.Triangle3{{X: f, Y: 0.5, Z: -f}, {X: f + 1, Y: 0.5, Z: -f}, {X: f, Y: 1.5 + f/8, Z: -f}}
		}
		return o
	}
	for _, n := range vlib.Pick(c, []int{81, 82, 255, 256, 257, 1000}, []int{81, 82, 83, 255, 256, 257, 511, 512, 513, 1000, 70000}) {
		lists = append(lists, long(n))
	}
	// every length up to a bound (across the flush thresholds of the 256-triangle buffer, and whatever block size a
	// writer may use internally): quick 3..1400, thorough 3..4100
	for n := 3; n <= vlib.Pick(c, 1400, 4100); n++ {
		lists = append(lists, long(n))
	}
	states += c.ParFor(len(lists), func(i int) {
		ts := lists[i]
		p1 := filepath.Join(work, fmt.Sprintf("save.%d.stl", i))
		p2 := filepath.Join(work, fmt.Sprintf("stream.%d.stl", i))
		defer os.Remove(p1)
		defer os.Remove(p2)
		desc := map[string]any{"list_index": i, "triangles": len(ts)}
		if len(ts) <= 2 {
			desc["list"] = ts
		}
		if err := render.SaveSTL(p1, ts); err != nil {
			c.Violation("SaveSTL|error|"+class(ts), fmt.Sprintf("SaveSTL of %d triangles: %v", len(ts), err), desc)
			return
		}
		b1, _ := os.ReadFile(p1)
		if !checkBytes(c, "SaveSTL", b1, ts, desc) {
			return
		}
		render.ToSTL(dummy{}, p2, scripted{ts})
		b2, _ := os.ReadFile(p2)
		if !bytes.Equal(b1, b2) {
			checkBytes(c, "ToSTL", b2, ts, desc)
			c.Violation("ToSTL|bytes-differ-from-SaveSTL|"+class(ts), fmt.Sprintf("ToSTL wrote %d bytes, SaveSTL %d bytes for the same %d triangles", len(b2), len(b1), len(ts)), desc)
			return
		}
		// round trip
		for _, p := range []string{p1, p2} {
			got, err := render.LoadSTL(p)
			if err != nil {
				c.Violation("LoadSTL|error-on-own-output|"+class(ts), fmt.Sprintf("LoadSTL of a file written from %d triangles: %v", len(ts), err), desc)
				return
			}
			if len(got) != len(ts) {
				c.Violation("LoadSTL|count|"+class(ts), fmt.Sprintf("LoadSTL returned %d triangles, %d were saved", len(got), len(ts)), desc)
				return
			}
			for k, t := range ts {
				for q := 0; q < 3; q++ {
					w := v3.Vec{X: float64(float32(t[q].X)), Y: float64(float32(t[q].Y)), Z: float64(float32(t[q].Z))}
					g := got[k][q]
					if math.Float64bits(g.X) != math.Float64bits(w.X) || math.Float64bits(g.Y) != math.Float64bits(w.Y) || math.Float64bits(g.Z) != math.Float64bits(w.Z) {
						c.Violation("LoadSTL|value-not-float32-rounding-of-input|"+class(ts), fmt.Sprintf("triangle %d vertex %d: loaded %v, saved %v (float32: %v)", k, q, g, t[q], w), desc)
						return
					}
				}
			}
		}
		atomic.AddInt64(&trans, int64(3*len(ts)+3))
	})
	samples = append(samples, map[string]any{"lists": len(lists), "coordinate_menu": fmt.Sprint(V), "example": menu[33]})

	// (3) histories on one path: large then small (a writer must truncate)
	hp := filepath.Join(work, "history.stl")
	hseqs := [][]int{{300, 3, 0, 1}, {1, 300, 2}, {82, 81}}
	if c.Thorough() {
		sz := []int{0, 1, 2, 81, 82, 255, 256, 257, 300, 513}
		for _, a := range sz {
			for _, b := range sz {
				hseqs = append(hseqs, []int{a, b})
				for _, d := range sz {
					hseqs = append(hseqs, []int{a, b, d})
				}
			}
		}
	}
	for _, seq := range hseqs {
		for _, writer := range []string{"SaveSTL", "ToSTL", "mixed"} {
			os.Remove(hp)
			for step, n := range seq {
				ts := long(n)
				w := writer
				if w == "mixed" {
					w = []string{"SaveSTL", "ToSTL"}[step%2]
				}
				if w == "SaveSTL" {
					render.SaveSTL(hp, ts)
				} else {
					render.ToSTL(dummy{}, hp, scripted{ts})
				}
				b, _ := os.ReadFile(hp)
				desc := map[string]any{"history_sizes": seq[:step+1], "writer": writer, "same_path": true}
				states++
				if !checkBytes(c, w+"|history-on-one-path", b, ts, desc) {
					break
				}
				got, err := render.LoadSTL(hp)
				if err != nil || len(got) != n {
					c.Violation("LoadSTL|history-on-one-path", fmt.Sprintf("after writing %v triangles to one path LoadSTL returns %d triangles, err %v", seq[:step+1], len(got), err), desc)
					break
				}
			}
		}
	}
	samples = append(samples, map[string]any{"histories": "sizes [300 3 0 1], [1 300 2], [82 81] written to the same path by SaveSTL / ToSTL / alternating"})

	// (3b) a binary file of more than 2^20 triangles (about 52 MB) written by SaveSTL and read back: every triangle
	{
		n := 1<<20 + 1
		ts := make([]*sdf.Triangle3, n)
		for i := range ts {
			f := float64(i % 4096)
			g := float64(i / 4096)
			ts[i] = &sdf.Triangle3{{X: f, Y: g, Z: 0}, {X: f + 1, Y: g, Z: 0}, {X: f, Y: g + 1, Z: 0.5}}
		}
		p := filepath.Join(work, "big.stl")
		desc := map[string]any{"triangles": n}
		states++
		if err := render.SaveSTL(p, ts); err != nil {
			c.Violation("SaveSTL|error|big", err.Error(), desc)
		} else {
			fi, _ := os.Stat(p)
			got, err := render.LoadSTL(p)
			if fi == nil || fi.Size() != int64(84+50*n) {
				c.Violation("SaveSTL|size|big", fmt.Sprintf("file of %d triangles has the wrong size", n), desc)
			} else if err != nil || len(got) != n {
				c.Violation("LoadSTL|round-trip-count|more-than-2^20-triangles", fmt.Sprintf("a well-formed binary file of %d triangles loads as %d triangles (error %v)", n, len(got), err), desc)
			} else {
				for i := range got {
					if *got[i] != *ts[i] {
						c.Violation("LoadSTL|round-trip-vertex|more-than-2^20-triangles", fmt.Sprintf("triangle %d of %d loads as %v, written %v", i, n, *got[i], *ts[i]), desc)
						break
					}
				}
				trans += int64(n)
			}
		}
		os.Remove(p)
	}
	// (4) reference ASCII files
	type asc struct {
		name string
		nl   string
		ind  string
		f    string
	}
	for _, a := range []asc{{"LF %g", "\n", "  ", "%g"}, {"CRLF %g", "\r\n", "\t", "%g"}, {"LF %e leading blanks", "\n", "      ", "%e"}, {"LF %.9f", "\n", "", "%.9f"}} {
		for _, n := range []int{1, 2, 7, 40} {
			ts := menu[:n]
			var sb strings.Builder
			sb.WriteString("solid reference" + a.nl)
			for _, t := range ts {
				sb.WriteString(a.ind + "facet normal 0 0 1" + a.nl + a.ind + a.ind + "outer loop" + a.nl)
				for _, p := range t {
					sb.WriteString(a.ind + a.ind + a.ind + "vertex " + fmt.Sprintf(a.f+" "+a.f+" "+a.f, p.X, p.Y, p.Z) + a.nl)
				}
				sb.WriteString(a.ind + a.ind + "endloop" + a.nl + a.ind + "endfacet" + a.nl)
			}
			sb.WriteString("endsolid reference" + a.nl)
			p := filepath.Join(work, "ref.stl")
			os.WriteFile(p, []byte(sb.String()), 0o644)
			got, err := render.LoadSTL(p)
			desc := map[string]any{"ascii_format": a.name, "triangles": n}
			states++
			if err != nil || len(got) != n {
				c.Violation("LoadSTL|ascii|count-or-error", fmt.Sprintf("ASCII (%s) with %d facets: %d triangles, err %v", a.name, n, len(got), err), desc)
				continue
			}
			for k, t := range ts {
				for q := 0; q < 3; q++ {
					var w v3.Vec
					fmt.Sscanf(fmt.Sprintf(a.f+" "+a.f+" "+a.f, t[q].X, t[q].Y, t[q].Z), "%g %g %g", &w.X, &w.Y, &w.Z)
					if got[k][q] != w {
						c.Violation("LoadSTL|ascii|vertex", fmt.Sprintf("ASCII (%s) facet %d vertex %d: loaded %v, file says %v", a.name, k, q, got[k][q], w), desc)
					}
				}
			}
		}
	}
	// (4b) well-formed ASCII files with a long preamble (round 9): solid names of 100..5000 characters and 1..600 blank
	// lines before "solid" - the first facet lies beyond any prefix a loader may sniff
	for _, nameLen := range []int{100, 480, 500, 520, 639, 1100, 5000} {
		for _, blanks := range []int{0, 1, 100, 600, 5000} {
			if nameLen != 100 && blanks != 0 && !(nameLen == 520 && blanks == 600) {
				continue
			}
			for _, n := range []int{1, 7} {
				ts := menu[:n]
				var sb strings.Builder
				sb.WriteString(strings.Repeat("\n", blanks) + "solid " + strings.Repeat("n", nameLen) + "\n")
				for _, t := range ts {
					sb.WriteString("facet normal 0 0 1\nouter loop\n")
					for _, p := range t {
						sb.WriteString("vertex " + fmt.Sprintf("%g %g %g", p.X, p.Y, p.Z) + "\n")
					}
					sb.WriteString("endloop\nendfacet\n")
				}
				sb.WriteString("endsolid\n")
				p := filepath.Join(work, "ref.stl")
				os.WriteFile(p, []byte(sb.String()), 0o644)
				got, err := render.LoadSTL(p)
				states++
				desc := map[string]any{"solid_name_length": nameLen, "blank_lines_before_solid": blanks, "triangles": n}
				if err != nil || len(got) != n {
					c.Violation("LoadSTL|ascii|long-preamble|count-or-error", fmt.Sprintf("ASCII file with a solid name of %d characters after %d blank lines, %d facets: %d triangles, err %v", nameLen, blanks, n, len(got), err), desc)
					continue
				}
				for k, t := range ts {
					for q := 0; q < 3; q++ {
						var w v3.Vec
						fmt.Sscanf(fmt.Sprintf("%g %g %g", t[q].X, t[q].Y, t[q].Z), "%g %g %g", &w.X, &w.Y, &w.Z)
						if got[k][q] != w {
							c.Violation("LoadSTL|ascii|long-preamble|vertex", fmt.Sprintf("facet %d vertex %d: loaded %v, file says %v", k, q, got[k][q], w), desc)
						}
					}
				}
			}
		}
	}
	// (5) histories of loads and saves (round 9): a foreign binary file whose records carry non-zero attribute bytes (the
	// colour words other tools write) and a non-zero header is loaded, then lists are saved by both writers: the bytes
	// written are those of a process that never loaded anything
	for _, nf := range []int{3, 1030, 2500} {
		fb := new(bytes.Buffer)
		hdr := bytes.Repeat([]byte{0xAB}, 80)
		fb.Write(hdr)
		binary.Write(fb, binary.LittleEndian, uint32(nf))
		for i := 0; i < nf; i++ {
			binary.Write(fb, binary.LittleEndian, [12]float32{0, 0, 1, float32(i), 0, 0, float32(i) + 1, 0, 0.5, float32(i), 1, 0.25})
			fb.Write([]byte{0x1f, 0xfc})
		}
		fp := filepath.Join(work, "foreign.stl")
		os.WriteFile(fp, fb.Bytes(), 0o644)
		got, err := render.LoadSTL(fp)
		states++
		desc := map[string]any{"history": "LoadSTL of a foreign file with attribute bytes 1f fc, then SaveSTL / ToSTL", "foreign_triangles": nf}
		if err != nil || len(got) != nf {
			c.Violation("LoadSTL|foreign-binary-file|count-or-error", fmt.Sprintf("binary file of %d triangles with non-zero attribute bytes: %d triangles, err %v", nf, len(got), err), desc)
			continue
		}
		for _, ts := range [][]*sdf.Triangle3{menu[:1], menu[:5], long(300), long(1100)} {
			p1, p2 := filepath.Join(work, "h5.save.stl"), filepath.Join(work, "h5.stream.stl")
			if err := render.SaveSTL(p1, ts); err != nil {
				c.Violation("SaveSTL|error|after-a-load", err.Error(), desc)
				continue
			}
			b1, _ := os.ReadFile(p1)
			checkBytes(c, "SaveSTL-after-LoadSTL", b1, ts, desc)
			render.ToSTL(dummy{}, p2, scripted{ts})
			b2, _ := os.ReadFile(p2)
			checkBytes(c, "ToSTL-after-LoadSTL", b2, ts, desc)
			if !bytes.Equal(b1, b2) {
				c.Violation("ToSTL|bytes-differ-from-SaveSTL|after-a-load", fmt.Sprintf("after loading a foreign file: ToSTL wrote %d bytes, SaveSTL %d bytes for the same %d triangles", len(b2), len(b1), len(ts)), desc)
			}
			os.Remove(p1)
			os.Remove(p2)
			states++
		}
		os.Remove(fp)
	}
	samples = append(samples, map[string]any{"ascii_reference_files": "LF/CRLF, %g/%e/%.9f, leading blanks and tabs, 1/2/7/40 facets"})
	c.Guard("vertices compared bit-for-bit > 10000 (files were written, parsed and loaded back)", trans > 10000, fmt.Sprint(trans))
	c.Guard("lists enumerated >= 2600", len(lists) >= 2600, fmt.Sprint(len(lists)))
	c.Finish(vlib.Coverage{
		States: states, Transitions: trans, Evaluations: states, Nontrivial: states - 1,
		Rule:        "states = triangle lists (and path histories / reference files) written and read back; transitions = vertices compared bit-for-bit; non-trivial = non-empty lists",
		Samples:     samples,
		Exhaustive:  true,
		Bounds:      map[string]any{"coordinate_menu": len(V), "vertices": len(verts), "menu_triangles": len(menu), "list_lengths": "0,1,2 over the menu; 81..1000 (70000 thorough); one file of 1000"},
		Assumptions: []string{"normals are checked for triangles with |coordinates| <= 1e6 whose edges are not collinear within 1e-6 (independent float64 cross product)", "the streaming writer is driven by a scripted renderer writing batches of 1-5 triangles interleaved with empty batches"},
	})
}
