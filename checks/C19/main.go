// C19 — dual-contouring meshes are closed, oriented and near the surface.
// Engine L/E: trilinear lookup fields over the renderers' natural lattice for every sign table of a
// 2x2x2 (and 3x2x2) interior corner block, and analytic shapes (smooth, sharp, rotated, CSG, crescents,
// faces exactly on lattice points with non-dyadic cell sizes) wrapped in enlarged boxes x resolutions x
// renderer settings, through DualContouringV1 (no simplification) and DualContouringV2.
package main

import (
	"fmt"
	"io"
	"log"
	"math"
	"strings"
	"sync/atomic"

	"github.com/deadsy/sdfx/render/dc"
	"github.com/deadsy/sdfx/sdf"
	v3 "github.com/deadsy/sdfx/vec/v3"

	"verif/lib/mesh"
	"verif/lib/vlib"
)

type boxed struct {
	f  func(p v3.Vec) float64
	bb sdf.Box3
}

func (b boxed) Evaluate(p v3.Vec) float64 { return b.f(p) }
func (b boxed) BoundingBox() sdf.Box3     { return b.bb }

func cube(c v3.Vec, s float64) sdf.Box3 {
	h := v3.Vec{X: s / 2, Y: s / 2, Z: s / 2}
	return sdf.Box3{Min: c.Sub(h), Max: c.Add(h)}
}

type setting struct {
	name string
	run  func(s sdf.SDF3, n int) []*sdf.Triangle3
	// seq renders the shapes one after the other with ONE renderer value and returns every output
	seq func(ss []sdf.SDF3, n int) [][]*sdf.Triangle3
}

func runV1(lock bool) func(s sdf.SDF3, n int) []*sdf.Triangle3 {
	return func(s sdf.SDF3, n int) []*sdf.Triangle3 {
		r := dc.NewDualContouringV1(-1, 0, lock)
		out := make(chan *sdf.Triangle3)
		var ts []*sdf.Triangle3
		done := make(chan struct{})
		go func() {
			for t := range out {
				ts = append(ts, t)
			}
			close(done)
		}()
		r.Render(s, n, out)
		close(out)
		<-done
		return ts
	}
}

func seqV1(lock bool) func(ss []sdf.SDF3, n int) [][]*sdf.Triangle3 {
	return func(ss []sdf.SDF3, n int) [][]*sdf.Triangle3 {
		r := dc.NewDualContouringV1(-1, 0, lock)
		var all [][]*sdf.Triangle3
		for _, s := range ss {
			out := make(chan *sdf.Triangle3)
			var ts []*sdf.Triangle3
			done := make(chan struct{})
			go func() {
				for t := range out {
					ts = append(ts, t)
				}
				close(done)
			}()
			r.Render(s, n, out)
			close(out)
			<-done
			all = append(all, ts)
		}
		return all
	}
}

func seqV2(far, push float64) func(ss []sdf.SDF3, n int) [][]*sdf.Triangle3 {
	return func(ss []sdf.SDF3, n int) [][]*sdf.Triangle3 {
		r := dc.NewDualContouringV2(far, push, 0, 1, 1e-4, 1000, n)
		var all [][]*sdf.Triangle3
		for _, s := range ss {
			out := make(chan []*sdf.Triangle3)
			var ts []*sdf.Triangle3
			done := make(chan struct{})
			go func() {
				for t := range out {
					ts = append(ts, t...)
				}
				close(done)
			}()
			r.Render(s, out)
			close(out)
			<-done
			all = append(all, ts)
		}
		return all
	}
}

func runV2(far, push float64) func(s sdf.SDF3, n int) []*sdf.Triangle3 {
	return func(s sdf.SDF3, n int) []*sdf.Triangle3 {
		r := dc.NewDualContouringV2(far, push, 0, 1, 1e-4, 1000, n)
		out := make(chan []*sdf.Triangle3)
		var ts []*sdf.Triangle3
		done := make(chan struct{})
		go func() {
			for t := range out {
				ts = append(ts, t...)
			}
			close(done)
		}()
		r.Render(s, out)
		close(out)
		<-done
		return ts
	}
}

var settings = []setting{
	// the property is stated for vertex locking / clamping ON: V1 with LockVertices, V2 with FarAway < 1/2
	{"V1 lock=true", runV1(true), seqV1(true)},
	{"V2 default (FarAway 0.499999, CenterPush 0.01)", runV2(0.499999, 0.01), seqV2(0.499999, 0.01)}, {"V2 FarAway=0.25", runV2(0.25, 0.01), seqV2(0.25, 0.01)}, {"V2 CenterPush=0.1", runV2(0.499999, 0.1), seqV2(0.499999, 0.1)},
	// push towards the cell centre switched off / negligible: singular positioning systems (flat faces, straight
	// edges) occur in almost every cell and must all fall back to the cell centre
	{"V2 CenterPush=0", runV2(0.499999, 0), seqV2(0.499999, 0)}, {"V2 CenterPush=1e-9", runV2(0.499999, 1e-9), seqV2(0.499999, 1e-9)},
}

// trilinear lookup field over the lattice bbMin + i*h, i = 0..n
type tri struct {
	bb sdf.Box3
	n  int
	h  float64
	v  []float64
}

func (t *tri) at(i, j, k int) float64 {
	cl := func(x int) int {
		if x < 0 {
			return 0
		}
		if x > t.n {
			return t.n
		}
		return x
	}
	return t.v[(cl(i)*(t.n+1)+cl(j))*(t.n+1)+cl(k)]
}
func (t *tri) BoundingBox() sdf.Box3 { return t.bb }
func (t *tri) Evaluate(p v3.Vec) float64 {
	x, y, z := (p.X-t.bb.Min.X)/t.h, (p.Y-t.bb.Min.Y)/t.h, (p.Z-t.bb.Min.Z)/t.h
	i, j, k := int(math.Floor(x)), int(math.Floor(y)), int(math.Floor(z))
	fx, fy, fz := x-float64(i), y-float64(j), z-float64(k)
	l := func(a, b, f float64) float64 { return a + (b-a)*f }
	c00 := l(t.at(i, j, k), t.at(i+1, j, k), fx)
	c10 := l(t.at(i, j+1, k), t.at(i+1, j+1, k), fx)
	c01 := l(t.at(i, j, k+1), t.at(i+1, j, k+1), fx)
	c11 := l(t.at(i, j+1, k+1), t.at(i+1, j+1, k+1), fx)
	return l(l(c00, c10, fy), l(c01, c11, fy), fz)
}

func main() {
	c := vlib.Start("C19")
	log.SetOutput(io.Discard) // the renderers log warnings
	var states, trans, nontrivial int64
	samples := []any{}

	check := func(ts []*sdf.Triangle3, s sdf.SDF3, h float64, exactBound bool, key string, what string, desc map[string]any) {
		bb := s.BoundingBox()
		diag := math.Sqrt(3) * h
		r := mesh.Check3(ts, 1e-6*h)
		atomic.AddInt64(&trans, int64(len(ts)))
		if len(ts) > 0 {
			atomic.AddInt64(&nontrivial, 1)
		}
		if r.NaN > 0 {
			c.Violation(key+"|non-finite-vertex", what, desc)
		}
		if r.Unbalanced > 0 {
			c.Violation(key+"|unbalanced-directed-edges", fmt.Sprintf("%s: %d edges not matched by their reverse (e.g. %v)", what, r.Unbalanced, r.UnbalancedEdge), desc)
		} else if len(ts) > 0 && !(r.Volume > 0) {
			c.Violation(key+"|non-positive-volume", fmt.Sprintf("%s: signed volume %g", what, r.Volume), desc)
		}
		for _, t := range ts {
			for _, p := range t {
				if p.X < bb.Min.X-1e-9 || p.Y < bb.Min.Y-1e-9 || p.Z < bb.Min.Z-1e-9 || p.X > bb.Max.X+1e-9 || p.Y > bb.Max.Y+1e-9 || p.Z > bb.Max.Z+1e-9 {
					c.Violation(key+"|vertex-outside-sampled-box", fmt.Sprintf("%s: vertex %v outside %v", what, p, bb), desc)
					return
				}
				if exactBound {
					if fv := math.Abs(s.Evaluate(p)); fv > diag*(1+1e-9) {
						c.Violation(key+"|vertex-farther-than-a-cell-diagonal-from-surface", fmt.Sprintf("%s: |f| = %g at vertex %v, cell diagonal %g", what, fv, p, diag), desc)
						return
					}
				}
			}
		}
	}
	same := func(a, b []*sdf.Triangle3) bool {
		if len(a) != len(b) {
			return false
		}
		for i := range a {
			if *a[i] != *b[i] {
				return false
			}
		}
		return true
	}

	// ---------------- sign tables on trilinear fields ----------------
	type blk struct {
		n     int
		dims  [3]int
		first int
	}
	var emptyTables int64
	blocks := []blk{{4, [3]int{2, 2, 2}, 1}, {5, [3]int{3, 2, 2}, 1}}
	if c.Thorough() {
		blocks = append(blocks, blk{5, [3]int{2, 3, 2}, 1}, blk{5, [3]int{2, 2, 3}, 1}, blk{5, [3]int{3, 3, 2}, 1})
	}
	for _, b := range blocks {
		nfree := b.dims[0] * b.dims[1] * b.dims[2]
		for si, st := range settings {
			if b.dims != [3]int{2, 2, 2} && (si == 2 || si == 3) && !c.Thorough() {
				continue
			}
			if b.dims == [3]int{3, 3, 2} && si >= 2 {
				continue // 2^18 tables: V1 and V2 default only
			}
			st := st
			states += c.ParFor(1<<nfree, func(cfg int) {
				if cfg == 0 {
					return
				}
				h := 1.0
				bb := sdf.Box3{Max: v3.Vec{X: float64(b.n), Y: float64(b.n), Z: float64(b.n)}}
				t := &tri{bb: bb, n: b.n, h: h, v: make([]float64, (b.n+1)*(b.n+1)*(b.n+1))}
				for i := range t.v {
					t.v[i] = 0.25
				}
				bit := 0
				for i := 0; i < b.dims[0]; i++ {
					for j := 0; j < b.dims[1]; j++ {
						for k := 0; k < b.dims[2]; k++ {
							if cfg&(1<<bit) != 0 {
								t.v[((b.first+1+i)*(b.n+1)+b.first+1+j)*(b.n+1)+b.first+1+k] = -0.25
							}
							bit++
						}
					}
				}
				ts := st.run(t, b.n)
				desc := map[string]any{"field": "trilinear sign table", "cells": b.n, "free_block": b.dims, "sign_mask": cfg, "setting": st.name}
				check(ts, t, h, false, st.name+"|sign-table", fmt.Sprintf("%s sign table %#x on a %v block", st.name, cfg, b.dims), desc)
				if len(ts) == 0 {
					// a solid around a single lattice point is smaller than a cell of the renderer's own sampling
					// lattice (V1 rounds the cell count up to a power of two): missing it is not a violation of
					// the property (closedness of what is emitted); it is counted, and a guard bounds the count
					atomic.AddInt64(&emptyTables, 1)
				}
			})
		}
		samples = append(samples, map[string]any{"trilinear_sign_tables": 1 << nfree, "block": b.dims, "cells": b.n, "magnitude": "1/4 cell"})
	}

	// ---------------- analytic shapes ----------------
	m3 := func(s sdf.SDF3, err error) sdf.SDF3 {
		if err != nil {
			panic(err)
		}
		return s
	}
	sph := func(r float64, ct v3.Vec) sdf.SDF3 { return sdf.Transform3D(m3(sdf.Sphere3D(r)), sdf.Translate3d(ct)) }
	type shp struct {
		name  string
		s     sdf.SDF3
		size  float64 // edge of the enlarged sampling cube (longest edge of box when that is set)
		ns    []int
		class string
		box   v3.Vec // non-cubic sampling box (zero: the cube of edge size)
		at    v3.Vec // the shape and its sampling volume are moved here (most shapes sit at the origin)
	}
	std := vlib.Pick(c, []int{4, 8, 11, 16}, []int{4, 5, 8, 11, 13, 16, 24})
	shapes := []shp{
		{"sphere r=1", m3(sdf.Sphere3D(1)), 3, std, "smooth", v3.Vec{}, v3.Vec{}},
		{"sphere r=0.7 in 2.8 (lattice points on the surface)", m3(sdf.Sphere3D(0.7)), 2.8, []int{8, 16}, "on-lattice", v3.Vec{}, v3.Vec{}},
		{"box 2x1.5x1", m3(sdf.Box3D(v3.Vec{X: 2, Y: 1.5, Z: 1}, 0)), 3, std, "sharp", v3.Vec{}, v3.Vec{}},
		{"rounded box", m3(sdf.Box3D(v3.Vec{X: 2, Y: 1.5, Z: 1}, 0.25)), 3, std, "smooth", v3.Vec{}, v3.Vec{}},
		{"box rotated 30 about (1,1,1)", sdf.Transform3D(m3(sdf.Box3D(v3.Vec{X: 1.5, Y: 1.5, Z: 1.5}, 0)), sdf.Rotate3d(v3.Vec{X: 1, Y: 1, Z: 1}.Normalize(), sdf.DtoR(30))), 3.4, std, "rotated", v3.Vec{}, v3.Vec{}},
		{"cylinder", m3(sdf.Cylinder3D(2, 0.8, 0)), 3, std, "sharp", v3.Vec{}, v3.Vec{}},
		{"cone", m3(sdf.Cone3D(2, 0.9, 0.3, 0)), 3, std, "sharp", v3.Vec{}, v3.Vec{}},
		{"union sphere+box", sdf.Union3D(m3(sdf.Sphere3D(0.8)), sdf.Transform3D(m3(sdf.Box3D(v3.Vec{X: 1, Y: 1, Z: 1}, 0)), sdf.Translate3d(v3.Vec{X: 0.6}))), 3.4, std, "csg", v3.Vec{}, v3.Vec{}},
		{"box minus cylinder", sdf.Difference3D(m3(sdf.Box3D(v3.Vec{X: 2, Y: 2, Z: 1}, 0)), m3(sdf.Cylinder3D(3, 0.5, 0))), 3, std, "csg", v3.Vec{}, v3.Vec{}},
		{"cube 0.6 in 1.6 (faces on lattice points, cell 0.1)", m3(sdf.Box3D(v3.Vec{X: 0.6, Y: 0.6, Z: 0.6}, 0)), 1.6, []int{16}, "on-lattice", v3.Vec{}, v3.Vec{}},
		{"cube 1.2 in 2.4 (faces on lattice points)", m3(sdf.Box3D(v3.Vec{X: 1.2, Y: 1.2, Z: 1.2}, 0)), 2.4, []int{8, 16}, "on-lattice", v3.Vec{}, v3.Vec{}},
		{"cube 1.8 in 3.2 (faces on lattice points)", m3(sdf.Box3D(v3.Vec{X: 1.8, Y: 1.8, Z: 1.8}, 0)), 3.2, []int{16, 32}, "on-lattice", v3.Vec{}, v3.Vec{}},
	}
	// non-cubic sampling boxes (the octree of V1 is cubic, the sampled volume is not)
	rcyl := m3(sdf.Cylinder3D(4, 1, 0.25))
	for _, nc := range []shp{
		{name: "rounded cylinder 2x2x4 in a 2.4x2.4x4.8 box", s: rcyl, box: v3.Vec{X: 2.4, Y: 2.4, Z: 4.8}},
		{name: "rounded cylinder along x in a 4.8x2.4x2.4 box", s: sdf.Transform3D(rcyl, sdf.RotateY(sdf.DtoR(90))), box: v3.Vec{X: 4.8, Y: 2.4, Z: 2.4}},
		{name: "rounded cylinder along y in a 2.4x4.8x2.4 box", s: sdf.Transform3D(rcyl, sdf.RotateX(sdf.DtoR(90))), box: v3.Vec{X: 2.4, Y: 4.8, Z: 2.4}},
		{name: "rounded box 2x1x0.5 in a 2.6x1.3x0.65 box", s: m3(sdf.Box3D(v3.Vec{X: 2, Y: 1, Z: 0.5}, 0.1)), box: v3.Vec{X: 2.6, Y: 1.3, Z: 0.65}},
		{name: "sphere r=1 in a 3x3.6x4.5 box", s: m3(sdf.Sphere3D(1)), box: v3.Vec{X: 3, Y: 3.6, Z: 4.5}},
		{name: "sphere r=1 in a 4.5x3x2.5 box", s: m3(sdf.Sphere3D(1)), box: v3.Vec{X: 4.5, Y: 3, Z: 2.5}},
		// boxes whose shorter sides are not a whole number of cells (the cell count is truncated per axis, so the
		// voxels are not cubes), longest along each axis in turn
		{name: "sphere r=0.7 in a 4x1.49x1.49 box", s: m3(sdf.Sphere3D(0.7)), box: v3.Vec{X: 4, Y: 1.49, Z: 1.49}},
		{name: "sphere r=0.7 in a 1.49x4x1.49 box", s: m3(sdf.Sphere3D(0.7)), box: v3.Vec{X: 1.49, Y: 4, Z: 1.49}},
		{name: "sphere r=0.7 in a 1.49x1.49x4 box", s: m3(sdf.Sphere3D(0.7)), box: v3.Vec{X: 1.49, Y: 1.49, Z: 4}},
		{name: "sphere r=0.9 in a 4x1.9x2.3 box", s: m3(sdf.Sphere3D(0.9)), box: v3.Vec{X: 4, Y: 1.9, Z: 2.3}},
		{name: "rounded box in a 5x1.7x1.3 box", s: m3(sdf.Box3D(v3.Vec{X: 3, Y: 1.2, Z: 0.9}, 0.2)), box: v3.Vec{X: 5, Y: 1.7, Z: 1.3}},
	} {
		nc.size = math.Max(nc.box.X, math.Max(nc.box.Y, nc.box.Z))
		nc.ns = []int{8, 16, 20, 24}
		nc.class = "non-cubic-box"
		shapes = append(shapes, nc)
	}
	// CSG solids with concave sharp curved edges, at the origin and away from it on different axes (the vertex
	// clamping compares each coordinate with the bounds of its own axis; added after seed C19-9)
	notch := sdf.Difference3D(m3(sdf.Box3D(v3.Vec{X: 2, Y: 2, Z: 2}, 0)), sph(1.25, v3.Vec{X: 1}))
	notchY := sdf.Difference3D(m3(sdf.Box3D(v3.Vec{X: 2, Y: 2, Z: 2}, 0)), sph(1.25, v3.Vec{Y: -1}))
	for _, at := range []v3.Vec{{}, {Y: 3}, {X: -2, Y: 1, Z: 4}, {X: 5, Z: -3}, {X: -4, Y: -4, Z: -4}} {
		for k, sh := range []sdf.SDF3{notch, notchY, sdf.Union3D(m3(sdf.Sphere3D(0.8)), sdf.Transform3D(m3(sdf.Box3D(v3.Vec{X: 1, Y: 1, Z: 1}, 0)), sdf.Translate3d(v3.Vec{X: 0.6})))} {
			nm := []string{"cube 2 minus sphere r=1.25 on its +x face", "cube 2 minus sphere r=1.25 on its -y face", "union sphere+box"}[k]
			shapes = append(shapes, shp{name: fmt.Sprintf("%s at %v", nm, at), s: sdf.Transform3D(sh, sdf.Translate3d(at)), size: 2.8, ns: []int{8, 16}, class: "csg-off-centre", at: at})
		}
	}
	for _, sh := range []v3.Vec{{X: -0.2}, {X: 0.2}, {Z: -0.25}, {Y: 0.25}, {X: -0.25, Y: -0.1, Z: -0.05}, {X: 0.25, Y: 0.1, Z: 0.05}} {
		shapes = append(shapes, shp{fmt.Sprintf("crescent: unit sphere minus copy shifted by %v", sh), sdf.Difference3D(m3(sdf.Sphere3D(1)), sph(1, sh)), 2.5, []int{8, 11, 16}, "crescent", v3.Vec{}, v3.Vec{}})
	}
	// the same solids a hundred times smaller / larger and far from the origin
	for _, k := range []float64{0.01, 100} {
		for _, si := range []int{0, 2, 7} {
			b := shapes[si]
			shapes = append(shapes, shp{name: fmt.Sprintf("%s scaled by %g", b.name, k), s: sdf.ScaleUniform3D(b.s, k), size: b.size * k, ns: []int{8, 11}, class: "scaled-" + b.class})
		}
	}
	for _, at := range []v3.Vec{{X: 1000, Y: -1000, Z: 37.3}, {X: 3e6, Y: -5e6, Z: 7e6}} { // the second (round 9): coordinates 1e7 cells from the origin
		for _, si := range []int{0, 2, 7} {
			b := shapes[si]
			shapes = append(shapes, shp{name: fmt.Sprintf("%s at %v", b.name, at), s: sdf.Transform3D(b.s, sdf.Translate3d(at)), size: b.size, ns: []int{8, 11, 24}, class: "far-" + b.class, at: at})
		}
	}
	// every resolution 4..64 (thorough ..100) of the sphere and of a 2 x 1.4 x 1 box in a 1.13-padded volume, V2 default
	// (round 9: a cell count that is truncated differently in two passes shows at a few resolutions only)
	for n := 4; n <= vlib.Pick(c, 64, 100); n++ {
		shapes = append(shapes, shp{name: "sphere r=1 in its 1.13-padded box", s: m3(sdf.Sphere3D(1)), size: 2.26, ns: []int{n}, class: "resolution-sweep"},
			shp{name: "box 2x1.4x1 in its 1.13-padded box", s: m3(sdf.Box3D(v3.Vec{X: 2, Y: 1.4, Z: 1}, 0)), size: 2.26, ns: []int{n}, class: "resolution-sweep", box: v3.Vec{X: 2.26, Y: 1.582, Z: 1.13}})
	}
	// long thin parts at a fine resolution (round 8): more than 1024 and more than 2048 cells along one axis, 8 across
	// (a cell index packed into too few bits per axis), V2 only
	for ax := 0; ax < 3; ax++ {
		for _, n := range []int{1104, 2100} {
			l := float64(n) / 10
			rod := m3(sdf.Cylinder3D(l-0.45, 0.25, 0.1)) // along z
			bx := v3.Vec{X: 0.8, Y: 0.8, Z: l}
			switch ax {
			case 0:
				rod, bx = sdf.Transform3D(rod, sdf.RotateY(sdf.DtoR(90))), v3.Vec{X: l, Y: 0.8, Z: 0.8}
			case 1:
				rod, bx = sdf.Transform3D(rod, sdf.RotateX(sdf.DtoR(90))), v3.Vec{X: 0.8, Y: l, Z: 0.8}
			}
			shapes = append(shapes, shp{name: fmt.Sprintf("rod of %d cells along axis %d, 8 cells across", n, ax), s: rod, size: l, ns: []int{n}, class: "long-rod", box: bx})
		}
	}
	type job struct {
		sh shp
		n  int
		st setting
	}
	var jobs []job
	for _, sh := range shapes {
		for _, n := range sh.ns {
			for _, st := range settings {
				if sh.class == "resolution-sweep" && !strings.HasPrefix(st.name, "V2 default") {
					continue
				}
				if sh.class == "long-rod" && !strings.HasPrefix(st.name, "V2 default") && !strings.HasPrefix(st.name, "V2 FarAway") {
					continue
				}
				jobs = append(jobs, job{sh, n, st})
			}
		}
	}
	states += c.ParFor(len(jobs), func(i int) {
		j := jobs[i]
		s := boxed{j.sh.s.Evaluate, cube(j.sh.at, j.sh.size)}
		if j.sh.box != (v3.Vec{}) {
			s.bb = sdf.Box3{Min: j.sh.box.MulScalar(-0.5), Max: j.sh.box.MulScalar(0.5)}
		}
		ts := j.st.run(s, j.n)
		h := j.sh.size / float64(j.n)
		if len(j.st.name) > 2 && j.st.name[:2] == "V1" {
			// V1 samples an octree whose leaf count is the next power of two
			p := 1
			for p < j.n {
				p *= 2
			}
			h = j.sh.size / float64(j.n) * float64(j.n) / float64(p) * float64(p) / float64(j.n)
		}
		desc := map[string]any{"shape": j.sh.name, "meshCells": j.n, "setting": j.st.name, "sampling_cube": j.sh.size}
		key := j.st.name + "|" + j.sh.class
		what := fmt.Sprintf("%s n=%d %s", j.sh.name, j.n, j.st.name)
		check(ts, s, h, true, key, what, desc)
		if len(ts) == 0 {
			c.Violation(key+"|no-output", what+": no triangles", desc)
		}
		if ts2 := j.st.run(s, j.n); !same(ts, ts2) {
			c.Violation(key+"|output-differs-between-two-runs", what, desc)
		}
	})
	// histories with one renderer value: A, B, A on the same sampling cube; every output must equal the output
	// of a fresh renderer for that shape ("identical on repeated runs", whatever was rendered before)
	for _, st := range settings {
		for _, n := range []int{8, 11} {
			hs := []sdf.SDF3{boxed{shapes[0].s.Evaluate, cube(v3.Vec{}, 3)}, boxed{shapes[2].s.Evaluate, cube(v3.Vec{}, 3)}, boxed{shapes[0].s.Evaluate, cube(v3.Vec{}, 3)}}
			outs := st.seq(hs, n)
			states++
			for k, h := range hs {
				fresh := st.run(h, n)
				trans += int64(len(fresh))
				if !same(outs[k], fresh) {
					c.Violation(st.name+"|history|output-depends-on-earlier-renders-of-the-same-renderer", fmt.Sprintf("%s n=%d: render %d of the history sphere, box, sphere with one renderer value differs from a fresh renderer's output (%d vs %d triangles)", st.name, n, k+1, len(outs[k]), len(fresh)),
						map[string]any{"setting": st.name, "meshCells": n, "history": []string{shapes[0].name, shapes[2].name, shapes[0].name}, "render": k + 1})
					break
				}
			}
		}
	}
	samples = append(samples, map[string]any{"analytic_shapes": len(shapes), "settings": len(settings), "jobs": len(jobs), "example": shapes[12].name})
	c.Guard("sign tables rendered to nothing < 0.1% of the tables", emptyTables*1000 < states, fmt.Sprint(emptyTables))
	c.Guard("triangles checked > 100000", trans > 100000, fmt.Sprint(trans))
	c.Guard("renders with output >= 9000", nontrivial >= 9000, fmt.Sprint(nontrivial))
	c.Finish(vlib.Coverage{
		States: states, Transitions: trans, Evaluations: states, Nontrivial: nontrivial,
		Rule:        "states = (field, resolution, renderer setting) triples rendered through the real dual-contouring renderers; transitions = triangles checked; non-trivial = renders with output",
		Samples:     samples,
		Exhaustive:  true,
		Bounds:      map[string]any{"sign_tables": "2^8 on a 2x2x2 block, 2^12 on 3x2x2 (thorough: all orientations, and 2^18 on 3x3x2 for V1 and V2 default)", "settings": []string{settings[0].name, settings[1].name, settings[2].name, settings[3].name}, "resolutions": std},
		Assumptions: []string{"V1 is run without simplification (Simplify < 0), as the property states", "the surface is kept strictly inside the sampled volume (positive boundary layer / enlarged box)", "|f(v)| <= cell diagonal is required as a necessary condition (f never overestimates for these shapes)"},
	})
}
