// C04 — the polygon SDF is exact and agrees with its brute-force reference everywhere.
// Engine E: every simple polygon with <= 5 (thorough 6) vertices on the 4x4 integer grid in both
// orientations, plus parametrised many-vertex families (combs, staircases, regular n-gons, thin slivers,
// translated and scaled copies), queried on the quarter-integer lattice, on every corner / centre
// coordinate of the quadtree boxes returned by the public Boxes() and those +-1 ulp, and far away;
// three-way comparison Polygon2D vs Mesh2DSlow vs an exact-predicate crossing/distance oracle.
package main

import (
	"fmt"
	"math"
	"math/big"
	"sort"
	"sync/atomic"

	"github.com/deadsy/sdfx/sdf"
	v2 "github.com/deadsy/sdfx/vec/v2"

	"verif/lib/vlib"
)

// orientSign is the exact sign of cross(b-a, c-a) (float filter, rational fallback).
func orientSign(a, b, c v2.Vec) int {
	d := (b.X-a.X)*(c.Y-a.Y) - (b.Y-a.Y)*(c.X-a.X)
	m := math.Abs((b.X-a.X)*(c.Y-a.Y)) + math.Abs((b.Y-a.Y)*(c.X-a.X))
	if math.Abs(d) > 1e-12*m+1e-300 {
		if d > 0 {
			return 1
		}
		return -1
	}
	r := func(x float64) *big.Rat { return new(big.Rat).SetFloat64(x) }
	l := new(big.Rat).Mul(new(big.Rat).Sub(r(b.X), r(a.X)), new(big.Rat).Sub(r(c.Y), r(a.Y)))
	rr := new(big.Rat).Mul(new(big.Rat).Sub(r(b.Y), r(a.Y)), new(big.Rat).Sub(r(c.X), r(a.X)))
	return l.Cmp(rr)
}

// inside: exact crossing-number test (half-open rule); onEdge reports p exactly on the boundary.
func inside(poly []v2.Vec, p v2.Vec) (in bool, onEdge bool) {
	n := len(poly)
	cnt := 0
	for i := 0; i < n; i++ {
		a, b := poly[i], poly[(i+1)%n]
		o := orientSign(a, b, p)
		if o == 0 && p.X >= math.Min(a.X, b.X) && p.X <= math.Max(a.X, b.X) && p.Y >= math.Min(a.Y, b.Y) && p.Y <= math.Max(a.Y, b.Y) {
			return false, true
		}
		if (a.Y <= p.Y) != (b.Y <= p.Y) {
			// edge straddles the horizontal line through p (half-open): crossing to the right of p?
			if a.Y <= p.Y { // upward edge: p left of it iff orient > 0
				if o > 0 {
					cnt++
				}
			} else if o < 0 {
				cnt++
			}
		}
	}
	return cnt%2 == 1, false
}

func dist(poly []v2.Vec, p v2.Vec) float64 {
	best := math.Inf(1)
	n := len(poly)
	for i := 0; i < n; i++ {
		a, b := poly[i], poly[(i+1)%n]
		ab := v2.Vec{X: b.X - a.X, Y: b.Y - a.Y}
		ap := v2.Vec{X: p.X - a.X, Y: p.Y - a.Y}
		l2 := ab.X*ab.X + ab.Y*ab.Y
		t := 0.0
		if l2 > 0 {
			t = math.Max(0, math.Min(1, (ap.X*ab.X+ap.Y*ab.Y)/l2))
		}
		d := math.Hypot(ap.X-t*ab.X, ap.Y-t*ab.Y)
		best = math.Min(best, d)
	}
	return best
}

func segInter(a, b, c, d v2.Vec) bool { // closed segments intersect (exact)
	o1, o2, o3, o4 := orientSign(a, b, c), orientSign(a, b, d), orientSign(c, d, a), orientSign(c, d, b)
	if o1 != o2 && o3 != o4 {
		return true
	}
	on := func(p, q, r v2.Vec) bool {
		return r.X >= math.Min(p.X, q.X) && r.X <= math.Max(p.X, q.X) && r.Y >= math.Min(p.Y, q.Y) && r.Y <= math.Max(p.Y, q.Y)
	}
	return (o1 == 0 && on(a, b, c)) || (o2 == 0 && on(a, b, d)) || (o3 == 0 && on(c, d, a)) || (o4 == 0 && on(c, d, b))
}

func simple(poly []v2.Vec) bool {
	n := len(poly)
	area := 0.0
	for i := 0; i < n; i++ {
		a, b := poly[i], poly[(i+1)%n]
		area += a.X*b.Y - b.X*a.Y
	}
	if area == 0 {
		return false
	}
	for i := 0; i < n; i++ {
		a, b, c := poly[i], poly[(i+1)%n], poly[(i+2)%n]
		// no spikes: consecutive edges must not fold back
		if orientSign(a, b, c) == 0 && (b.X-a.X)*(c.X-b.X)+(b.Y-a.Y)*(c.Y-b.Y) < 0 {
			return false
		}
		for j := i + 2; j < n; j++ {
			if i == 0 && j == n-1 {
				continue
			}
			if segInter(poly[i], poly[(i+1)%n], poly[j], poly[(j+1)%n]) {
				return false
			}
		}
	}
	return true
}

type poly struct {
	name string
	v    []v2.Vec
	fam  string
}

func gridPolys(w, maxN int) []poly {
	var pts []v2.Vec
	for x := 0; x < w; x++ {
		for y := 0; y < w; y++ {
			pts = append(pts, v2.Vec{X: float64(x), Y: float64(y)})
		}
	}
	var out []poly
	var rec func(cur []int)
	rec = func(cur []int) {
		if len(cur) >= 3 {
			// canonical start: smallest index first (both orientations are kept)
			vs := make([]v2.Vec, len(cur))
			for i, k := range cur {
				vs[i] = pts[k]
			}
			if simple(vs) {
				out = append(out, poly{fmt.Sprint(vs), vs, fmt.Sprintf("grid%dx%d-n=%d", w, w, len(vs))})
			}
		}
		if len(cur) == maxN {
			return
		}
		for k := range pts {
			if k <= cur[0] {
				continue
			}
			dup := false
			for _, c := range cur {
				if c == k {
					dup = true
				}
			}
			if !dup {
				rec(append(cur, k))
			}
		}
	}
	for s := range pts {
		rec([]int{s})
	}
	return out
}

func families() []poly {
	var out []poly
	tr := func(vs []v2.Vec, k float64, dx, dy float64) []v2.Vec {
		o := make([]v2.Vec, len(vs))
		for i, p := range vs {
			o[i] = v2.Vec{X: p.X*k + dx, Y: p.Y*k + dy}
		}
		return o
	}
	var base []poly
	// comb with t teeth
	for _, t := range []int{2, 5, 9} {
		var vs []v2.Vec
		vs = append(vs, v2.Vec{X: 0, Y: 0}, v2.Vec{X: float64(2*t + 1), Y: 0})
		for i := t; i >= 0; i-- {
			x := float64(2*i + 1)
			vs = append(vs, v2.Vec{X: x, Y: 3}, v2.Vec{X: x - 1, Y: 3})
			if i > 0 {
				vs = append(vs, v2.Vec{X: x - 1, Y: 1}, v2.Vec{X: x - 2, Y: 1})
			}
		}
		base = append(base, poly{fmt.Sprintf("comb(%d teeth)", t+1), vs, "comb"})
	}
	// staircase
	for _, s := range []int{3, 8} {
		var vs []v2.Vec
		vs = append(vs, v2.Vec{X: 0, Y: 0}, v2.Vec{X: float64(s), Y: 0})
		for i := s; i > 0; i-- {
			vs = append(vs, v2.Vec{X: float64(i), Y: float64(s - i + 1)}, v2.Vec{X: float64(i - 1), Y: float64(s - i + 1)})
		}
		base = append(base, poly{fmt.Sprintf("staircase(%d)", s), vs, "staircase"})
	}
	// regular n-gons (the hexagon is what obj.Hex2D builds)
	for _, n := range []int{3, 4, 6, 8, 12, 24, 64} {
		base = append(base, poly{fmt.Sprintf("Nagon(%d,2)", n), sdf.Nagon(n, 2), "ngon"})
	}
	// thin sliver and a plate with a step whose riser sits on the centre line
	base = append(base, poly{"sliver(width 2^-10)", []v2.Vec{{X: 0, Y: 0}, {X: 4, Y: 0}, {X: 4, Y: 1.0 / 1024}, {X: 0, Y: 1.0 / 1024}}, "sliver"},
		poly{"plate-with-step", []v2.Vec{{X: 0, Y: 0}, {X: 4, Y: 0}, {X: 4, Y: 4}, {X: 2, Y: 4}, {X: 2, Y: 3.5}, {X: 0, Y: 3.5}}, "step"},
		poly{"rect4x2+collinear", []v2.Vec{{X: 0, Y: 0}, {X: 2, Y: 0}, {X: 4, Y: 0}, {X: 4, Y: 1}, {X: 4, Y: 2}, {X: 2, Y: 2}, {X: 0, Y: 2}, {X: 0, Y: 1}}, "rect"})
	for _, b := range base {
		out = append(out, b)
		out = append(out, poly{b.name + " reversed", rev(b.v), b.fam})
		out = append(out, poly{b.name + " centred", tr(b.v, 1, -bbc(b.v).X, -bbc(b.v).Y), b.fam})
		out = append(out, poly{b.name + " at (-17.5,-9.25)", tr(b.v, 1, -17.5, -9.25), b.fam})
		out = append(out, poly{b.name + " x 2^-7", tr(b.v, 1.0/128, 0, 0), b.fam})
		out = append(out, poly{b.name + " x 2^9 centred", tr(tr(b.v, 1, -bbc(b.v).X, -bbc(b.v).Y), 512, 0, 0), b.fam})
	}
	// rectilinear plates (L, T, step) whose inner edges lie on the centre and quarter lines of the bounding
	// square, at many sizes: whether the split coordinate of the 1.01-scaled square rounds to, above or below
	// such an edge depends on the size, so every size is a different alignment of edge and split line
	// (added after seeds C04-5 / C03-5)
	el := []v2.Vec{{X: 0, Y: 0}, {X: 2, Y: 0}, {X: 2, Y: 1}, {X: 1, Y: 1}, {X: 1, Y: 2}, {X: 0, Y: 2}}
	tee := []v2.Vec{{X: 0, Y: 0}, {X: 4, Y: 0}, {X: 4, Y: 1}, {X: 3, Y: 1}, {X: 3, Y: 4}, {X: 1, Y: 4}, {X: 1, Y: 1}, {X: 0, Y: 1}}
	hub := []v2.Vec{{X: 0, Y: 0}, {X: 4, Y: 0}, {X: 4, Y: 2}, {X: 2, Y: 2}, {X: 2, Y: 4}, {X: 0, Y: 4}, {X: 0, Y: 3}, {X: 1, Y: 3}, {X: 1, Y: 1}, {X: 0, Y: 1}}
	mir := func(vs []v2.Vec, sx, sy float64) []v2.Vec {
		o := tr(vs, 1, 0, 0)
		for i := range o {
			o[i].X, o[i].Y = o[i].X*sx, o[i].Y*sy
		}
		if sx*sy < 0 {
			return rev(o)
		}
		return o
	}
	// wide flat profiles (flange and hub, T on its side): the inner vertical edges are short, lie on the centre
	// line of the bounding square and stay inside one deep quadtree cell
	for _, w := range []float64{10, 12, 20, 24, 34, 40, 50, 64, 100} {
		h := w / 2
		fl := []v2.Vec{{X: 0, Y: 0}, {X: w, Y: 0}, {X: w, Y: 1}, {X: h, Y: 1}, {X: h, Y: 1.8}, {X: 0, Y: 1.8}}
		ts := []v2.Vec{{X: 0, Y: 0}, {X: h, Y: 0}, {X: h, Y: 1}, {X: w, Y: 1}, {X: w, Y: 2}, {X: h, Y: 2}, {X: h, Y: 3}, {X: 0, Y: 3}}
		for bi, b := range [][]v2.Vec{fl, ts} {
			nm := []string{"flange-and-hub", "T-on-its-side"}[bi]
			out = append(out, poly{fmt.Sprintf("%s width %g", nm, w), b, "wide-flat"})
			out = append(out, poly{fmt.Sprintf("%s width %g mirrored in x", nm, w), mir(b, -1, 1), "wide-flat"})
			out = append(out, poly{fmt.Sprintf("%s width %g transposed", nm, w), rev(func() []v2.Vec {
				o := make([]v2.Vec, len(b))
				for i, p := range b {
					o[i] = v2.Vec{X: p.Y, Y: p.X}
				}
				return o
			}()), "wide-flat"})
		}
	}
	for _, k := range []float64{1, 3, 5, 6, 7, 9, 10, 11, 12.5, 13, 17, 19, 20, 23, 25, 27, 29, 31, 37, 40, 41, 50, 63, 77, 100, 0.1, 0.3, 0.7, 1.0 / 3} {
		for bi, b := range [][]v2.Vec{el, tee, hub} {
			nm := []string{"L", "T", "hub"}[bi]
			out = append(out, poly{fmt.Sprintf("%s-plate x %g", nm, k), tr(b, k, 0, 0), "rectilinear-sizes"})
			out = append(out, poly{fmt.Sprintf("%s-plate x %g mirrored in x", nm, k), mir(tr(b, k, 0, 0), -1, 1), "rectilinear-sizes"})
			out = append(out, poly{fmt.Sprintf("%s-plate x %g mirrored in y", nm, k), mir(tr(b, k, 0, 0), 1, -1), "rectilinear-sizes"})
			out = append(out, poly{fmt.Sprintf("%s-plate x %g rotated 180", nm, k), mir(tr(b, k, 0, 0), -1, -1), "rectilinear-sizes"})
		}
	}
	return out
}

func rev(v []v2.Vec) []v2.Vec {
	o := make([]v2.Vec, len(v))
	for i := range v {
		o[i] = v[len(v)-1-i]
	}
	return o
}

func bbc(v []v2.Vec) v2.Vec {
	mn, mx := v[0], v[0]
	for _, p := range v {
		mn.X, mn.Y = math.Min(mn.X, p.X), math.Min(mn.Y, p.Y)
		mx.X, mx.Y = math.Max(mx.X, p.X), math.Max(mx.Y, p.Y)
	}
	return v2.Vec{X: (mn.X + mx.X) / 2, Y: (mn.Y + mx.Y) / 2}
}

func uniqSorted(m map[float64]bool) []float64 {
	o := make([]float64, 0, len(m))
	for k := range m {
		o = append(o, k)
	}
	sort.Float64s(o)
	return o
}

func main() {
	c := vlib.Start("C04")
	polys := gridPolys(4, vlib.Pick(c, 5, 7))
	if c.Thorough() {
		polys = append(polys, gridPolys(5, 4)...)
	}
	ngrid := len(polys)
	polys = append(polys, families()...)
	// the same polygons very small, very large and far from the origin (every 9th polygon, three placements)
	base := len(polys)
	for i := 0; i < base; i += 9 {
		for _, tf := range []struct {
			name string
			k    float64
			off  v2.Vec
		}{{"scaled by 1e-3", 1e-3, v2.Vec{}}, {"scaled by 1e-5", 1e-5, v2.Vec{}}, {"scaled by 4096", 4096, v2.Vec{}}, {"moved to (10000.5,-3000)", 1, v2.Vec{X: 10000.5, Y: -3000}}} {
			vs := make([]v2.Vec, len(polys[i].v))
			for k, p := range polys[i].v {
				vs[k] = p.MulScalar(tf.k).Add(tf.off)
			}
			polys = append(polys, poly{polys[i].name + " " + tf.name, vs, "placed-" + polys[i].fam})
		}
	}
	// recorded witness of the known finding on subdivision corners (the thorough tier's 5x5 grid contains more)
	polys = append(polys, poly{"[{0 1} {0 2} {0 4} {4 2}] scaled by 1e-3", []v2.Vec{{X: 0, Y: 0.001}, {X: 0, Y: 0.002}, {X: 0, Y: 0.004}, {X: 0.004, Y: 0.002}}, "placed-witness"})
	// polygons with a nearly repeated vertex: an extra vertex 5e-10 away from an existing one (a tiny edge that is
	// neither horizontal nor vertical), at every vertex position of every 11th polygon
	for i := 0; i < base; i += 11 {
		for k := range polys[i].v {
			vs := append([]v2.Vec{}, polys[i].v[:k+1]...)
			nx := polys[i].v[(k+1)%len(polys[i].v)]
			dir := nx.Sub(polys[i].v[k]).Normalize()
			vs = append(vs, polys[i].v[k].Add(dir.MulScalar(5e-10)))
			vs = append(vs, polys[i].v[k+1:]...)
			if simple(vs) {
				polys = append(polys, poly{fmt.Sprintf("%s with vertex %d nearly repeated", polys[i].name, k), vs, "near-duplicate-vertex-" + polys[i].fam})
			}
		}
	}
	// polygons with very large coordinates (2^21 and 2^31 times a family polygon): clipping tolerances must scale
	for i := ngrid; i < base; i += 5 {
		for _, k := range []float64{1 << 21, 1 << 31} {
			vs := make([]v2.Vec, len(polys[i].v))
			ct := bbc(polys[i].v)
			for j, q := range polys[i].v {
				vs[j] = q.Sub(ct).MulScalar(k)
			}
			polys = append(polys, poly{fmt.Sprintf("%s centred, scaled by %g", polys[i].name, k), vs, "huge-" + polys[i].fam})
		}
	}
	var pts, depth3, nontrivial int64
	classes := vlib.NewCounter()
	done := c.ParFor(len(polys), func(i int) {
		pl := polys[i]
		fast, err := sdf.Polygon2D(pl.v)
		if err != nil {
			c.Violation("Polygon2D|error", fmt.Sprintf("%s: %v", pl.name, err), map[string]any{"polygon": pl.v})
			return
		}
		slow, err := sdf.Mesh2DSlow(sdf.VertexToLine(pl.v, true))
		if err != nil {
			c.Violation("Mesh2DSlow|error", fmt.Sprintf("%s: %v", pl.name, err), map[string]any{"polygon": pl.v})
			return
		}
		mn, mx := pl.v[0], pl.v[0]
		levels := map[float64]bool{}
		for _, p := range pl.v {
			mn.X, mn.Y = math.Min(mn.X, p.X), math.Min(mn.Y, p.Y)
			mx.X, mx.Y = math.Max(mx.X, p.X), math.Max(mx.Y, p.Y)
			levels[p.Y] = true
		}
		size := math.Max(mx.X-mn.X, mx.Y-mn.Y)
		// query coordinates
		xs, ys := map[float64]bool{}, map[float64]bool{}
		q := size / 16
		if pl.fam[:4] == "grid" {
			q = 0.25
		}
		for x := mn.X - 4*q; x <= mx.X+4*q+1e-12; x += q {
			xs[x] = true
		}
		for y := mn.Y - 4*q; y <= mx.Y+4*q+1e-12; y += q {
			ys[y] = true
		}
		splitX, splitY := map[float64]bool{}, map[float64]bool{}
		var corners []v2.Vec
		if m, ok := fast.(*sdf.MeshSDF2); ok {
			bs := m.Boxes()
			for _, b := range bs {
				corners = append(corners, b.Min, b.Max, v2.Vec{X: b.Min.X, Y: b.Max.Y}, v2.Vec{X: b.Max.X, Y: b.Min.Y})
			}
			if len(bs) > 21 {
				atomic.AddInt64(&depth3, 1)
			}
			for _, b := range bs {
				cx, cy := (b.Min.X+b.Max.X)/2, (b.Min.Y+b.Max.Y)/2
				for _, x := range []float64{b.Min.X, b.Max.X, cx, b.Min.X + 0.5*(b.Max.X-b.Min.X)} {
					splitX[x] = true
				}
				for _, y := range []float64{b.Min.Y, b.Max.Y, cy, b.Min.Y + 0.5*(b.Max.Y-b.Min.Y)} {
					splitY[y] = true
				}
			}
			// the boxes handed out are the caller's to use (a drawing routine may scale them in place): changing them
			// now, before the shape is evaluated, must not change the shape
			for _, b := range bs {
				ctr := b.Center()
				b.Min, b.Max = ctr.Add(b.Min.Sub(ctr).MulScalar(0.9)), ctr.Add(b.Max.Sub(ctr).MulScalar(0.9))
			}
		}
		for x := range splitX {
			xs[x], xs[math.Nextafter(x, math.Inf(1))], xs[math.Nextafter(x, math.Inf(-1))] = true, true, true
		}
		for y := range splitY {
			ys[y], ys[math.Nextafter(y, math.Inf(1))], ys[math.Nextafter(y, math.Inf(-1))] = true, true, true
		}
		for y := range levels {
			ys[math.Nextafter(y, math.Inf(1))], ys[math.Nextafter(y, math.Inf(-1))] = true, true
		}
		xs[mn.X-1000*size], xs[mx.X+1000*size] = true, true
		ys[mn.Y-1000*size], ys[mx.Y+1000*size] = true, true
		X, Y := uniqSorted(xs), uniqSorted(ys)
		sy := uniqSorted(splitY)
		tol := 1e-9 * (1 + size)
		var n int64
		for _, x := range X {
			for _, y := range Y {
				p := v2.Vec{X: x, Y: y}
				f, s := fast.Evaluate(p), slow.Evaluate(p)
				in, on := inside(pl.v, p)
				d := dist(pl.v, p)
				n++
				want := d
				if in {
					want = -d
				}
				desc := func() map[string]any {
					return map[string]any{"polygon": pl.v, "name": pl.name, "point": p, "Polygon2D": f, "Mesh2DSlow": s, "exact_inside": in, "exact_distance": d}
				}
				// class of the query point relative to the quadtree split lines
				cls := func() string {
					near := math.Inf(1)
					var line float64
					for _, l := range sy {
						if a := math.Abs(l - y); a < near {
							near, line = a, l
						}
					}
					if near <= 1e-9*(1+size) {
						for l := range levels {
							if math.Abs(l-line) <= 1e-9*(1+size) && l != line {
								return "query-within-1e-9-of-a-split-line-that-is-within-1e-9-of-a-vertex-level"
							}
						}
					}
					// an edge shorter than the library's clipping tolerance (1e-9), query level with it: see the known finding
					for i := range pl.v {
						a, b := pl.v[i], pl.v[(i+1)%len(pl.v)]
						if b.Sub(a).Length() <= 1e-9 && y >= math.Min(a.Y, b.Y)-4e-16*(1+math.Abs(y)) && y <= math.Max(a.Y, b.Y)+4e-16*(1+math.Abs(y)) {
							return "query-level-with-an-edge-shorter-than-the-clipping-tolerance"
						}
					}
					// an edge that passes (not at one of its end points) through a corner of the quadtree subdivision,
					// and the query exactly level with that corner (within 2 ulp): see the known finding
					for _, cn := range corners {
						if math.Abs(cn.Y-y) > 4*(math.Nextafter(math.Abs(y), math.Inf(1))-math.Abs(y)) || cn.X < x {
							continue
						}
						for i := range pl.v {
							a, b := pl.v[i], pl.v[(i+1)%len(pl.v)]
							if a.Sub(cn).Length() <= 1e-12*(1+size) || b.Sub(cn).Length() <= 1e-12*(1+size) {
								continue
							}
							ab := b.Sub(a)
							t := cn.Sub(a).Dot(ab) / ab.Length2()
							if t > 0 && t < 1 && a.Add(ab.MulScalar(t)).Sub(cn).Length() <= 1e-12*(1+size) {
								return "query-level-with-a-subdivision-corner-that-an-edge-passes-through"
							}
						}
					}
					if near <= 1e-9*(1+size) {
						return "query-on-or-within-1ulp-of-a-split-line"
					}
					for l := range levels {
						if y == l {
							return "query-level-with-a-vertex"
						}
					}
					return "generic-query-point"
				}
				if on || d <= tol {
					if math.Abs(f) > tol {
						c.Violation("Polygon2D|value-on-boundary", fmt.Sprintf("%s at %v (on the boundary): Polygon2D %g", pl.name, p, f), desc())
					}
					continue
				}
				if math.Abs(s-want) > tol {
					k := "distance"
					if (s < 0) != in {
						k = "sign"
					}
					c.Violation("Mesh2DSlow|"+k+"|"+cls(), fmt.Sprintf("%s at %v: Mesh2DSlow %g, exact %g", pl.name, p, s, want), desc())
					classes.Add("slow", 1)
				}
				if math.Abs(f-want) > tol {
					k := "distance"
					if (f < 0) != in {
						k = "sign"
					}
					c.Violation("Polygon2D|"+k+"|"+cls(), fmt.Sprintf("%s at %v: Polygon2D %g, Mesh2DSlow %g, exact %g", pl.name, p, f, s, want), desc())
					classes.Add(k+"|"+cls(), 1)
				}
			}
		}
		atomic.AddInt64(&pts, n)
		atomic.AddInt64(&nontrivial, 1)
	})
	c.Guard(">= 1 polygon reaches quadtree depth 3 (more than 21 boxes)", depth3 > 0, fmt.Sprint(depth3))
	c.Note("violating points by class: %v", classes.Map())
	c.Finish(vlib.Coverage{
		States: done, Transitions: pts, Evaluations: done, Nontrivial: nontrivial,
		Rule:        "states = polygons (every simple polygon on the grid in both orientations + families); transitions = query points put through the three-way comparison; non-trivial = polygons evaluated",
		Samples:     []any{polys[0].v, polys[ngrid/2].v, polys[ngrid].name, polys[len(polys)-1].name, map[string]any{"grid_polygons": ngrid, "family_polygons": len(polys) - ngrid}},
		Exhaustive:  true,
		Bounds:      map[string]any{"grid": "4x4 integer (thorough: also 5x5 with <= 4 vertices)", "max_vertices": vlib.Pick(c, 5, 7), "query": "quarter-integer lattice over the box +-1, every quadtree box corner/centre coordinate and +-1 ulp, vertex levels +-1 ulp, +-1000 x size"},
		Assumptions: []string{"inside/outside by exact orientation predicates (float filter with rational fallback); distance in float64 with 1e-9 relative tolerance", "points whose exact distance is <= 1e-9 are only required to return |value| <= 1e-9"},
	})
}
