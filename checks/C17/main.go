// C17 — profile builders produce the geometry they specify.
// Engine E: every corner (prev, v, next) on the 5x5 grid x radii x facet counts for fillets and
// chamfers; arcs over grid chords x radii x signs x facets; relative/polar chains; N-gons; Bezier
// control polygons of degree 1..4 on the 3x3 grid and handle specifications, with the library's random
// perturbation answered from a scripted menu with <= 2 deviations.  Oracles are independent
// constructions (tangent points, bisector centres, de Casteljau).
package main

import (
	"fmt"
	"math"
	"sync/atomic"

	"github.com/deadsy/sdfx/sdf"
	v2 "github.com/deadsy/sdfx/vec/v2"

	"verif/lib/vlib"
)

func sub(a, b v2.Vec) v2.Vec         { return v2.Vec{X: a.X - b.X, Y: a.Y - b.Y} }
func add(a, b v2.Vec) v2.Vec         { return v2.Vec{X: a.X + b.X, Y: a.Y + b.Y} }
func mul(a v2.Vec, k float64) v2.Vec { return v2.Vec{X: a.X * k, Y: a.Y * k} }
func dot(a, b v2.Vec) float64        { return a.X*b.X + a.Y*b.Y }
func cross(a, b v2.Vec) float64      { return a.X*b.Y - a.Y*b.X }
func norm(a v2.Vec) float64          { return math.Hypot(a.X, a.Y) }
func unit(a v2.Vec) v2.Vec           { return mul(a, 1/norm(a)) }
func near(a, b v2.Vec, tol float64) bool {
	return math.Abs(a.X-b.X) <= tol && math.Abs(a.Y-b.Y) <= tol
}

// scripted random source: Float64() answers vals[i] for the i-th call (default 1/4)
type src struct {
	dev   map[int]float64
	calls int
}

func (s *src) Int63() int64 {
	v := 0.25
	if d, ok := s.dev[s.calls]; ok {
		v = d
	}
	s.calls++
	return int64(v * (1 << 53)) // rand.Float64 = Int63n(1<<53)/(1<<53) = Int63() & (2^53-1) / 2^53
}
func (s *src) Seed(int64) {}

// de Casteljau
func bez(cp []v2.Vec, t float64) v2.Vec {
	p := append([]v2.Vec{}, cp...)
	for n := len(p) - 1; n > 0; n-- {
		for i := 0; i < n; i++ {
			p[i] = add(mul(p[i], 1-t), mul(p[i+1], t))
		}
	}
	return p[0]
}

// paramOf finds t in [lo,1] with bez(cp,t) nearest to q (dense scan + golden refinement).
func paramOf(cp []v2.Vec, q v2.Vec, lo float64) (float64, float64) {
	best, bt := math.Inf(1), lo
	N := 512
	for i := 0; i <= N; i++ {
		t := float64(i) / float64(N)
		if d := norm(sub(bez(cp, t), q)); d < best {
			best, bt = d, t
		}
	}
	a, b := math.Max(0, bt-1.0/float64(N)), math.Min(1, bt+1.0/float64(N))
	for it := 0; it < 80; it++ {
		m1, m2 := a+(b-a)*0.382, a+(b-a)*0.618
		if norm(sub(bez(cp, m1), q)) < norm(sub(bez(cp, m2), q)) {
			b = m2
		} else {
			a = m1
		}
	}
	t := (a + b) / 2
	return t, norm(sub(bez(cp, t), q))
}

func main() {
	c := vlib.Start("C17")
	var states, trans int64
	samples := []any{}
	// the Bezier part runs first, sharded over worker processes (the library's random source is a
	// process global); worker processes never get past this call
	bStates, bTrans, bSample := bezierPart(c)
	unchanged := vlib.NewCounter()

	// ---------------- fillets and chamfers ----------------
	var grid []v2.Vec
	G := vlib.Pick(c, 5, 7) // thorough: 7x7 grid
	for x := 0; x < G; x++ {
		for y := 0; y < G; y++ {
			grid = append(grid, v2.Vec{X: float64(x), Y: float64(y)})
		}
	}
	type corner struct{ p, v, n v2.Vec }
	var corners []corner
	for _, p := range grid {
		for _, v := range grid {
			for _, n := range grid {
				if p == v || n == v || cross(sub(p, v), sub(n, v)) == 0 {
					continue
				}
				corners = append(corners, corner{p, v, n})
			}
		}
	}
	radii := []float64{0.125, 0.5, 1, 3}
	facets := []int{1, 2, 5, 6}
	var tr int64
	states += c.ParFor(len(corners), func(i int) {
		k := corners[i]
		e0, e1 := unit(sub(k.p, k.v)), unit(sub(k.n, k.v))
		theta := math.Atan2(math.Abs(cross(e0, e1)), dot(e0, e1))
		turn := "left"
		if cross(e1, e0) < 0 {
			turn = "right"
		}
		for _, chamfer := range []bool{false, true} {
			for _, r0 := range radii {
				fs := facets
				r := r0
				if chamfer {
					fs = []int{1}
					r = r0 * math.Sqrt(0.5)
				}
				for _, f := range fs {
					for _, closed := range []bool{false, true} {
						pg := sdf.NewPolygon()
						var vs []v2.Vec
						desc := map[string]any{"prev": k.p, "vertex": k.v, "next": k.n, "radius": r0, "facets": f, "chamfer": chamfer, "closed_polygon_vertex_first": closed}
						if closed {
							pv := pg.AddV2(k.v)
							if chamfer {
								pv.Chamfer(r0)
							} else {
								pv.Smooth(r0, f)
							}
							pg.AddV2(k.n)
							pg.AddV2(k.p)
							if f == fs[0] {
								// history: read the vertices of the still open polygon first, then close it: the
								// result must be that of the polygon built and closed without the intermediate read,
								// and reading twice must not change it
								hg := sdf.NewPolygon()
								hv := hg.AddV2(k.v)
								if chamfer {
									hv.Chamfer(r0)
								} else {
									hv.Smooth(r0, f)
								}
								hg.AddV2(k.n)
								hg.AddV2(k.p)
								_ = hg.Vertices()
								hg.Close()
								pg.Close()
								a, b2, b3 := pg.Vertices(), hg.Vertices(), hg.Vertices()
								same := len(a) == len(b2) && len(a) == len(b3)
								for q := 0; same && q < len(a); q++ {
									same = a[q] == b2[q] && a[q] == b3[q]
								}
								if !same {
									c.Violation("Polygon.Vertices|depends-on-earlier-calls(Vertices,Close,Vertices)", fmt.Sprintf("corner %v radius %g: closed polygon gives %d vertices, the same polygon read once before Close() gives %d, read again %d", k, r0, len(a), len(b2), len(b3)), desc)
								}
							}
							pg.Close()
							out := pg.Vertices()
							// rotate so that the list reads prev, (fillet...), next
							if len(out) < 3 {
								c.Violation("Polygon.Smooth|vertex-count", fmt.Sprintf("closed polygon corner %v: %d vertices", k, len(out)), desc)
								continue
							}
							vs = append([]v2.Vec{out[len(out)-1]}, out[:len(out)-1]...)
						} else {
							pg.AddV2(k.p)
							pv := pg.AddV2(k.v)
							if chamfer {
								pv.Chamfer(r0)
							} else {
								pv.Smooth(r0, f)
							}
							pg.AddV2(k.n)
							vs = pg.Vertices()
						}
						atomic.AddInt64(&tr, 1)
						d1 := r / math.Tan(theta/2)
						lp, ln := norm(sub(k.p, k.v)), norm(sub(k.n, k.v))
						if math.Abs(d1-lp) < 1e-9 || math.Abs(d1-ln) < 1e-9 {
							continue // on the boundary of "fits"
						}
						fits := d1 <= lp && d1 <= ln
						what := "Polygon.Smooth"
						if chamfer {
							what = "Polygon.Chamfer"
						}
						cls := fmt.Sprintf("turn-%s", turn)
						if !fits {
							which := "both-edges-too-short"
							if d1 <= lp || d1 <= ln {
								which = "one-edge-too-short"
							}
							unchanged.Add(which, 1)
							if len(vs) != 3 || vs[0] != k.p || vs[1] != k.v || vs[2] != k.n {
								c.Violation(what+"|vertex-changed-although-fillet-does-not-fit|"+which, fmt.Sprintf("corner %v r=%g: tangent distance %g exceeds an edge (%g, %g) but the result is %v", k, r, d1, lp, ln, vs), desc)
							}
							continue
						}
						if len(vs) != f+3 {
							c.Violation(what+"|point-count|"+cls, fmt.Sprintf("corner %v r=%g facets=%d: %d vertices (expected prev + %d + next)", k, r, f, len(vs), f+1), desc)
							continue
						}
						tol := 1e-9 * (1 + r + lp + ln)
						t0, t1 := add(k.v, mul(e0, d1)), add(k.v, mul(e1, d1))
						ctr := add(k.v, mul(unit(add(e0, e1)), r/math.Sin(theta/2)))
						pts := vs[1 : f+2]
						if !near(pts[0], t0, tol) || !near(pts[f], t1, tol) {
							c.Violation(what+"|does-not-start-and-end-at-tangent-points|"+cls, fmt.Sprintf("corner %v r=%g facets=%d: first %v last %v, tangent points %v %v", k, r, f, pts[0], pts[f], t0, t1), desc)
							continue
						}
						okc := true
						step := (math.Pi - theta) / float64(f)
						for j, q := range pts {
							if math.Abs(norm(sub(q, ctr))-r) > tol {
								okc = false
							}
							if j > 0 {
								a := math.Atan2(cross(sub(pts[j-1], ctr), sub(q, ctr)), dot(sub(pts[j-1], ctr), sub(q, ctr)))
								if math.Abs(math.Abs(a)-step) > 1e-9 {
									okc = false
								}
							}
						}
						if !okc {
							c.Violation(what+"|points-not-on-tangent-circle-in-equal-steps|"+cls, fmt.Sprintf("corner %v r=%g facets=%d: %v (centre %v, step %g)", k, r, f, pts, ctr, step), desc)
						}
						if vs[0] != k.p || vs[f+2] != k.n {
							c.Violation(what+"|neighbour-vertices-moved", fmt.Sprintf("corner %v: result %v", k, vs), desc)
						}
					}
				}
			}
		}
	})
	trans += tr
	samples = append(samples, map[string]any{"corners": len(corners), "radii": radii, "facets": facets, "example": corners[len(corners)/3]})

	// ---------------- arcs ----------------
	var chords [][2]v2.Vec
	for _, a := range grid {
		for _, b := range grid {
			if a != b {
				chords = append(chords, [2]v2.Vec{a, b})
			}
		}
	}
	var atr int64
	states += c.ParFor(len(chords), func(i int) {
		a, b := chords[i][0], chords[i][1]
		d := norm(sub(b, a))
		for _, rm := range []float64{0.5, 0.5 * (1 + 1.0/(1<<20)), 1, 4} { // 0.5: an exact semicircle (round 9)
			for _, sg := range []float64{1, -1} {
				for _, f := range []int{2, 3, 8} {
					r := sg * rm * d
					pg := sdf.NewPolygon()
					pg.AddV2(a)
					pg.AddV2(b).Arc(r, f)
					vs := pg.Vertices()
					atomic.AddInt64(&atr, 1)
					desc := map[string]any{"a": a, "b": b, "radius": r, "facets": f}
					cls := "r>0"
					if sg < 0 {
						cls = "r<0"
					}
					if len(vs) != f+1 || vs[0] != a || vs[f] != b {
						c.Violation("Polygon.Arc|point-count-or-endpoints|"+cls, fmt.Sprintf("arc %v-%v r=%g facets=%d: %v", a, b, r, f, vs), desc)
						continue
					}
					// independent centre: on the perpendicular bisector, on the right of a->b for r>0
					mid := mul(add(a, b), 0.5)
					ab := unit(sub(b, a))
					nrm := v2.Vec{X: ab.Y, Y: -ab.X}
					h := math.Sqrt(math.Max(0, r*r-d*d/4))
					ctr := add(mid, mul(nrm, sg*h))
					tol := 1e-9 * (1 + math.Abs(r))
					if rm == 0.5 {
						// exact semicircle: the centre's offset from the chord is the square root of a rounding error
						tol += 8 * math.Sqrt(2.3e-16) * d
					}
					tot := 2 * math.Asin(math.Min(1, d/(2*math.Abs(r))))
					ok := true
					for j := 1; j < f; j++ {
						q := vs[j]
						if math.Abs(norm(sub(q, ctr))-math.Abs(r)) > tol {
							ok = false
						}
						// equal angular steps along the minor arc from a to b
						ang := math.Atan2(cross(sub(a, ctr), sub(q, ctr)), dot(sub(a, ctr), sub(q, ctr)))
						if math.Abs(math.Abs(ang)-tot*float64(j)/float64(f)) > 1e-9*(1+1/math.Max(1e-3, math.Abs(math.Sin(tot)))) && tot < math.Pi-1e-3 {
							ok = false
						}
						// bulge on the side opposite to the centre (left of a->b for r>0)
						if s := cross(sub(b, a), sub(q, a)); s*sg <= 0 {
							ok = false
						}
					}
					if !ok {
						c.Violation("Polygon.Arc|points-not-on-the-specified-circle-side-or-steps|"+cls, fmt.Sprintf("arc %v-%v r=%g facets=%d: %v (centre %v)", a, b, r, f, vs, ctr), desc)
					}
				}
			}
		}
	})
	// outlines with several arcs (round 9): a path of five points, every subset of at least two of its four segments
	// an arc (radius 1 or 1.5 chords, signs alternating or equal, 2 / 3 / 8 / mixed facets): the vertex list is the
	// concatenation of the arcs' points computed independently, and a second Vertices() call returns the same list
	{
		path := []v2.Vec{{X: 0, Y: 0}, {X: 4, Y: 0}, {X: 5, Y: 3}, {X: 1, Y: 4}, {X: -2, Y: 2}}
		arcPts := func(a, b v2.Vec, r float64, f int) []v2.Vec {
			d := norm(sub(b, a))
			sg := 1.0
			if r < 0 {
				sg = -1
			}
			mid := mul(add(a, b), 0.5)
			ab := unit(sub(b, a))
			nrm := v2.Vec{X: ab.Y, Y: -ab.X}
			ctr := add(mid, mul(nrm, sg*math.Sqrt(math.Max(0, r*r-d*d/4))))
			tot := 2 * math.Asin(math.Min(1, d/(2*math.Abs(r))))
			var out []v2.Vec
			for j := 1; j < f; j++ {
				th := -sg * tot * float64(j) / float64(f) // centre on the right of a->b for r > 0: from a to b along the minor arc is clockwise
				ra := sub(a, ctr)
				out = append(out, add(ctr, v2.Vec{X: ra.X*math.Cos(th) - ra.Y*math.Sin(th), Y: ra.X*math.Sin(th) + ra.Y*math.Cos(th)}))
			}
			return out
		}
		for mask := 1; mask < 16; mask++ {
			if mask&(mask-1) == 0 {
				continue // single arcs are above
			}
			for fi, fs := range [][4]int{{2, 2, 2, 2}, {3, 3, 3, 3}, {8, 8, 8, 8}, {8, 2, 3, 5}, {2, 9, 2, 4}} {
				for si, signs := range [][4]float64{{1, -1, 1, -1}, {1, 1, 1, 1}, {-1, -1, 1, 1}} {
					for _, rm := range []float64{1, 1.5} {
						pg := sdf.NewPolygon()
						pg.AddV2(path[0])
						want := []v2.Vec{path[0]}
						for k := 1; k < 5; k++ {
							v := pg.AddV2(path[k])
							if mask&(1<<(k-1)) != 0 {
								r := signs[k-1] * rm * norm(sub(path[k], path[k-1]))
								v.Arc(r, fs[k-1])
								want = append(want, arcPts(path[k-1], path[k], r, fs[k-1])...)
							}
							want = append(want, path[k])
						}
						got := pg.Vertices()
						again := pg.Vertices()
						states++
						atomic.AddInt64(&atr, 1)
						desc := map[string]any{"path": path, "arc_segments_mask": mask, "facets": fs, "radius_signs": signs, "radius_in_chords": rm}
						_, _ = fi, si
						same := len(got) == len(want)
						for i := 0; same && i < len(got); i++ {
							same = near(got[i], want[i], 1e-9)
						}
						if !same {
							c.Violation("Polygon.Arc|several-arcs-in-one-outline|vertices-differ-from-the-specified-arcs", fmt.Sprintf("arcs on segments %04b, facets %v, signs %v, r = %g chords: %d vertices %v, specified %d: %v", mask, fs, signs, rm, len(got), got, len(want), want), desc)
							continue
						}
						if len(again) != len(got) {
							c.Violation("Polygon.Arc|several-arcs-in-one-outline|second-Vertices-call-differs", fmt.Sprintf("arcs on segments %04b: first call %d vertices, second call %d", mask, len(got), len(again)), desc)
						}
					}
				}
			}
		}
	}
	// API histories of the polygon builder: vertices added one by one and then as a set (every pre-count 0..6 and
	// set size 1..5, so that every capacity step of the vertex list is crossed), and Close() on polygons whose last
	// vertex stores the same numbers as the first (a relative vertex, or a closing arc back to the start)
	for pre := 0; pre <= 6; pre++ {
		for k := 1; k <= 5; k++ {
			pg := sdf.NewPolygon()
			var want []v2.Vec
			for i := 0; i < pre; i++ {
				q := v2.Vec{X: float64(i) + 1, Y: float64(i*i) * 0.5}
				pg.AddV2(q)
				want = append(want, q)
			}
			var set []v2.Vec
			for i := 0; i < k; i++ {
				set = append(set, v2.Vec{X: 10 - float64(i), Y: 20 + float64(i)*3})
			}
			pg.AddV2Set(set)
			want = append(want, set...)
			got := pg.Vertices()
			states++
			same := len(got) == len(want)
			for i := 0; same && i < len(got); i++ {
				same = got[i] == want[i]
			}
			if !same {
				c.Violation("Polygon.AddV2Set|vertices-differ-from-those-added", fmt.Sprintf("%d vertices added one by one, then a set of %d: Vertices() = %v, added %v", pre, k, got, want), map[string]any{"added_singly": pre, "set_size": k})
			}
		}
	}
	{
		pg := sdf.NewPolygon()
		pg.Add(2, 1)
		pg.Add(3, 0).Rel()
		pg.Add(0, 3).Rel()
		pg.Add(2, 1).Rel() // the same numbers as the first vertex, but an offset
		pg.Close()
		got, want := pg.Vertices(), []v2.Vec{{X: 2, Y: 1}, {X: 5, Y: 1}, {X: 5, Y: 4}, {X: 7, Y: 5}}
		states++
		same := len(got) == len(want)
		for i := 0; same && i < len(got); i++ {
			same = got[i] == want[i]
		}
		if !same {
			c.Violation("Polygon.Close|relative-last-vertex-with-the-numbers-of-the-first", fmt.Sprintf("(2,1), rel (3,0), rel (0,3), rel (2,1), Close: Vertices() = %v, want %v", got, want), map[string]any{"want": want})
		}
		// closing arc: the last vertex is the start point again and carries the arc from (4,3) back to it
		for _, f := range []int{3, 8} {
			for _, r := range []float64{5, -5, 2.5 * (1 + 1.0/(1<<20))} {
				pa := sdf.NewPolygon()
				pa.Add(0, 0)
				pa.Add(4, 0)
				pa.Add(4, 3)
				pa.Add(0, 0).Arc(r, f)
				pa.Close()
				vs := pa.Vertices()
				states++
				a, b := v2.Vec{X: 4, Y: 3}, v2.Vec{}
				d := norm(sub(b, a))
				sg := 1.0
				if r < 0 {
					sg = -1
				}
				mid := mul(add(a, b), 0.5)
				ab := unit(sub(b, a))
				nrm := v2.Vec{X: ab.Y, Y: -ab.X}
				h := math.Sqrt(math.Max(0, r*r-d*d/4))
				ctr := add(mid, mul(nrm, sg*h))
				on := 0
				for _, q := range vs {
					if math.Abs(norm(sub(q, ctr))-math.Abs(r)) <= 1e-9*(1+math.Abs(r)) && norm(sub(q, a)) > 1e-9 && norm(sub(q, b)) > 1e-9 {
						on++
					}
				}
				if on != f-1 {
					c.Violation("Polygon.Close|closing-arc-back-to-the-start-point", fmt.Sprintf("(0,0) (4,0) (4,3) (0,0).Arc(%g,%d) Close: %d of the arc's %d interior points are in the outline %v", r, f, on, f-1, vs), map[string]any{"radius": r, "facets": f})
				}
			}
		}
	}
	// a smoothed / chamfered corner whose NEXT vertex carries an arc: the arc still runs on the specified circle
	// through the corner vertex and its own vertex (the fillet is fitted to the first arc facet afterwards)
	for _, cfgA := range []struct{ a, p, b v2.Vec }{{v2.Vec{}, v2.Vec{X: 4}, v2.Vec{X: 6, Y: 3}}, {v2.Vec{X: -1, Y: 2}, v2.Vec{X: 3, Y: 1}, v2.Vec{X: 3, Y: -4}}, {v2.Vec{X: 0, Y: 5}, v2.Vec{}, v2.Vec{X: 5}}} {
		for _, rm := range []float64{0.75, 1, 4} {
			for _, sg := range []float64{1, -1} {
				for _, f := range []int{3, 8} {
					for _, kind := range []string{"Smooth", "Chamfer"} {
						a, pc, b := cfgA.a, cfgA.p, cfgA.b
						d := norm(sub(b, pc))
						r := sg * rm * d
						pg := sdf.NewPolygon()
						pg.AddV2(a)
						if kind == "Smooth" {
							pg.AddV2(pc).Smooth(0.1, 3)
						} else {
							pg.AddV2(pc).Chamfer(0.1)
						}
						pg.AddV2(b).Arc(r, f)
						pg.AddV2(v2.Vec{X: a.X - 3, Y: a.Y - 6})
						pg.Close()
						vs := pg.Vertices()
						states++
						mid := mul(add(pc, b), 0.5)
						ab := unit(sub(b, pc))
						nrm := v2.Vec{X: ab.Y, Y: -ab.X}
						h := math.Sqrt(math.Max(0, r*r-d*d/4))
						ctr := add(mid, mul(nrm, sg*h))
						tot := 2 * math.Asin(math.Min(1, d/(2*math.Abs(r))))
						missing := 0
						for j := 2; j < f; j++ { // interior arc points beyond the first facet (the fillet may cut into that one)
							ang := -sg * tot * float64(j) / float64(f)
							q0 := sub(pc, ctr)
							q := add(ctr, v2.Vec{X: q0.X*math.Cos(ang) - q0.Y*math.Sin(ang), Y: q0.X*math.Sin(ang) + q0.Y*math.Cos(ang)})
							found := false
							for _, v := range vs {
								if norm(sub(v, q)) <= 1e-9*(1+math.Abs(r)) {
									found = true
								}
							}
							if !found {
								missing++
							}
						}
						if missing > 0 {
							c.Violation("Polygon."+kind+"+Arc|arc-after-a-filleted-corner-leaves-its-circle", fmt.Sprintf("%v, %v.%s(0.1), %v.Arc(%g,%d): %d of the arc's interior points are not in the outline %v", a, pc, kind, b, r, f, missing, vs),
								map[string]any{"a": a, "corner": pc, "b": b, "radius": r, "facets": f, "corner_op": kind})
						}
					}
				}
			}
		}
	}
	// the arc vertex at every position of a CLOSED polygon (first: the arc runs from the last vertex to the
	// first; middle; last), third vertex on the side of the chord away from the bulge
	states += c.ParFor(len(chords), func(i int) {
		a, b := chords[i][0], chords[i][1]
		d := norm(sub(b, a))
		for _, rm := range []float64{0.5 * (1 + 1.0/(1<<20)), 1, 4} {
			for _, sg := range []float64{1, -1} {
				const f = 3
				r := sg * rm * d
				mid := mul(add(a, b), 0.5)
				ab := unit(sub(b, a))
				nrm := v2.Vec{X: ab.Y, Y: -ab.X}
				c0 := add(mid, mul(nrm, sg*d))
				h := math.Sqrt(math.Max(0, r*r-d*d/4))
				ctr := add(mid, mul(nrm, sg*h))
				for pos, order := range []string{"first", "middle", "last"} {
					pg := sdf.NewPolygon()
					switch pos {
					case 0:
						pg.AddV2(b).Arc(r, f)
						pg.AddV2(c0)
						pg.AddV2(a)
					case 1:
						pg.AddV2(a)
						pg.AddV2(b).Arc(r, f)
						pg.AddV2(c0)
					case 2:
						pg.AddV2(c0)
						pg.AddV2(a)
						pg.AddV2(b).Arc(r, f)
					}
					pg.Close()
					vs := pg.Vertices()
					atomic.AddInt64(&atr, 1)
					desc := map[string]any{"a": a, "b": b, "third": c0, "radius": r, "facets": f, "arc_vertex_position": order, "closed": true}
					cls := "r>0"
					if sg < 0 {
						cls = "r<0"
					}
					if n := len(vs); n > 1 && vs[0] == vs[n-1] {
						vs = vs[:n-1]
					}
					ia := -1
					for k, q := range vs {
						if q == a {
							ia = k
						}
					}
					ok := ia >= 0 && len(vs) == 3+f-1
					if ok {
						for j := 1; j < f; j++ {
							q := vs[(ia+j)%len(vs)]
							if math.Abs(norm(sub(q, ctr))-math.Abs(r)) > 1e-9*(1+math.Abs(r)) || cross(sub(b, a), sub(q, a))*sg <= 0 {
								ok = false
							}
						}
						if vs[(ia+f)%len(vs)] != b {
							ok = false
						}
					}
					if !ok {
						c.Violation("Polygon.Arc|closed-polygon|arc-vertex-"+order+"|"+cls, fmt.Sprintf("closed polygon, arc %v-%v r=%g facets=%d on the %s vertex: %v", a, b, r, f, order, vs), desc)
					}
				}
			}
		}
	})
	trans += atr
	samples = append(samples, map[string]any{"arc_chords": len(chords), "radius_over_chord": []float64{0.5000005, 1, 4}, "facets": []int{2, 3, 8}})

	// ---------------- relative / polar chains ----------------
	type ve struct {
		x, y       float64
		rel, polar bool
	}
	vm := []ve{{1, 2, false, false}, {1, 0, true, false}, {-2, 3, true, false}, {2, 90, false, true}, {1, 45, true, true}, {-0.5, -0.25, false, false}}
	var chains [][]ve
	var rec func(cur []ve)
	rec = func(cur []ve) {
		if len(cur) >= 2 {
			chains = append(chains, append([]ve{}, cur...))
		}
		if len(cur) == 4 {
			return
		}
		for _, m := range vm {
			if len(cur) == 0 && m.rel {
				continue
			}
			rec(append(cur, m))
		}
	}
	rec(nil)
	for _, ch := range chains {
		pg := sdf.NewPolygon()
		var want []v2.Vec
		for _, e := range ch {
			x, y := e.x, e.y
			pv := pg.Add(x, y)
			if e.polar {
				pv.Polar()
				x, y = e.x*math.Cos(e.y*math.Pi/180), e.x*math.Sin(e.y*math.Pi/180)
				_ = pv
			}
			if e.rel {
				pv.Rel()
				x, y = x+want[len(want)-1].X, y+want[len(want)-1].Y
			}
			want = append(want, v2.Vec{X: x, Y: y})
		}
		// Polar() takes the angle in radians: rebuild with radians
		pg = sdf.NewPolygon()
		for _, e := range ch {
			var pv *sdf.PolygonVertex
			if e.polar {
				pv = pg.Add(e.x, e.y*math.Pi/180).Polar()
			} else {
				pv = pg.Add(e.x, e.y)
			}
			if e.rel {
				pv.Rel()
			}
		}
		got := pg.Vertices()
		states++
		ok := len(got) == len(want)
		for i := range want {
			if ok && !near(got[i], want[i], 1e-12) {
				ok = false
			}
		}
		if !ok {
			c.Violation("Polygon|relative-or-polar-vertex-resolution", fmt.Sprintf("chain %+v resolves to %v, expected %v", ch, got, want), map[string]any{"chain": fmt.Sprintf("%+v", ch)})
		}
	}
	samples = append(samples, map[string]any{"relative_polar_chains": len(chains)})

	// ---------------- N-gons ----------------
	for n := 3; n <= 32; n++ {
		for _, r := range []float64{0.5, 1, 7.25} {
			vs := sdf.Nagon(n, r)
			states++
			ok := len(vs) == n
			for i := 0; ok && i < n; i++ {
				a := 2 * math.Pi * float64(i) / float64(n)
				if !near(vs[i], v2.Vec{X: r * math.Cos(a), Y: r * math.Sin(a)}, 1e-9*r*float64(n)) {
					ok = false
				}
			}
			if !ok {
				c.Violation("Nagon|not-regular", fmt.Sprintf("Nagon(%d, %g) = %v", n, r, vs), map[string]any{"n": n, "radius": r})
			}
		}
	}

	trans += bTrans
	states += bStates
	samples = append(samples, bSample)
	um := unchanged.Map()
	c.Guard("fillets that fit on neither / exactly one edge both occurred", um["one-edge-too-short"] > 100 && um["both-edges-too-short"] > 100, fmt.Sprint(um))
	c.Finish(vlib.Coverage{
		States: states, Transitions: trans, Evaluations: states, Nontrivial: trans,
		Rule:        "states = builder inputs (corner geometries, chords, chains, n-gons, control polygons); transitions = builder invocations checked against the independent construction; non-trivial = invocations",
		Samples:     samples,
		Exhaustive:  true,
		Bounds:      map[string]any{"corner_grid": "5x5 (thorough 6x6)", "arc_grid": "5x5 (thorough 6x6)", "bezier_grid": "3x3, degree 1..4 (quick: every 6th of degree 4; thorough: also 4x4, degree 1..3)", "radii": radii, "facets": facets},
		Assumptions: []string{"corners with the tangent distance within 1e-9 of an edge length are skipped (boundary of 'fits')", "arc side convention: the arc bulges to the left of a->b for a positive radius (the centre is on the right), as the code comment states", "Polar() takes the angle in radians"},
	})
}
