package main

import (
	"fmt"

	"github.com/deadsy/sdfx/sdf"
	v2 "github.com/deadsy/sdfx/vec/v2"
	"math"

	"verif/lib/vlib"
)

type dev map[int]float64

// checkBez builds one Bezier curve from control points and checks the sampled polygon; it returns the
// number of random answers the library asked for.
func checkBez(report func(key, what string, desc any), cp []v2.Vec, closed bool, d dev) int {
	allSame := true
	for _, p := range cp {
		if p != cp[0] {
			allSame = false
		}
	}
	if allSame {
		return 0
	}
	s := &src{dev: d}
	sdf.VerifSetRand(s)
	b := sdf.NewBezier()
	for i, p := range cp {
		bv := b.AddV2(p)
		if i > 0 && i < len(cp)-1 {
			bv.Mid()
		}
	}
	if closed {
		b.Close()
	}
	pg, err := b.Polygon()
	var vs []v2.Vec
	if err == nil {
		vs = pg.Vertices()
	}
	calls := s.calls
	desc := map[string]any{"control_points": cp, "closed": closed, "random_answers": fmt.Sprint(d)}
	if err == nil && len(d) == 0 {
		// sampling the same curve value a second time must give the same polyline
		vs2, err2 := polygonAgain(b)
		same := err2 == nil
		if same {
			same = len(vs2) == len(vs)
			for i := 0; same && i < len(vs); i++ {
				same = vs2[i] == vs[i]
			}
		}
		if !same {
			report("Bezier.Polygon|second-call-on-the-same-curve-differs", fmt.Sprintf("control polygon %v closed=%v: Polygon() called twice on one Bezier value gives different results (second error: %v)", cp, closed, err2), desc)
		}
	}
	deg := len(cp) - 1
	cls := fmt.Sprintf("degree-%d", deg)
	straight := true
	for _, p := range cp {
		if cross(sub(cp[len(cp)-1], cp[0]), sub(p, cp[0])) != 0 {
			straight = false
		}
	}
	if straight && (cp[0].X == cp[len(cp)-1].X || cp[0].Y == cp[len(cp)-1].Y) {
		cls += ",axis-aligned-straight"
	}
	if err != nil {
		report("Bezier.Polygon|error|"+cls, fmt.Sprintf("control polygon %v: %v", cp, err), desc)
		return calls
	}
	wantLast := cp[len(cp)-1]
	curves := [][]v2.Vec{cp}
	if closed && cp[0] != cp[len(cp)-1] {
		curves = append(curves, []v2.Vec{cp[len(cp)-1], cp[0]}) // closing adds a straight span back
		wantLast = cp[0]
	}
	if len(vs) < 2 {
		report("Bezier.Polygon|fewer-than-two-vertices|"+cls, fmt.Sprintf("control polygon %v closed=%v: vertices %v", cp, closed, vs), desc)
		return calls
	}
	if vs[0] != cp[0] || vs[len(vs)-1] != wantLast {
		report("Bezier.Polygon|does-not-start-and-end-at-end-control-points|"+cls, fmt.Sprintf("control polygon %v closed=%v: first %v last %v", cp, closed, vs[0], vs[len(vs)-1]), desc)
		return calls
	}
	if deg == 1 && !closed && len(vs) != 2 {
		report("Bezier.Polygon|straight-span-not-reproduced-exactly|"+cls, fmt.Sprintf("degree-1 span %v sampled as %v", cp, vs), desc)
		return calls
	}
	// every vertex on the curve at increasing parameters: the sampler bisects, so every vertex is the
	// curve point at a multiple of 1/512 (independent de Casteljau table), span after span
	tab := func(cv []v2.Vec) []v2.Vec {
		t := make([]v2.Vec, 513)
		for j := range t {
			t[j] = bez(cv, float64(j)/512)
		}
		return t
	}
	body := vs
	if len(curves) == 2 {
		// the closing span is straight (degree 1): it contributes exactly its end point
		body = vs[:len(vs)-1]
		if len(body) < 2 || body[len(body)-1] != cp[len(cp)-1] {
			report("Bezier.Polygon|closing-span-not-a-single-straight-segment|"+cls, fmt.Sprintf("control polygon %v closed: vertices %v", cp, vs), desc)
			return calls
		}
	}
	// match backwards (a curve may pass through the same point twice): the last vertex is parameter 1,
	// every earlier vertex takes the largest parameter below its successor's
	cur := tab(curves[0])
	jnext := 513
	for i := len(body) - 1; i >= 0; i-- {
		q := body[i]
		found := -1
		for j := jnext - 1; j >= 0; j-- {
			if near(cur[j], q, 1e-9) {
				found = j
				break
			}
		}
		if i == len(body)-1 && found != 512 {
			found = -1
		}
		if found < 0 {
			_, dist := paramOf(curves[0], q, 0)
			kind := "vertex-not-on-curve"
			if dist <= 1e-9 {
				kind = "parameters-not-strictly-increasing"
			}
			report("Bezier.Polygon|"+kind+"|"+cls, fmt.Sprintf("control polygon %v: vertex %d = %v (distance to the curve %g, next parameter %d/512) in %v", cp, i, q, dist, jnext, vs), desc)
			return calls
		}
		jnext = found
	}
	return calls
}

// checkTrailingMid: first point an end point, every other point a mid control point, then Close(): the
// closing end point is the first point, so the curve is the Bezier curve of cp followed by cp[0]
// (degree len(cp)); this includes control polygons whose last mid point coincides with the start.
func checkTrailingMid(report func(key, what string, desc any), cp []v2.Vec) {
	allSame := true
	for _, p := range cp {
		if p != cp[0] {
			allSame = false
		}
	}
	if allSame {
		return
	}
	sdf.VerifSetRand(&src{})
	b := sdf.NewBezier()
	for i, p := range cp {
		bv := b.AddV2(p)
		if i > 0 {
			bv.Mid()
		}
	}
	b.Close()
	desc := map[string]any{"control_points": cp, "closed": true, "all_but_the_first_are_mid_points": true}
	cls := fmt.Sprintf("degree-%d", len(cp))
	if cp[len(cp)-1] == cp[0] {
		cls += ",last-mid-point-on-the-start"
	}
	pg, err := b.Polygon()
	if err != nil {
		report("Bezier.Polygon|closed-with-trailing-mid-points|error|"+cls, fmt.Sprintf("control polygon %v + Close(): %v", cp, err), desc)
		return
	}
	vs := pg.Vertices()
	full := append(append([]v2.Vec{}, cp...), cp[0])
	if len(vs) < 2 || vs[0] != cp[0] || vs[len(vs)-1] != cp[0] {
		report("Bezier.Polygon|closed-with-trailing-mid-points|not-closed-at-the-start-point|"+cls, fmt.Sprintf("control polygon %v + Close(): vertices %v", cp, vs), desc)
		return
	}
	for i, q := range vs {
		if _, d := paramOf(full, q, 0); d > 1e-9 {
			report("Bezier.Polygon|closed-with-trailing-mid-points|vertex-not-on-curve|"+cls, fmt.Sprintf("control polygon %v + Close(): vertex %d = %v is %g from the curve", cp, i, q, d), desc)
			return
		}
	}
}

// polygonAgain calls b.Polygon() a second time and converts a panic into an error.
func polygonAgain(b *sdf.Bezier) (vs []v2.Vec, err error) {
	defer func() {
		if r := recover(); r != nil {
			err = fmt.Errorf("panic: %v", r)
		}
	}()
	sdf.VerifSetRand(&src{})
	pg, e := b.Polygon()
	if e != nil {
		return nil, e
	}
	return pg.Vertices(), nil
}

func bezierPart(c *vlib.Ctx) (int64, int64, any) {
	var g3 []v2.Vec
	for x := 0; x < 3; x++ {
		for y := 0; y < 3; y++ {
			g3 = append(g3, v2.Vec{X: float64(x), Y: float64(y)})
		}
	}
	var cps [][]v2.Vec
	var rb func(cur []v2.Vec, deg int)
	rb = func(cur []v2.Vec, deg int) {
		if len(cur) == deg+1 {
			cps = append(cps, append([]v2.Vec{}, cur...))
			return
		}
		for _, p := range g3 {
			rb(append(cur, p), deg)
		}
	}
	for deg := 1; deg <= 4; deg++ {
		rb(nil, deg)
	}
	if c.Thorough() {
		// thorough: also every control polygon of degree 1..3 on the 4x4 grid
		g3 = nil
		for x := 0; x < 4; x++ {
			for y := 0; y < 4; y++ {
				g3 = append(g3, v2.Vec{X: float64(x), Y: float64(y)})
			}
		}
		for deg := 1; deg <= 3; deg++ {
			rb(nil, deg)
		}
	}
	if !c.Thorough() {
		var q [][]v2.Vec // quick: all of degree 1..3 and every 6th of degree 4
		for i, cp := range cps {
			if len(cp) <= 4 || i%6 == 0 {
				q = append(q, cp)
			}
		}
		cps = q
	}
	alts := []float64{0, 0.75, 1 - 1.0/(1<<53)}
	thetas := []float64{0, 30, 90, 135, 180, 270}
	rs := []float64{0.25, 0.5, 1, 1.5, 2, 3}
	const chunk = 64
	nChunks := (len(cps) + chunk - 1) / chunk
	m := c.RunSharded(nChunks+1, func(job int, jb *vlib.Job) {
		report := func(key, what string, desc any) { jb.Violation(key, what, desc) }
		if job == nChunks {
			// spans that are mirror / point symmetric about their middle and touch or cross their chord there (the
			// sampler's flatness test is perturbed by a random answer exactly for these), with every uniform answer
			for _, cp := range [][]v2.Vec{
				{{X: 0, Y: 0}, {X: 1, Y: 32}, {X: 2, Y: -128.0 / 3}, {X: 3, Y: 32}, {X: 4, Y: 0}},
				{{X: 0, Y: 0}, {X: 1, Y: 8}, {X: 2, Y: -8}, {X: 3, Y: 0}},
				{{X: 0, Y: 0}, {X: 1, Y: 3}, {X: 2, Y: -3}, {X: 3, Y: 0}},
				{{X: 0, Y: 1}, {X: 2, Y: 1.5}, {X: 2, Y: 0.5}, {X: 4, Y: 1}},
			} {
				for _, a := range []float64{-1, 0, 0.1, 0.5, 0.75, 0.9, 1 - 1.0/(1<<53)} {
					d := dev{}
					if a >= 0 {
						for k := 0; k < 4096; k++ {
							d[k] = a
						}
					}
					checkBez(report, cp, false, d)
					jb.States++
					jb.Transitions++
				}
			}
			// a middle vertex with Handle(theta, fwd, rev) of different lengths: two cubic spans whose inner control
			// points are vertex + fwd along theta (outgoing) and vertex - rev along theta (incoming)
			for _, th := range []float64{0, 40, 135, 250} {
				for _, fr := range [][2]float64{{1, 1}, {2, 0.5}, {0.25, 1.5}, {3, 1}} {
					p0, pm, p3 := v2.Vec{}, v2.Vec{X: 3, Y: 1}, v2.Vec{X: 6, Y: -0.5}
					a := th * math.Pi / 180
					dir := v2.Vec{X: math.Cos(a), Y: math.Sin(a)}
					sdf.VerifSetRand(&src{})
					b := sdf.NewBezier()
					b.AddV2(p0).HandleFwd(math.Pi/3, 1)
					b.AddV2(pm).Handle(a, fr[0], fr[1])
					b.AddV2(p3).HandleRev(2*math.Pi/3, 1)
					pg, err := b.Polygon()
					jb.States++
					jb.Transitions++
					desc := map[string]any{"theta_deg": th, "fwd": fr[0], "rev": fr[1]}
					if err != nil {
						report("Bezier.Handle|error", fmt.Sprint(err), desc)
						continue
					}
					span1 := []v2.Vec{p0, add(p0, v2.Vec{X: math.Cos(math.Pi / 3), Y: math.Sin(math.Pi / 3)}), sub(pm, mul(dir, fr[1])), pm}
					span2 := []v2.Vec{pm, add(pm, mul(dir, fr[0])), add(p3, v2.Vec{X: math.Cos(2 * math.Pi / 3), Y: math.Sin(2 * math.Pi / 3)}), p3}
					for i, q := range pg.Vertices() {
						_, d1 := paramOf(span1, q, 0)
						_, d2 := paramOf(span2, q, 0)
						if math.Min(d1, d2) > 1e-9 {
							report("Bezier.Handle|vertex-not-on-curve-defined-by-handles", fmt.Sprintf("middle vertex Handle(%g deg, fwd %g, rev %g): vertex %d = %v is %g from both cubic spans", th, fr[0], fr[1], i, q, math.Min(d1, d2)), desc)
							break
						}
					}
				}
			}
			// a handle of length zero is no handle, whatever its angle (Handle(theta, fwd, 0) is the usual spelling of a
			// one-sided handle): the span next to it has one control point fewer
			for _, th := range []float64{0, 40, 135, 250} {
				for _, form := range []string{"Handle(theta,fwd,0)", "Handle(theta,0,rev)", "HandleRev(theta,0)", "HandleFwd(theta,0)", "last:Handle(theta,0,rev)"} {
					p0, pm, p3 := v2.Vec{}, v2.Vec{X: 3, Y: 1}, v2.Vec{X: 6, Y: -0.5}
					a := th * math.Pi / 180
					dir := v2.Vec{X: math.Cos(a), Y: math.Sin(a)}
					h0 := add(p0, v2.Vec{X: math.Cos(math.Pi / 3), Y: math.Sin(math.Pi / 3)})
					h3 := add(p3, v2.Vec{X: math.Cos(2 * math.Pi / 3), Y: math.Sin(2 * math.Pi / 3)})
					sdf.VerifSetRand(&src{})
					b := sdf.NewBezier()
					var span1, span2 []v2.Vec
					switch form {
					case "Handle(theta,fwd,0)":
						b.AddV2(p0).HandleFwd(math.Pi/3, 1)
						b.AddV2(pm).Handle(a, 1.5, 0)
						b.AddV2(p3).HandleRev(2*math.Pi/3, 1)
						span1, span2 = []v2.Vec{p0, h0, pm}, []v2.Vec{pm, add(pm, mul(dir, 1.5)), h3, p3}
					case "Handle(theta,0,rev)":
						b.AddV2(p0).HandleFwd(math.Pi/3, 1)
						b.AddV2(pm).Handle(a, 0, 1.5)
						b.AddV2(p3).HandleRev(2*math.Pi/3, 1)
						span1, span2 = []v2.Vec{p0, h0, sub(pm, mul(dir, 1.5)), pm}, []v2.Vec{pm, h3, p3}
					case "HandleRev(theta,0)":
						b.AddV2(p0).HandleFwd(math.Pi/3, 1)
						b.AddV2(pm).HandleRev(a, 0)
						span1, span2 = []v2.Vec{p0, h0, pm}, []v2.Vec{p0, h0, pm}
					case "HandleFwd(theta,0)":
						b.AddV2(p0).HandleFwd(a, 0)
						b.AddV2(pm).HandleRev(a+math.Pi/2, 1)
						span1 = []v2.Vec{p0, add(pm, v2.Vec{X: math.Cos(a + math.Pi/2), Y: math.Sin(a + math.Pi/2)}), pm}
						span2 = span1
					case "last:Handle(theta,0,rev)":
						b.AddV2(p0).HandleFwd(math.Pi/3, 1)
						b.AddV2(pm).Handle(a, 0, 1.5)
						span1 = []v2.Vec{p0, h0, sub(pm, mul(dir, 1.5)), pm}
						span2 = span1
					}
					pg, err := b.Polygon()
					jb.States++
					jb.Transitions++
					desc := map[string]any{"theta_deg": th, "form": form}
					if err != nil {
						report("Bezier.Handle|zero-length-handle|error", fmt.Sprintf("%s at %g deg: %v", form, th, err), desc)
						continue
					}
					for i, q := range pg.Vertices() {
						_, d1 := paramOf(span1, q, 0)
						_, d2 := paramOf(span2, q, 0)
						if math.Min(d1, d2) > 1e-9 {
							report("Bezier.Handle|zero-length-handle|vertex-not-on-curve-defined-by-handles", fmt.Sprintf("%s at %g deg: vertex %d = %v is %g from the spans the non-zero handles define", form, th, i, q, math.Min(d1, d2)), desc)
							break
						}
					}
				}
			}
			// handle specifications: end points with forward / reverse handles => cubic control points
			for _, t1 := range thetas {
				for _, r1 := range rs {
					for _, t2 := range thetas {
						for _, r2 := range rs[:3] {
							p0, p3 := v2.Vec{X: 0, Y: 0}, v2.Vec{X: 2, Y: 0.5}
							a1, a2 := t1*math.Pi/180, t2*math.Pi/180
							cp := []v2.Vec{p0, add(p0, v2.Vec{X: r1 * math.Cos(a1), Y: r1 * math.Sin(a1)}), add(p3, v2.Vec{X: r2 * math.Cos(a2), Y: r2 * math.Sin(a2)}), p3}
							sdf.VerifSetRand(&src{})
							b := sdf.NewBezier()
							b.AddV2(p0).HandleFwd(a1, r1)
							b.AddV2(p3).HandleRev(a2, r2)
							pg, err := b.Polygon()
							var vs []v2.Vec
							if err == nil {
								vs = pg.Vertices()
							}
							jb.States++
							jb.Transitions++
							desc := map[string]any{"handles_theta_r": []float64{t1, r1, t2, r2}, "equivalent_control_points": cp}
							if err != nil || len(vs) < 2 || !near(vs[0], p0, 1e-12) || !near(vs[len(vs)-1], p3, 1e-12) {
								report("Bezier.Handle|ends", fmt.Sprintf("handles %v: err %v vertices %v", desc["handles_theta_r"], err, vs), desc)
								continue
							}
							if vs2, err2 := polygonAgain(b); err2 != nil || len(vs2) != len(vs) {
								report("Bezier.Handle|second-call-on-the-same-curve-differs", fmt.Sprintf("handles %v: Polygon() called twice on one Bezier value: second call: %v, %d vertices (first: %d)", desc["handles_theta_r"], err2, len(vs2), len(vs)), desc)
							} else {
								for i, q := range vs2 {
									if q != vs[i] {
										report("Bezier.Handle|second-call-on-the-same-curve-differs", fmt.Sprintf("handles %v: vertex %d is %v on the first call and %v on the second", desc["handles_theta_r"], i, vs[i], q), desc)
										break
									}
								}
							}
							for i, q := range vs {
								if _, d := paramOf(cp, q, 0); d > 1e-9 {
									report("Bezier.Handle|vertex-not-on-curve-defined-by-handles", fmt.Sprintf("handles %v: vertex %d = %v is %g from the cubic %v", desc["handles_theta_r"], i, q, d, cp), desc)
									break
								}
							}
						}
					}
				}
			}
			return
		}
		for i := job * chunk; i < (job+1)*chunk && i < len(cps); i++ {
			cp := cps[i]
			jb.States++
			if len(cp) <= 4 {
				checkTrailingMid(report, cp)
				jb.Transitions++
			}
			for _, closed := range []bool{false, true} {
				calls := checkBez(report, cp, closed, nil)
				jb.Transitions++
				if len(cp) <= 4 && i%3 == 0 {
					// deviations of the random answers: every single call position (first 12), and pairs
					// among the first 4
					for k := 0; k < calls && k < 12; k++ {
						for _, a := range alts {
							checkBez(report, cp, closed, dev{k: a})
							jb.Transitions++
						}
					}
					for k := 0; k < calls && k < 4; k++ {
						for l := k + 1; l < calls && l < 4; l++ {
							checkBez(report, cp, closed, dev{k: alts[0], l: alts[2]})
							jb.Transitions++
						}
					}
				}
			}
		}
	})
	return m.States, m.Transitions, map[string]any{"bezier_control_polygons": len(cps), "open_and_closed": true,
		"random_answer_menu": "default 1/4; deviations 0, 3/4, 1-2^-53 at every call position (single) and pairs among the first 4", "handle_specs": len(thetas) * len(rs) * len(thetas) * 3}
}
