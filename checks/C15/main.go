// C15 — 3MF, DXF and SVG exports contain exactly the supplied geometry.
// Engine E: all lists of length 0..3 over an 8-element triangle / segment menu (shared vertices, exact
// duplicates, slivers below the de-duplication grid, negative, tiny and large magnitudes, drawings that
// do not contain the origin), through the streaming (To3MF/ToDXF/ToSVG with a scripted renderer) and
// the batch (SaveDXF/SaveSVG) paths, read back with independent readers.
package main

import (
	"encoding/xml"
	"fmt"
	"math"
	"os"
	"path/filepath"
	"strconv"
	"strings"
	"sync"
	"sync/atomic"

	"github.com/deadsy/sdfx/render"
	"github.com/deadsy/sdfx/sdf"
	v2 "github.com/deadsy/sdfx/vec/v2"
	v3 "github.com/deadsy/sdfx/vec/v3"
	"github.com/hpinc/go3mf"
	"github.com/yofu/dxf"
	"github.com/yofu/dxf/entity"

	"verif/lib/vlib"
)

var work = filepath.Join(vlib.VerifDir, ".work", "c15")

var dxfMu sync.Mutex

// scripted renderers: one item per Write unless a chunk pattern is given (the pattern is repeated until the
// list is exhausted; chunks of the size of the internal buffers and larger exercise the writers' batching)
type scripted3 struct {
	ts     []*sdf.Triangle3
	chunks []int
}

func (s scripted3) Render(_ sdf.SDF3, out sdf.Triangle3Writer) {
	for i, k := 0, 0; i < len(s.ts); k++ {
		n := 1
		if len(s.chunks) > 0 {
			n = s.chunks[k%len(s.chunks)]
		}
		if n < 0 { // Close() used as a flush in the middle of the stream
			out.Close()
			continue
		}
		if i+n > len(s.ts) {
			n = len(s.ts) - i
		}
		out.Write(s.ts[i : i+n])
		i += n
	}
	out.Close()
}
func (s scripted3) Info(sdf.SDF3) string { return "scripted" }

type scripted2 struct {
	ls     []*sdf.Line2
	chunks []int
}

func (s scripted2) Render(_ sdf.SDF2, out sdf.Line2Writer) {
	for i, k := 0, 0; i < len(s.ls); k++ {
		n := 1
		if len(s.chunks) > 0 {
			n = s.chunks[k%len(s.chunks)]
		}
		if n < 0 { // Close() used as a flush in the middle of the stream
			out.Close()
			continue
		}
		if i+n > len(s.ls) {
			n = len(s.ls) - i
		}
		out.Write(s.ls[i : i+n])
		i += n
	}
	out.Close()
}

// chunk patterns for the long lists (buffer thresholds: 256 triangles, 128 segments)
var chunkPatterns = [][]int{{3, 130, 2}, {1, 128, 131}, {127, 2, 271}, {129, 129}, {256, 1, 3}, {3, 260, 127}, {5, 0, 300}, {600}, {60, -1}, {7, -1, 130, -1, 1}}

func (s scripted2) Info(sdf.SDF2) string { return "scripted" }

type dummy3 struct{}

func (dummy3) Evaluate(v3.Vec) float64 { return 1 }
func (dummy3) BoundingBox() sdf.Box3   { return sdf.Box3{Max: v3.Vec{X: 1, Y: 1, Z: 1}} }

type dummy2 struct{}

func (dummy2) Evaluate(v2.Vec) float64 { return 1 }
func (dummy2) BoundingBox() sdf.Box2   { return sdf.Box2{Max: v2.Vec{X: 1, Y: 1}} }

// round4f32 is what a 3MF file can hold: float32 of the input printed with four decimals.
func round4f32(x float64) float32 {
	s := strconv.FormatFloat(float64(float32(x)), 'f', 4, 32)
	f, _ := strconv.ParseFloat(s, 32)
	return float32(f)
}

func lists[T any](menu []T, maxLen int) [][]T {
	out := [][]T{{}}
	var rec func(cur []T)
	rec = func(cur []T) {
		if len(cur) > 0 {
			out = append(out, append([]T{}, cur...))
		}
		if len(cur) == maxLen {
			return
		}
		for _, m := range menu {
			rec(append(cur, m))
		}
	}
	rec(nil)
	return out
}

type svgDoc struct {
	Width  string `xml:"width,attr"`
	Height string `xml:"height,attr"`
	Lines  []struct {
		X1 float64 `xml:"x1,attr"`
		Y1 float64 `xml:"y1,attr"`
		X2 float64 `xml:"x2,attr"`
		Y2 float64 `xml:"y2,attr"`
	} `xml:"line"`
}

func r2(x float64) float64 {
	f, _ := strconv.ParseFloat(strconv.FormatFloat(x, 'f', 2, 64), 64)
	return f
}

func main() {
	c := vlib.Start("C15")
	os.MkdirAll(work, 0o755)
	var states, trans int64
	samples := []any{}

	// ---------------- 3MF ----------------
	T := func(a, b, d v3.Vec) *sdf.Triangle3 { return &sdf.Triangle3{a, b, d} }
	p := func(x, y, z float64) v3.Vec { return v3.Vec{X: x, Y: y, Z: z} }
	menu3 := []*sdf.Triangle3{
		T(p(0, 0, 0), p(1, 0, 0), p(0, 1, 0)),
		T(p(1, 0, 0), p(0, 1, 0), p(0, 0, 1)),                                // shares two vertices with the first
		T(p(0, 0, 0), p(1, 0, 0), p(0, 1, 0)),                                // exact duplicate of the first
		T(p(-1.5, -2.25, -3), p(-1, -1, -1), p(-0.00001, 12345.678912, 0.1)), // negative, tiny, large
		T(p(0.12344, 0.12346, 0.5), p(0.33333333, 2.0/3, 16777217), p(5, 5, 5)),
		T(p(0.00007, 1, 1), p(1, -0.00008, 2), p(3, 1, 0.00005001)),                                    // between half a unit and one unit of the fourth decimal
		T(p(2, 2, 2), p(2+5e-7, 2, 2), p(2, 3, 2)),                                                     // sliver: two corners closer than 1e-6
		T(p(1e-5, 0, 0), p(0, 1e-5, 0), p(0, 0, 1e-5)),                                                 // tiny but non-degenerate
		T(p(0, 1, 0), p(1, 0, 0), p(0, 0, 0)),                                                          // the first one with reversed winding
		T(p(1, 2, 3), p(1, 2, 3), p(4, 5, 6)),                                                          // two identical corners: still one triangle of the list
		T(p(math.Copysign(0, -1), 0, 0), p(1, math.Copysign(0, -1), 0), p(0, 1, math.Copysign(0, -1))), // the first triangle with negative zeros: the same three positions
		T(p(7, 5000, 0), p(7, 5001, 0), p(7, 5000, 3)),                                                 // a part more than 2147.48 units from the origin (beyond int32 micro-units)
		T(p(-3000, -3000, -3000), p(-3001, -3000, -3000), p(-3000, -3002, -3000)),
	}
	l3 := lists(menu3, vlib.Pick(c, 3, 5))
	// corners that differ as float64 and are one float32 (round 8): 0.3 and 0.1+0.2, 1e6 and 1e6+1e-9, 0 and 1e-50 -
	// de-duplication is on the converted value, so they share a vertex, within one triangle and across triangles
	l3 = append(l3,
		[]*sdf.Triangle3{T(p(0.3, 7, 0), p(0.1+0.2, 7, 1e-50), p(0.3, 8, 0))},
		[]*sdf.Triangle3{T(p(0.3, 0, 0), p(1, 0, 0), p(0, 1, 0)), T(p(0.1+0.2, 0, 0), p(0, 1, 0), p(0, 0, 1))},
		[]*sdf.Triangle3{T(p(0, 0, 0), p(1, 0, 0), p(0, 1, 0)), T(p(1+1e-12, 1e-50, 0), p(0, 1, 0), p(0, 0, 1)), T(p(1e6, 0, 0), p(1e6+1e-9, 1, 0), p(1e6+1e-9, 0, 0))})
	chunk3 := map[int][]int{}
	for pi, pat := range chunkPatterns {
		for _, n := range []int{135, 390, 700, 1025, 2100, 4200} { // the long ones (round 9): beyond 1024, 2048 and 4096 items in one file
			var ts []*sdf.Triangle3
			for k := 0; k < n; k++ {
				f := float64(k)
				// every triangle shares the apex (0, -7, 9) with all the others, and its first corner with its predecessor's second
				ts = append(ts, T(p(f, 0, 0), p(f+1, 0, 0), p(0, -7, 9+float64(pi))))
			}
			chunk3[len(l3)] = pat
			l3 = append(l3, ts)
		}
	}
	states += c.ParFor(len(l3), func(i int) {
		ts := l3[i]
		path := filepath.Join(work, fmt.Sprintf("m.%d.3mf", i))
		defer os.Remove(path)
		render.To3MF(dummy3{}, path, scripted3{ts, chunk3[i]})
		desc := map[string]any{"format": "3mf", "list_index": i, "triangles": ts, "write_chunks": chunk3[i]}
		r, err := go3mf.OpenReader(path)
		if err != nil {
			c.Violation("3mf|unreadable", fmt.Sprintf("3MF written for %d triangles cannot be opened: %v", len(ts), err), desc)
			return
		}
		defer r.Close()
		var m go3mf.Model
		if err := r.Decode(&m); err != nil {
			c.Violation("3mf|unreadable", fmt.Sprintf("3MF written for %d triangles does not decode: %v", len(ts), err), desc)
			return
		}
		if m.Units != go3mf.UnitMillimeter {
			c.Violation("3mf|unit-not-millimetre", fmt.Sprintf("unit %v", m.Units), desc)
		}
		if len(m.Resources.Objects) != 1 || m.Resources.Objects[0].Mesh == nil {
			c.Violation("3mf|not-exactly-one-mesh-object", fmt.Sprintf("%d objects", len(m.Resources.Objects)), desc)
			return
		}
		if len(m.Build.Items) != 1 {
			c.Violation("3mf|not-exactly-one-build-item", fmt.Sprintf("%d build items", len(m.Build.Items)), desc)
		}
		mesh := m.Resources.Objects[0].Mesh
		if len(mesh.Triangles.Triangle) != len(ts) {
			c.Violation("3mf|triangle-count", fmt.Sprintf("file has %d triangles, %d were written", len(mesh.Triangles.Triangle), len(ts)), desc)
			return
		}
		vs := mesh.Vertices.Vertex
		for k, t := range ts {
			ft := mesh.Triangles.Triangle[k]
			idx := [3]uint32{ft.V1, ft.V2, ft.V3}
			for q := 0; q < 3; q++ {
				if int(idx[q]) >= len(vs) {
					c.Violation("3mf|vertex-index-out-of-range", fmt.Sprintf("triangle %d corner %d index %d of %d", k, q, idx[q], len(vs)), desc)
					return
				}
				g := vs[idx[q]]
				w := [3]float32{round4f32(t[q].X), round4f32(t[q].Y), round4f32(t[q].Z)}
				x32 := [3]float32{float32(t[q].X), float32(t[q].Y), float32(t[q].Z)}
				for a := 0; a < 3; a++ {
					// the file holds four decimals of the float32 input: at most half a unit of the fourth decimal
					// away from it, plus the 1e-6 grid on which corners may have been merged
					if math.Abs(float64(g[a])-float64(x32[a])) > 5e-5+2e-6+math.Abs(float64(x32[a]))*1e-7 {
						c.Violation("3mf|vertex-value-or-winding", fmt.Sprintf("triangle %d corner %d is %v in the file, input %v (expected %v)", k, q, g, t[q], w), desc)
						return
					}
				}
				atomic.AddInt64(&trans, 1)
			}
		}
		// de-duplication (it happens on the float32 value, before the four-decimal printing): corners
		// with identical float32 coordinates share one vertex, and the file holds no more vertices than
		// there are distinct float32 corners
		byVal := map[[3]float32]uint32{}
		for k, t := range ts {
			ft := mesh.Triangles.Triangle[k]
			idx := [3]uint32{ft.V1, ft.V2, ft.V3}
			for q := 0; q < 3; q++ {
				key := [3]float32{float32(t[q].X), float32(t[q].Y), float32(t[q].Z)}
				if prev, ok := byVal[key]; ok && prev != idx[q] {
					c.Violation("3mf|identical-corners-not-de-duplicated", fmt.Sprintf("corner %v is stored as vertex %d and as vertex %d", key, prev, idx[q]), desc)
					return
				}
				byVal[key] = idx[q]
			}
		}
		if len(vs) > len(byVal) {
			c.Violation("3mf|more-vertices-than-distinct-corners", fmt.Sprintf("%d vertices in the file, %d distinct corners", len(vs), len(byVal)), desc)
		}
	})
	samples = append(samples, map[string]any{"format": "3mf", "lists": len(l3), "menu": menu3})

	// ---------------- DXF / SVG ----------------
	L := func(x0, y0, x1, y1 float64) *sdf.Line2 { return &sdf.Line2{{X: x0, Y: y0}, {X: x1, Y: y1}} }
	menu2 := []*sdf.Line2{
		L(0, 0, 1, 0), L(1, 0, 1, 1), L(0, 0, 1, 0), // shared end point, exact duplicate
		L(-1.5, -2.25, -0.00001, 12345.678912),
		L(3.005, 4.015, 5.125, 6.135), // rounds differently at 2 decimals
		L(10, 20, 11, 21),             // far from the origin (with the next one: drawings not containing it)
		L(12.5, 22.5, 10.25, 20.75),
		L(-7, -3, -9, -5),
		L(2, 3, 2, 3),                  // degenerate: still one LINE / one <line>
		L(4, 1, 4+5e-10, 1+5e-10),      // shorter than 1e-9
		L(1e-10, 2e-10, 3e-10, -1e-10), // a drawing at 1e-10 scale
	}
	l2 := lists(menu2, vlib.Pick(c, 3, 5))
	// drawings whose extent is enormous against their detail (round 8): the flipped Y of a point near the top edge
	// is a small number and must come out at two decimals, however far away the minimum corner is
	l2 = append(l2,
		[]*sdf.Line2{L(0, -1e15, 1, 0.3), L(0.25, 0.1, 0.5, 0.2)},
		[]*sdf.Line2{L(0.25, 0.1, 0.5, 0.2), L(0, -3e13, 1, 0.3), L(0.75, 0.3, 0.125, 0.05)},
		[]*sdf.Line2{L(-1e13, 0, 0.5, 0.25), L(0.125, 0.1, 0.25, 0.3)},
		[]*sdf.Line2{L(0, 0, 1e15, 1e15), L(1e15-0.5, 1e15-0.25, 1e15, 1e15-1)})
	chunk2 := map[int][]int{}
	for pi, pat := range chunkPatterns {
		for _, n := range []int{135, 390, 700, 1025, 2100, 4200} { // the long ones (round 9): beyond 1024, 2048 and 4096 items in one file
			var ls []*sdf.Line2
			for k := 0; k < n; k++ {
				f := float64(k)
				ls = append(ls, L(f, float64(pi), f+0.5, 1+float64(k%3)))
			}
			chunk2[len(l2)] = pat
			l2 = append(l2, ls)
		}
	}
	states += c.ParFor(len(l2)*2, func(i int) {
		ls := l2[i/2]
		batch := i%2 == 1
		desc := map[string]any{"list_index": i / 2, "batch_writer": batch, "segments": ls, "write_chunks": chunk2[i/2]}
		// DXF
		dp := filepath.Join(work, fmt.Sprintf("d.%d.dxf", i))
		defer os.Remove(dp)
		// the dxf package keeps process-global default objects: writing and reading are serialised by the
		// harness (concurrent DXF renders are C09's subject, not this check's)
		dxfMu.Lock()
		if batch {
			if err := render.SaveDXF(dp, ls); err != nil {
				dxfMu.Unlock()
				c.Violation("dxf|SaveDXF-error", err.Error(), desc)
				return
			}
		} else {
			render.ToDXF(dummy2{}, dp, scripted2{ls, chunk2[i/2]})
		}
		d, err := dxf.FromFile(dp)
		dxfMu.Unlock()
		if err != nil {
			c.Violation("dxf|unreadable", fmt.Sprintf("DXF written for %d segments cannot be read: %v", len(ls), err), desc)
			return
		}
		var got []*entity.Line
		for _, e := range d.Entities() {
			if ln, ok := e.(*entity.Line); ok {
				got = append(got, ln)
			} else {
				c.Violation("dxf|foreign-entity", fmt.Sprintf("entity %T in the file", e), desc)
			}
		}
		if len(got) != len(ls) {
			c.Violation("dxf|line-count", fmt.Sprintf("file has %d LINE entities, %d segments were written", len(got), len(ls)), desc)
			return
		}
		for k, l := range ls {
			g := got[k]
			if g.Layer() == nil || g.Layer().Name() != "Lines" {
				c.Violation("dxf|layer", fmt.Sprintf("LINE %d is not on layer Lines", k), desc)
				return
			}
			w := []float64{l[0].X, l[0].Y, 0, l[1].X, l[1].Y, 0}
			gg := append(append([]float64{}, g.Start...), g.End...)
			for a := range w {
				if a >= len(gg) || math.Abs(gg[a]-w[a]) > 5.0000001e-7 {
					c.Violation("dxf|coordinates-or-order", fmt.Sprintf("LINE %d is %v-%v, segment %v", k, g.Start, g.End, *l), desc)
					return
				}
			}
			atomic.AddInt64(&trans, 1)
		}
		// SVG
		sp := filepath.Join(work, fmt.Sprintf("s.%d.svg", i))
		defer os.Remove(sp)
		if batch {
			if err := render.SaveSVG(sp, "fill:none;stroke:black;stroke-width:0.1", ls); err != nil {
				c.Violation("svg|SaveSVG-error", err.Error(), desc)
				return
			}
		} else {
			render.ToSVG(dummy2{}, sp, scripted2{ls, chunk2[i/2]})
		}
		b, err := os.ReadFile(sp)
		if err != nil {
			c.Violation("svg|no-file", err.Error(), desc)
			return
		}
		var doc svgDoc
		if err := xml.Unmarshal(b, &doc); err != nil {
			c.Violation("svg|not-well-formed-xml", err.Error(), desc)
			return
		}
		if len(doc.Lines) != len(ls) {
			c.Violation("svg|line-count", fmt.Sprintf("file has %d <line> elements, %d segments were written", len(doc.Lines), len(ls)), desc)
			return
		}
		if len(ls) == 0 {
			return
		}
		mn, mx := ls[0][0], ls[0][0]
		for _, l := range ls {
			for _, q := range l {
				mn.X, mn.Y = math.Min(mn.X, q.X), math.Min(mn.Y, q.Y)
				mx.X, mx.Y = math.Max(mx.X, q.X), math.Max(mx.Y, q.Y)
			}
		}
		class := "drawing-contains-origin"
		if mn.X > 0 || mn.Y > 0 || mx.X < 0 || mx.Y < 0 {
			class = "drawing-does-not-contain-origin"
		}
		var wv, hv float64
		fmt.Sscanf(doc.Width, "%f", &wv)
		fmt.Sscanf(doc.Height, "%f", &hv)
		if math.Abs(wv-(mx.X-mn.X)) > 0.0050001+1e-15*(mx.X-mn.X) || math.Abs(hv-(mx.Y-mn.Y)) > 0.0050001+1e-15*(mx.Y-mn.Y) {
			c.Violation("svg|canvas-not-extent|"+class, fmt.Sprintf("canvas %s x %s, drawing extent %g x %g", doc.Width, doc.Height, mx.X-mn.X, mx.Y-mn.Y), desc)
			return
		}
		for k, l := range ls {
			g := doc.Lines[k]
			w := [4]float64{l[0].X - mn.X, mx.Y - l[0].Y, l[1].X - mn.X, mx.Y - l[1].Y}
			gg := [4]float64{g.X1, g.Y1, g.X2, g.Y2}
			for a := range w {
				// half a unit of the second decimal plus one unit in the last place of the expected number
				if math.Abs(gg[a]-w[a]) > 0.0050001+(math.Nextafter(math.Abs(w[a]), math.Inf(1))-math.Abs(w[a])) {
					c.Violation("svg|line-coordinates|"+class, fmt.Sprintf("<line> %d is %v, expected %v (origin shift to the minimum corner, y flipped)", k, gg, w), desc)
					return
				}
			}
			atomic.AddInt64(&trans, 1)
		}
	})
	// ---------------- a longer file on the same path first (every writer must truncate) ----------------
	{
		var longT, shortT []*sdf.Triangle3
		var longL, shortL []*sdf.Line2
		for k := 0; k < 135; k++ {
			f := float64(k)
			longT = append(longT, T(p(f, 0, 0), p(f+0.5, 1, 0), p(f, 0, 1)))
			longL = append(longL, L(f, 0, f+0.5, 1))
		}
		shortT, shortL = longT[:2], longL[:2]
		hp := filepath.Join(work, "history")
		type hw struct {
			name  string
			write func(long bool) error
			count func() (int, error)
		}
		for _, h := range []hw{
			{"3mf|To3MF", func(long bool) error {
				if long {
					render.To3MF(dummy3{}, hp+".3mf", scripted3{longT, nil})
				} else {
					render.To3MF(dummy3{}, hp+".3mf", scripted3{shortT, nil})
				}
				return nil
			}, func() (int, error) {
				r, err := go3mf.OpenReader(hp + ".3mf")
				if err != nil {
					return 0, err
				}
				defer r.Close()
				var m go3mf.Model
				if err := r.Decode(&m); err != nil {
					return 0, err
				}
				n := 0
				for _, o := range m.Resources.Objects {
					if o.Mesh != nil {
						n += len(o.Mesh.Triangles.Triangle)
					}
				}
				return n, nil
			}},
			{"dxf|ToDXF", func(long bool) error {
				if long {
					render.ToDXF(dummy2{}, hp+".dxf", scripted2{longL, nil})
				} else {
					render.ToDXF(dummy2{}, hp+".dxf", scripted2{shortL, nil})
				}
				return nil
			}, nil},
			{"dxf|SaveDXF", func(long bool) error {
				if long {
					return render.SaveDXF(hp+".dxf", longL)
				}
				return render.SaveDXF(hp+".dxf", shortL)
			}, nil},
			{"svg|ToSVG", func(long bool) error {
				if long {
					render.ToSVG(dummy2{}, hp+".svg", scripted2{longL, nil})
				} else {
					render.ToSVG(dummy2{}, hp+".svg", scripted2{shortL, nil})
				}
				return nil
			}, nil},
			{"svg|SaveSVG", func(long bool) error {
				if long {
					return render.SaveSVG(hp+".svg", "fill:none;stroke:black;stroke-width:0.1", longL)
				}
				return render.SaveSVG(hp+".svg", "fill:none;stroke:black;stroke-width:0.1", shortL)
			}, nil},
		} {
			os.Remove(hp + ".3mf")
			os.Remove(hp + ".dxf")
			os.Remove(hp + ".svg")
			states++
			dxfMu.Lock()
			e1, e2 := h.write(true), h.write(false)
			dxfMu.Unlock()
			desc := map[string]any{"writer": h.name, "history": "135 items, then 2 items, to the same path"}
			if e1 != nil || e2 != nil {
				c.Violation(h.name+"|history-on-one-path|error", fmt.Sprint(e1, e2), desc)
				continue
			}
			n, err := 0, error(nil)
			switch {
			case h.count != nil:
				n, err = h.count()
			case strings.HasPrefix(h.name, "dxf"):
				dxfMu.Lock()
				d, e := dxf.FromFile(hp + ".dxf")
				dxfMu.Unlock()
				err = e
				if e == nil {
					n = len(d.Entities())
				}
			default:
				b, e := os.ReadFile(hp + ".svg")
				err = e
				var doc svgDoc
				if e == nil {
					if e2 := xml.Unmarshal(b, &doc); e2 != nil {
						err = e2
					}
					if extra := strings.Count(string(b), "</svg>"); extra != 1 && err == nil {
						err = fmt.Errorf("%d closing </svg> tags in the file", extra)
					}
					n = len(doc.Lines)
				}
			}
			trans++
			if err != nil {
				c.Violation(h.name+"|history-on-one-path|unreadable-or-malformed", fmt.Sprintf("after writing 135 items and then 2 items to the same path: %v", err), desc)
			} else if n != 2 {
				c.Violation(h.name+"|history-on-one-path|item-count", fmt.Sprintf("after writing 135 items and then 2 items to the same path the file holds %d", n), desc)
			}
		}
	}
	// ---- the drawing objects themselves (NewDXF / NewSVG): histories of their methods
	type dop struct {
		name  string
		do    func(d *render.DXF)
		lines []*sdf.Line2
		circ  int
	}
	tri2 := sdf.Triangle2{{X: 0, Y: 0}, {X: 3, Y: 0}, {X: 1, Y: 2}}
	box2 := sdf.Box2{Min: v2.Vec{X: -1, Y: -2}, Max: v2.Vec{X: 4, Y: 5}}
	dops := []dop{
		{"Line", func(d *render.DXF) { d.Line(L(0, 0, 1, 0)) }, []*sdf.Line2{L(0, 0, 1, 0)}, 0},
		{"Lines", func(d *render.DXF) { d.Lines([]*sdf.Line2{L(1, 0, 1, 1), L(10, 20, 11, 21)}) }, []*sdf.Line2{L(1, 0, 1, 1), L(10, 20, 11, 21)}, 0},
		{"Points", func(d *render.DXF) { d.Points(v2.VecSet{{X: 1, Y: 1}, {X: 2, Y: 3}}, 0.25) }, nil, 2},
		{"Triangle", func(d *render.DXF) { d.Triangle(tri2) }, []*sdf.Line2{L(0, 0, 3, 0), L(3, 0, 1, 2), L(1, 2, 0, 0)}, 0},
		{"Box", func(d *render.DXF) { b := box2; d.Box(&b) }, []*sdf.Line2{L(-1, -2, 4, -2), L(4, -2, 4, 5), L(4, 5, -1, 5), L(-1, 5, -1, -2)}, 0},
	}
	opSeqs := lists([]int{0, 1, 2, 3, 4}, vlib.Pick(c, 3, 5))
	states += c.ParFor(len(opSeqs), func(i int) {
		seq := opSeqs[i]
		var names []string
		var want []*sdf.Line2
		circ := 0
		dp := filepath.Join(work, fmt.Sprintf("o.%d.dxf", i))
		defer os.Remove(dp)
		dxfMu.Lock()
		d := render.NewDXF(dp)
		for _, o := range seq {
			dops[o].do(d)
			names = append(names, dops[o].name)
			want = append(want, dops[o].lines...)
			circ += dops[o].circ
		}
		err := d.Save()
		var back interface{ Entities() entity.Entities }
		if err == nil {
			back, err = dxf.FromFile(dp)
		}
		dxfMu.Unlock()
		desc := map[string]any{"api": "render.NewDXF object", "calls": names}
		if err != nil {
			c.Violation("dxf-object|unreadable", fmt.Sprintf("NewDXF; %v; Save: %v", names, err), desc)
			return
		}
		k, nc := 0, 0
		for _, e := range back.Entities() {
			switch g := e.(type) {
			case *entity.Line:
				if k >= len(want) {
					k++
					continue
				}
				if g.Layer() == nil || g.Layer().Name() != "Lines" {
					c.Violation("dxf-object|layer", fmt.Sprintf("NewDXF; %v; Save: LINE %d is not on layer Lines", names, k), desc)
					return
				}
				l := want[k]
				w := []float64{l[0].X, l[0].Y, 0, l[1].X, l[1].Y, 0}
				gg := append(append([]float64{}, g.Start...), g.End...)
				for a := range w {
					if a >= len(gg) || math.Abs(gg[a]-w[a]) > 5.0000001e-7 {
						c.Violation("dxf-object|coordinates-or-order", fmt.Sprintf("NewDXF; %v; Save: LINE %d is %v-%v, segment %v", names, k, g.Start, g.End, *l), desc)
						return
					}
				}
				k++
				atomic.AddInt64(&trans, 1)
			case *entity.Circle:
				nc++
				if g.Layer() == nil || g.Layer().Name() != "Points" {
					c.Violation("dxf-object|layer", fmt.Sprintf("NewDXF; %v; Save: a point marker is not on layer Points", names), desc)
					return
				}
			default:
				c.Violation("dxf-object|foreign-entity", fmt.Sprintf("entity %T in the file", e), desc)
			}
		}
		if k != len(want) || nc != circ {
			c.Violation("dxf-object|entity-count", fmt.Sprintf("NewDXF; %v; Save: %d LINEs and %d circles in the file, %d and %d added", names, k, nc, len(want), circ), desc)
		}
	})
	// SVG object: Save twice, and Line / Save / Line / Save, against a fresh object given the same segments
	var svgLists [][]*sdf.Line2
	for _, ls := range l2 {
		if len(ls) >= 1 && len(ls) <= 3 {
			svgLists = append(svgLists, ls)
		}
	}
	const style = "fill:none;stroke:black;stroke-width:0.1"
	states += c.ParFor(len(svgLists), func(i int) {
		ls := svgLists[i]
		base := filepath.Join(work, fmt.Sprintf("o.%d", i))
		defer os.Remove(base + ".ref.svg")
		defer os.Remove(base + ".svg")
		desc := map[string]any{"api": "render.NewSVG object", "segments": ls}
		if err := render.SaveSVG(base+".ref.svg", style, ls); err != nil {
			c.Violation("svg-object|SaveSVG-error", err.Error(), desc)
			return
		}
		ref, _ := os.ReadFile(base + ".ref.svg")
		for cut := 0; cut <= len(ls); cut++ {
			o := render.NewSVG(base+".svg", style)
			for _, l := range ls[:cut] {
				o.Line(l[0], l[1])
			}
			e1 := o.Save()
			first, _ := os.ReadFile(base + ".svg")
			for _, l := range ls[cut:] {
				o.Line(l[0], l[1])
			}
			e2 := o.Save()
			second, _ := os.ReadFile(base + ".svg")
			atomic.AddInt64(&trans, 1)
			if e1 != nil || e2 != nil {
				c.Violation("svg-object|Save-error", fmt.Sprint(e1, e2), desc)
				return
			}
			if string(second) != string(ref) {
				what := fmt.Sprintf("%d segments, Save, %d more segments, Save", cut, len(ls)-cut)
				if cut == len(ls) {
					what = "all segments, Save, Save"
					_ = first
				}
				c.Violation("svg-object|file-depends-on-earlier-Save", fmt.Sprintf("NewSVG; %s: the file differs from the one a fresh object writes for the same segments", what), desc)
				return
			}
		}
	})
	samples = append(samples, map[string]any{"format": "dxf object api", "call_sequences": len(opSeqs), "calls": []string{"Line", "Lines", "Points", "Triangle", "Box"}}, map[string]any{"format": "svg object api", "lists": len(svgLists), "histories": "k segments, Save, the rest, Save (every k); compared with a fresh object"})
	samples = append(samples, map[string]any{"format": "dxf+svg", "lists": len(l2), "writers": "streaming and batch", "menu": menu2})
	_ = r2
	c.Guard("decoded vertices / lines compared > 5000 (files were written and read back by the independent readers)", trans > 5000, fmt.Sprint(trans))
	c.Finish(vlib.Coverage{
		States: states, Transitions: trans, Evaluations: states, Nontrivial: states - 3,
		Rule:        "states = (list, writer path) pairs written and decoded with go3mf.OpenReader / dxf.FromFile / encoding/xml; transitions = vertices / lines compared; non-trivial = non-empty lists",
		Samples:     samples,
		Exhaustive:  true,
		Bounds:      map[string]any{"menu_size": "8 triangles / 11 segments (incl. a degenerate and two sub-nanometre segments)", "list_length": "0..3 (4 thorough), with repetition, ordered; plus numbered lists of 135 / 390 / 700 items written in 8 chunk patterns around the buffer thresholds (128 segments, 256 triangles)"},
		Assumptions: []string{"3MF vertices are compared with a tolerance of 1.5e-4 (four decimals plus the 1e-6 de-duplication grid of the mesh builder)", "DXF coordinates to the format's six decimals, SVG to its two decimals"},
	})
}
