// C12 — rendering always returns and does not accumulate goroutines.
// Engine S + fault enumeration: every fault plan of the in-memory file system (create failure; a byte
// limit at every flush boundary and at odd offsets; seek failure; failure of the header rewrite; close
// failure) x item counts x renderers, each under every schedule (scripted and single-threaded renderers:
// all interleavings with the writer goroutine; worker-pool renderers: <= 2 preemptions).  "Never returns"
// is decided as deadlock (main not finished, no enabled thread), not by a timeout.  Goroutine
// accumulation is decided by the census of threads still parked after k = 1..4 consecutive renders.
package main

import (
	"fmt"
	"os"
	"path/filepath"
	"strings"

	"github.com/deadsy/sdfx/render"
	"github.com/deadsy/sdfx/sdf"
	v2 "github.com/deadsy/sdfx/vec/v2"
	v3 "github.com/deadsy/sdfx/vec/v3"
	"github.com/deadsy/sdfx/verifrt/vos"
	"github.com/deadsy/sdfx/verifrt/vsync"

	"verif/lib/lattice"
	"verif/lib/vlib"
)

func tri(k int) *sdf.Triangle3 {
	f := float64(k)
	return &sdf.Triangle3{{X: f, Y: 0, Z: 0}, {X: f, Y: 1, Z: 0}, {X: f, Y: 0, Z: 1}}
}

// mixedSizes: write sizes of the "scripted-mixed" renderers (small, large, empty, beyond the flush threshold)
var mixedSizes = []int{1, 3, 10, 60, 2, 0, 130, 1, 300, 4}

type scripted3 struct{ n int }

func (s scripted3) Render(_ sdf.SDF3, out sdf.Triangle3Writer) {
	k := 0
	if s.n < 0 {
		for _, m := range mixedSizes {
			var b []*sdf.Triangle3
			for i := 0; i < m; i++ {
				b = append(b, tri(k))
				k++
			}
			out.Write(b)
		}
		out.Close()
		return
	}
	for k < s.n {
		var b []*sdf.Triangle3
		for i := 0; i < 100 && k < s.n; i++ {
			b = append(b, tri(k))
			k++
		}
		out.Write(b)
	}
	out.Close()
}
func (s scripted3) Info(sdf.SDF3) string { return "scripted" }

type scripted2 struct{ n int }

func (s scripted2) Render(_ sdf.SDF2, out sdf.Line2Writer) {
	if s.n < 0 {
		k := 0
		for _, m := range mixedSizes {
			var b []*sdf.Line2
			for i := 0; i < m; i++ {
				f := float64(k)
				b = append(b, &sdf.Line2{{X: f, Y: 0}, {X: f, Y: 1}})
				k++
			}
			out.Write(b)
		}
		out.Close()
		return
	}
	for k := 0; k < s.n; {
		var b []*sdf.Line2
		for i := 0; i < 50 && k < s.n; i++ {
			f := float64(k)
			b = append(b, &sdf.Line2{{X: f, Y: 0}, {X: f, Y: 1}})
			k++
		}
		out.Write(b)
	}
	out.Close()
}
func (s scripted2) Info(sdf.SDF2) string { return "scripted" }

type dummy3 struct{}

func (dummy3) Evaluate(v3.Vec) float64 { return 1 }
func (dummy3) BoundingBox() sdf.Box3   { return sdf.Box3{Max: v3.Vec{X: 1, Y: 1, Z: 1}} }

type dummy2 struct{}

func (dummy2) Evaluate(v2.Vec) float64 { return 1 }
func (dummy2) BoundingBox() sdf.Box2   { return sdf.Box2{Max: v2.Vec{X: 1, Y: 1}} }

type scen struct {
	Sink     string    `json:"sink"`     // stl, svg, 3mf, dxf, triangles
	Renderer string    `json:"renderer"` // scripted, uniform, octree
	Items    int       `json:"items"`
	Renders  int       `json:"consecutive_renders"`
	Plan     *vos.Plan `json:"fault_plan"`
	Path     string    `json:"path,omitempty"`
	Workers  int       `json:"workers"`
	Bound    int       `json:"bound"`
	Prefix   []int     `json:"schedule_prefix,omitempty"`
	// Then: after the (failing) renders one more render of the same sink follows that has nothing to fail on;
	// it must return too (a failed render must not leave a lock or a worker behind that blocks the next one)
	Then bool `json:"then_a_working_render,omitempty"`
	// Mixed: the consecutive renders alternate between a coarse lattice (one evaluation batch per layer) and a
	// fine one (two batches per layer)
	Mixed bool `json:"alternating_resolutions,omitempty"`
	// Batch: the (failing) first write uses the batch writer of the format (SaveSTL / SaveSVG / SaveDXF)
	Batch bool `json:"first_write_by_the_batch_writer,omitempty"`
	// First: another first step of the history (with Batch): an exported call that fails or is abandoned
	First string `json:"first_step,omitempty"`
}

var work = filepath.Join(vlib.VerifDir, ".work", "c12")

// a small solid on a real lattice for the uniform / octree renderers
var latField sdf.SDF3

func field() sdf.SDF3 {
	if latField == nil {
		bb := sdf.Box3{Min: v3.Vec{X: -1.5, Y: -1.5, Z: -1.5}, Max: v3.Vec{X: 1.5, Y: 1.5, Z: 1.5}}
		s, _ := sdf.Sphere3D(1)
		latField = boxed{s, bb}
	}
	return latField
}

func field2() sdf.SDF2 {
	c, _ := sdf.Circle2D(1)
	return c
}

type boxed struct {
	s  sdf.SDF3
	bb sdf.Box3
}

func (b boxed) Evaluate(p v3.Vec) float64 { return b.s.Evaluate(p) }
func (b boxed) BoundingBox() sdf.Box3     { return b.bb }

var _ = lattice.Collect2

func (sc scen) body() func() {
	return func() {
		vsync.SetNumCPU(sc.Workers)
		for k := 0; k < sc.Renders; k++ {
			p := *sc.Plan
			p.Fired = map[string]int{}
			vos.Reset(&p)
			var r3 render.Render3
			var s3 sdf.SDF3 = dummy3{}
			switch sc.Renderer {
			case "scripted":
				r3 = scripted3{sc.Items}
			case "uniform100":
				r3, s3 = render.NewMarchingCubesUniform(8), field() // 10 x 10 lattice points per layer: exactly one evaluation batch
			case "uniform":
				r3, s3 = render.NewMarchingCubesUniform(1), field()
				if sc.Mixed && k%2 == 1 {
					r3, s3 = render.NewMarchingCubesUniform(10), fineField()
				}
			case "uniform-cached", "octree-cached":
				// an extrusion of a cached profile (round 8): the evaluation workers reach one cache entry from two
				// batches of the same layer (a thin 12x12-point lattice, two batches per layer); a fresh cache per execution
				c2, _ := sdf.Circle2D(1)
				ex := sdf.Extrude3D(sdf.Cache2D(c2), 2)
				s3 = boxed{ex, sdf.Box3{Min: v3.Vec{X: -0.15, Y: -1.5, Z: -1.5}, Max: v3.Vec{X: 0.15, Y: 1.5, Z: 1.5}}}
				r3 = render.NewMarchingCubesUniform(10)
				if sc.Renderer == "octree-cached" {
					r3 = render.NewMarchingCubesOctree(4)
				}
			case "octree":
				r3, s3 = render.NewMarchingCubesOctree(2), field()
			case "octree1":
				r3, s3 = render.NewMarchingCubesOctree(1), field()
			case "octree-nothing": // no surface in the box: the buffer is empty when the render closes it
				r3 = render.NewMarchingCubesOctree(2)
			case "uniform-nothing":
				r3 = render.NewMarchingCubesUniform(2)
			}
			var r2 render.Render2 = scripted2{sc.Items}
			var s2 sdf.SDF2 = dummy2{}
			switch sc.Renderer {
			case "ms-uniform":
				r2, s2 = render.NewMarchingSquaresUniform(6), field2()
			case "ms-quadtree":
				r2, s2 = render.NewMarchingSquaresQuadtree(6), field2()
			case "dc2d":
				r2, s2 = render.NewDualContouring2D(6), field2()
			case "ms-uniform-flat": // a valid shape whose bounding box has no height (a stroke without thickness)
				r2, s2 = render.NewMarchingSquaresUniform(6), sdf.Line2D(10, 0)
			case "ms-quadtree-flat":
				r2, s2 = render.NewMarchingSquaresQuadtree(6), sdf.Line2D(10, 0)
			case "ms-uniform-nothing":
				r2 = render.NewMarchingSquaresUniform(3)
			case "ms-quadtree-nothing":
				r2 = render.NewMarchingSquaresQuadtree(3)
			}
			if sc.Batch && sc.First != "" {
				switch sc.First {
				case "Poly(empty polygon)": // returns an error ("no vertices")
					render.Poly(sdf.NewPolygon(), sc.Path)
				case "Poly(triangle)":
					pl := sdf.NewPolygon()
					pl.Add(0, 0)
					pl.Add(1, 0)
					pl.Add(0, 1)
					render.Poly(pl, sc.Path)
				case "NewDXF dropped without Save":
					d := render.NewDXF(sc.Path)
					d.Line(&sdf.Line2{{X: 0}, {X: 1, Y: 1}})
				case "two NewDXF drawings open, both saved":
					d1, d2 := render.NewDXF(sc.Path), render.NewDXF(sc.Path+".2.dxf")
					d1.Line(&sdf.Line2{{X: 0}, {X: 1, Y: 1}})
					d2.Line(&sdf.Line2{{X: 0}, {X: 2, Y: 1}})
					d1.Save()
					d2.Save()
				case "NewSVG dropped without Save":
					v := render.NewSVG("dropped.svg", "fill:none")
					v.Line(v2.Vec{}, v2.Vec{X: 1, Y: 1})
				case "LoadSTL of a missing file":
					render.LoadSTL("no-such-file.stl")
				}
				continue
			}
			if sc.Batch {
				switch sc.Sink {
				case "stl":
					render.SaveSTL("out.stl", []*sdf.Triangle3{{{X: 0}, {X: 1}, {Y: 1}}})
				case "svg":
					render.SaveSVG("out.svg", "fill:none;stroke:black", []*sdf.Line2{{{X: 0}, {X: 1, Y: 1}}})
				case "dxf":
					render.SaveDXF(sc.Path, []*sdf.Line2{{{X: 0}, {X: 1, Y: 1}}})
				}
				continue
			}
			switch sc.Sink {
			case "stl":
				render.ToSTL(s3, "out.stl", r3)
			case "triangles":
				render.ToTriangles(s3, r3)
			case "3mf":
				render.To3MF(s3, sc.Path, r3)
			case "svg":
				render.ToSVG(s2, "out.svg", r2)
			case "dxf":
				render.ToDXF(s2, sc.Path, r2)
			}
		}
		if sc.Then {
			vos.Reset(&vos.Plan{Limit: -1, Fired: map[string]int{}})
			ok := filepath.Join(work, fmt.Sprintf("then-%d", os.Getpid()))
			switch sc.Sink {
			case "stl":
				render.ToSTL(dummy3{}, "then.stl", scripted3{3})
			case "3mf":
				render.To3MF(dummy3{}, ok+".3mf", scripted3{3})
			case "svg":
				render.ToSVG(dummy2{}, "then.svg", scripted2{3})
			case "dxf":
				render.ToDXF(dummy2{}, ok+".dxf", scripted2{3})
			}
		}
	}
}

// fineField: a thin slab of the sphere's box, 12 x 12 lattice points per layer at 10 cells (two batches of 100)
func fineField() sdf.SDF3 {
	s, _ := sdf.Sphere3D(1)
	return boxed{s, sdf.Box3{Min: v3.Vec{X: -0.15, Y: -1.5, Z: -1.5}, Max: v3.Vec{X: 0.15, Y: 1.5, Z: 1.5}}}
}

func planName(p *vos.Plan) string {
	switch {
	case p.FailCreate:
		return "create-fails"
	case p.FailSeek:
		return "seek-fails"
	case p.FailAfterSeek:
		return "header-rewrite-fails"
	case p.FailClose:
		return "close-fails"
	case p.Limit >= 0:
		switch {
		case p.Limit < 84:
			return "write-error-in-header"
		}
		return "write-error-after-header"
	}
	return "no-fault"
}

func main() {
	c := vlib.Start("C12")
	os.MkdirAll(work, 0o755)
	if c.Replay != "" {
		var sc scen
		if err := c.LoadReplay(&sc); err != nil {
			fmt.Fprintln(vlib.Out, "cannot load replay:", err)
			return
		}
		x := vsync.RunOnce(sc.Prefix, true, sc.body())
		fmt.Fprintf(vlib.Out, "replay %+v\nfaults=%v deadlock=%v leaked=%d %v\n", sc, x.Faults, x.Deadlock, x.Leaked, x.LeakedOps)
		for _, t := range x.Trace {
			fmt.Fprintln(vlib.Out, " ", t)
		}
		return
	}
	bound := -1 // unbounded for the scripted renderer (happens-before state pruning)
	var scens []scen
	none := func() *vos.Plan { return &vos.Plan{Limit: -1} }
	items := vlib.Pick(c, []int{0, 1, 81, 300, 700}, []int{0, 1, 81, 82, 256, 300, 512, 700, 1000})
	for _, m := range items {
		size := int64(84 + 50*m)
		var plans []*vos.Plan
		plans = append(plans, none(), &vos.Plan{Limit: -1, FailCreate: true}, &vos.Plan{Limit: -1, FailSeek: true}, &vos.Plan{Limit: -1, FailAfterSeek: true}, &vos.Plan{Limit: -1, FailClose: true})
		lims := map[int64]bool{0: true, 1: true, 83: true, 84: true, 85: true}
		for k := int64(4096); k <= size+4096; k += 4096 {
			for _, d := range []int64{-1, 0, 1, 2048} {
				if k+d < size {
					lims[k+d] = true
				}
			}
		}
		if size > 1 {
			lims[size-1] = true
			lims[size-50] = true
		}
		if c.Thorough() {
			// "a file-size limit reached at any byte offset": every offset for files of up to 300 triangles, every 4th otherwise
			step := int64(1)
			if size > 16000 {
				step = 4
			}
			for l := int64(0); l < size; l += step {
				lims[l] = true
			}
		}
		for l := range lims {
			if l >= 0 && l < size {
				plans = append(plans, &vos.Plan{Limit: l})
			}
		}
		for _, p := range plans {
			scens = append(scens, scen{Sink: "stl", Renderer: "scripted", Items: m, Renders: 1, Plan: p, Workers: 2, Bound: bound})
		}
		// SVG on vos: create failure at save time
		scens = append(scens, scen{Sink: "svg", Renderer: "scripted", Items: m, Renders: 1, Plan: &vos.Plan{Limit: -1, FailCreate: true}, Workers: 2, Bound: bound},
			scen{Sink: "svg", Renderer: "scripted", Items: m, Renders: 1, Plan: &vos.Plan{Limit: 10}, Workers: 2, Bound: bound},
			scen{Sink: "svg", Renderer: "scripted", Items: m, Renders: 1, Plan: none(), Workers: 2, Bound: bound})
	}
	// real file system sinks: unwritable path (nonexistent directory) and /dev/full
	for _, m := range []int{0, 1, 300} {
		for _, path := range []string{filepath.Join(work, "no-such-dir", "x"), "/dev/full", filepath.Join(work, "ok")} {
			scens = append(scens, scen{Sink: "3mf", Renderer: "scripted", Items: m, Renders: 1, Plan: none(), Path: path + ".3mf", Workers: 2, Bound: -1},
				scen{Sink: "dxf", Renderer: "scripted", Items: m, Renders: 1, Plan: none(), Path: path + ".dxf", Workers: 2, Bound: -1})
		}
	}
	scens[len(scens)-1].Path, scens[len(scens)-2].Path = filepath.Join(work, "ok.dxf"), filepath.Join(work, "ok.3mf")
	// real renderers into a failing / working STL sink and the collector; consecutive renders for the census
	for _, rn := range []string{"uniform", "octree"} {
		for _, w := range []int{1, 2} {
			for k := 1; k <= 4; k++ {
				b := 2
				if k > 1 {
					b = 1
				}
				scens = append(scens, scen{Sink: "triangles", Renderer: rn, Renders: k, Plan: none(), Workers: w, Bound: b})
				scens = append(scens, scen{Sink: "stl", Renderer: rn, Renders: k, Plan: &vos.Plan{Limit: 4096}, Workers: w, Bound: b})
			}
		}
	}
	// the other renderers of the library (no concurrency of their own: the writer goroutine is the only
	// other thread) into failing and working sinks
	for _, rn := range []string{"ms-uniform", "ms-quadtree", "dc2d"} {
		for _, p := range []*vos.Plan{none(), {Limit: -1, FailCreate: true}, {Limit: 10}} {
			scens = append(scens, scen{Sink: "svg", Renderer: rn, Renders: 1, Plan: p, Workers: 1, Bound: -1})
		}
		for _, path := range []string{filepath.Join(work, "no-such-dir", rn), "/dev/full", filepath.Join(work, "ok-"+rn)} {
			scens = append(scens, scen{Sink: "dxf", Renderer: rn, Renders: 1, Plan: none(), Path: path + ".dxf", Workers: 1, Bound: -1})
		}
	}
	// the worker-pool renderers with the remaining fault classes (one render)
	for _, rn := range []string{"uniform", "octree"} {
		for _, p := range []*vos.Plan{{Limit: -1, FailCreate: true}, {Limit: 0}, {Limit: -1, FailAfterSeek: true}} {
			scens = append(scens, scen{Sink: "stl", Renderer: rn, Renders: 1, Plan: p, Workers: 2, Bound: 2})
		}
	}
	// a failing render followed by a working one
	for _, m := range []int{1, 300} {
		for _, p := range []*vos.Plan{{Limit: -1, FailCreate: true}, {Limit: 0}, {Limit: 84}, {Limit: 4096}, {Limit: -1, FailSeek: true}, {Limit: -1, FailAfterSeek: true}, {Limit: -1, FailClose: true}} {
			scens = append(scens, scen{Sink: "stl", Renderer: "scripted", Items: m, Renders: 1, Plan: p, Workers: 2, Bound: -1, Then: true})
		}
		for _, p := range []*vos.Plan{{Limit: -1, FailCreate: true}, {Limit: 10}} {
			scens = append(scens, scen{Sink: "svg", Renderer: "scripted", Items: m, Renders: 1, Plan: p, Workers: 2, Bound: -1, Then: true})
		}
		for _, path := range []string{filepath.Join(work, "no-such-dir", "y"), "/dev/full"} {
			scens = append(scens, scen{Sink: "3mf", Renderer: "scripted", Items: m, Renders: 1, Plan: none(), Path: path + ".3mf", Workers: 2, Bound: -1, Then: true},
				scen{Sink: "dxf", Renderer: "scripted", Items: m, Renders: 1, Plan: none(), Path: path + ".dxf", Workers: 2, Bound: -1, Then: true})
		}
	}
	// the batch writers failing first, then a render
	scens = append(scens,
		scen{Sink: "stl", Renderer: "scripted", Items: 3, Renders: 1, Plan: &vos.Plan{Limit: -1, FailCreate: true}, Workers: 2, Bound: -1, Then: true, Batch: true},
		scen{Sink: "stl", Renderer: "scripted", Items: 3, Renders: 1, Plan: &vos.Plan{Limit: 10}, Workers: 2, Bound: -1, Then: true, Batch: true},
		scen{Sink: "svg", Renderer: "scripted", Items: 3, Renders: 1, Plan: &vos.Plan{Limit: -1, FailCreate: true}, Workers: 2, Bound: -1, Then: true, Batch: true},
		scen{Sink: "dxf", Renderer: "scripted", Items: 3, Renders: 1, Plan: none(), Path: filepath.Join(work, "no-such-dir", "z.dxf"), Workers: 2, Bound: -1, Then: true, Batch: true},
		scen{Sink: "dxf", Renderer: "scripted", Items: 3, Renders: 1, Plan: none(), Path: "/dev/full", Workers: 2, Bound: -1, Then: true, Batch: true})
	// scripted renderers with mixed write sizes (small, then beyond the flush threshold, empty, ...), renders that
	// produce nothing at all, and the coarsest octree: no fault, every sink
	for _, path := range []string{filepath.Join(work, "ok-mixed")} {
		scens = append(scens, scen{Sink: "stl", Renderer: "scripted", Items: -1, Renders: 2, Plan: none(), Workers: 2, Bound: -1},
			scen{Sink: "svg", Renderer: "scripted", Items: -1, Renders: 2, Plan: none(), Workers: 2, Bound: -1},
			scen{Sink: "triangles", Renderer: "scripted", Items: -1, Renders: 2, Plan: none(), Workers: 2, Bound: -1},
			scen{Sink: "3mf", Renderer: "scripted", Items: -1, Renders: 1, Plan: none(), Path: path + ".3mf", Workers: 2, Bound: -1},
			scen{Sink: "dxf", Renderer: "scripted", Items: -1, Renders: 1, Plan: none(), Path: path + ".dxf", Workers: 2, Bound: -1})
	}
	for _, rn := range []string{"octree1", "octree-nothing", "uniform-nothing"} {
		for _, w := range []int{1, 2} {
			scens = append(scens, scen{Sink: "triangles", Renderer: rn, Renders: 2, Plan: none(), Workers: w, Bound: 1}, scen{Sink: "stl", Renderer: rn, Renders: 2, Plan: none(), Workers: w, Bound: 1})
		}
	}
	for _, rn := range []string{"ms-uniform-nothing", "ms-quadtree-nothing"} {
		scens = append(scens, scen{Sink: "dxf", Renderer: rn, Renders: 1, Plan: none(), Path: filepath.Join(work, "ok-"+rn+".dxf"), Workers: 1, Bound: -1})
	}
	for _, rn := range []string{"ms-uniform-flat", "ms-quadtree-flat"} {
		scens = append(scens, scen{Sink: "dxf", Renderer: rn, Renders: 2, Plan: none(), Path: filepath.Join(work, "ok-"+rn+".dxf"), Workers: 1, Bound: -1, Then: true},
			scen{Sink: "svg", Renderer: rn, Renders: 1, Plan: none(), Workers: 1, Bound: -1, Then: true})
	}
	// other first steps: exported calls that return an error or are abandoned, then a render of every format
	for _, first := range []string{"Poly(empty polygon)", "Poly(triangle)", "NewDXF dropped without Save", "two NewDXF drawings open, both saved", "NewSVG dropped without Save", "LoadSTL of a missing file"} {
		for _, sink := range []string{"dxf", "svg", "stl", "3mf"} {
			scens = append(scens, scen{Sink: sink, Renderer: "scripted", Items: 3, Renders: 1, Plan: none(), Path: filepath.Join(work, "first-"+sink+".dxf"), Workers: 2, Bound: -1, Then: true, Batch: true, First: first})
		}
	}
	// a lattice whose layers hold exactly one full evaluation batch (100 points), no fault at all
	for _, w := range []int{1, 2} {
		scens = append(scens, scen{Sink: "triangles", Renderer: "uniform100", Renders: 1, Plan: none(), Workers: w, Bound: 0},
			scen{Sink: "stl", Renderer: "uniform100", Renders: 1, Plan: none(), Workers: w, Bound: 0})
	}
	// shapes with a lock of their own under the worker pool: an extrusion of a cached profile, <= 1 preemption
	// (thorough: <= 2 for two workers), once and twice in a row
	scens = append(scens, scen{Sink: "triangles", Renderer: "uniform-cached", Renders: 1, Plan: none(), Workers: 2, Bound: 1})
	// census over alternating resolutions: coarse, fine, coarse, fine, ... (k = 2, 4, 6 renders = 1, 2, 3 periods)
	for _, w := range []int{1, 2, 3} {
		for _, k := range []int{2, 4, 6} {
			scens = append(scens, scen{Sink: "triangles", Renderer: "uniform", Renders: k, Plan: none(), Workers: w, Bound: 0, Mixed: true})
		}
	}
	if only := os.Getenv("VERIF_C12_ONLY"); only != "" { // debugging aid: restrict to one renderer kind
		var keep []scen
		for _, sc := range scens {
			if sc.Renderer == only {
				keep = append(keep, sc)
			}
		}
		scens = keep
	}
	census := map[string]map[int]int64{}
	m := c.RunSharded(len(scens), func(i int, j *vlib.Job) {
		sc := scens[i]
		maxLeak := int64(-1)
		if sc.Mixed {
			// the census over alternating resolutions counts parked workers, which does not depend on the
			// schedule; it is taken under two opposite scheduling policies instead of an exploration
			for pi, pol := range []func(n int, cur bool) int{func(int, bool) int { return 0 }, func(n int, _ bool) int { return n - 1 }} {
				x := vsync.RunPolicy(pol, sc.body())
				if x.Deadlock || len(x.Faults) > 0 {
					j.Violation("Totriangles|fault|alternating-resolutions", fmt.Sprintf("uniform renderer, alternating resolutions, policy %d: %v", pi, x.Faults), sc)
				}
				if int64(x.Leaked) > maxLeak {
					maxLeak = int64(x.Leaked)
				}
				j.States++
				j.Transitions += int64(x.Steps)
			}
			j.Count(fmt.Sprintf("census-mixed|w=%d|k=%d", sc.Workers, sc.Renders), maxLeak+1)
			j.Count("executions", 2)
			return
		}
		st := vsync.ExploreAll(vsync.Options{Bound: sc.Bound, Stop: c.Expired, MaxExec: 50000, Prune: true, SymmetricSpawn: []string{"render.evalRoutines"}}, sc.body(), func(x *vsync.Execution, prefix []int) bool {
			rep := func() scen {
				r := sc
				r.Prefix = append([]int{}, x.Choices...)
				return r
			}
			pn := planName(sc.Plan)
			if x.Deadlock {
				j.Violation(fmt.Sprintf("To%s|never-returns|%s", sc.Sink, pn), fmt.Sprintf("render to %s (%s renderer, %d items, plan %s) does not return: %v", sc.Sink, sc.Renderer, sc.Items, pn, x.Faults), rep())
			} else if len(x.Faults) > 0 {
				j.Violation(fmt.Sprintf("To%s|fault|%s", sc.Sink, pn), fmt.Sprintf("render to %s (%s renderer, %d items, plan %s): %v", sc.Sink, sc.Renderer, sc.Items, pn, x.Faults), rep())
			}
			if int64(x.Leaked) > maxLeak {
				maxLeak = int64(x.Leaked)
			}
			// renderers without a process-wide worker pool start nothing that may outlive the call: a thread
			// still parked after the call returned is left behind once per render
			if x.Leaked > 0 && !x.Deadlock && !strings.HasPrefix(sc.Renderer, "uniform") {
				j.Violation(fmt.Sprintf("To%s|goroutine-left-behind|%s", sc.Sink, pn), fmt.Sprintf("render to %s (%s renderer, %d items, plan %s) returned with %d goroutines still parked: %v", sc.Sink, sc.Renderer, sc.Items, pn, x.Leaked, x.LeakedOps), rep())
			}
			for k, v := range vos.Current.Fired {
				j.Count("fired:"+k, int64(v))
			}
			return true
		})
		if st.NonDetermin != "" {
			j.HarnessError("%+v: %s", sc, st.NonDetermin)
		}
		j.States += st.Executions
		j.Transitions += st.Steps
		j.Count("executions", st.Executions)
		j.Count("pruned-executions", st.Pruned)
		j.Count("exec|"+sc.Sink+"|"+sc.Renderer, st.Executions)
		j.Count("steps|"+sc.Sink+"|"+sc.Renderer, st.Steps)
		if st.Capped {
			j.Count("capped|"+sc.Sink+"|"+sc.Renderer, 1)
		}
		j.Count("executions-with-choice", st.WithChoice)
		j.Count("distinct-traces", int64(len(st.Distinct)))
		if sc.Mixed {
			j.Count(fmt.Sprintf("census-mixed|w=%d|k=%d", sc.Workers, sc.Renders), maxLeak+1)
		} else if !sc.Then {
			j.Count(fmt.Sprintf("census|%s|%s|w=%d|plan=%s|k=%d", sc.Sink, sc.Renderer, sc.Workers, planName(sc.Plan), sc.Renders), maxLeak+1)
		}
		if st.Capped {
			j.Capped = true
		}
		if i%37 == 0 {
			j.Samples = append(j.Samples, sc)
		}
	})
	_ = census
	// leak census: the number of threads parked after k renders must not grow with k
	for _, sink := range []string{"triangles", "stl"} {
		for _, rn := range []string{"uniform", "octree"} {
			for _, w := range []int{1, 2} {
				pl := "no-fault"
				if sink == "stl" {
					pl = "write-error-after-header"
				}
				var l [5]int64
				ok := true
				for k := 1; k <= 4; k++ {
					v, found := m.Counters[fmt.Sprintf("census|%s|%s|w=%d|plan=%s|k=%d", sink, rn, w, pl, k)]
					if !found {
						ok = false
					}
					l[k] = v - 1
				}
				if !ok {
					continue
				}
				for k := 2; k <= 4; k++ {
					if l[k] > l[1] {
						c.Violation(fmt.Sprintf("%s|goroutines-grow-per-render", rn), fmt.Sprintf("%s renderer, %d workers, sink %s: %d, %d, %d, %d goroutines left parked after 1, 2, 3, 4 renders", rn, w, sink, l[1], l[2], l[3], l[4]),
							map[string]any{"renderer": rn, "workers": w, "sink": sink, "parked_after_k_renders": l[1:]})
						break
					}
				}
				c.Note("census %s %s w=%d: parked after 1..4 renders: %v", sink, rn, w, l[1:])
			}
		}
	}
	for _, w := range []int{1, 2, 3} {
		var l [7]int64
		ok := true
		for _, k := range []int{2, 4, 6} {
			v, found := m.Counters[fmt.Sprintf("census-mixed|w=%d|k=%d", w, k)]
			if !found {
				ok = false
			}
			l[k] = v - 1
		}
		if !ok {
			continue
		}
		if l[4] > l[2] || l[6] > l[2] {
			c.Violation("uniform|goroutines-grow-per-render|alternating-resolutions", fmt.Sprintf("uniform renderer, %d workers, renders alternating between a coarse and a fine lattice: %d, %d, %d goroutines left parked after 2, 4, 6 renders", w, l[2], l[4], l[6]),
				map[string]any{"renderer": "uniform", "workers": w, "alternating_resolutions": true, "parked_after_2_4_6_renders": []int64{l[2], l[4], l[6]}})
		}
		c.Note("census uniform w=%d alternating coarse/fine: parked after 2, 4, 6 renders: %v", w, []int64{l[2], l[4], l[6]})
	}
	for _, f := range []string{"create", "limit", "seek", "write-after-seek", "close"} {
		c.Guard("fault point fired: "+f, m.Counters["fired:"+f] > 0, fmt.Sprint(m.Counters["fired:"+f]))
	}
	c.Guard("schedules with >=2 enabled threads explored", m.Counters["executions-with-choice"] > 1000, fmt.Sprint(m.Counters["executions-with-choice"]))
	samples := m.Samples
	if len(samples) == 0 {
		samples = []any{scens[0]}
	}
	c.Finish(vlib.Coverage{
		States: m.States, Transitions: m.Transitions, Evaluations: m.States, Nontrivial: m.Counters["distinct-traces"],
		Rule:       "states = complete executions (one per explored schedule) of a render-to-sink call under one fault plan; transitions = scheduler steps; non-trivial = distinct operation traces",
		Samples:    samples,
		Exhaustive: true,
		Bounds: map[string]any{"items": items, "stl_plans": "create / seek / header-rewrite / close failure; byte limit at 0,1,83,84,85, every 4096 multiple -1/+0/+1/+2048 below the file size, size-50, size-1", "preemption_bound": bound,
			"real_fs_sinks": "3MF and DXF into a nonexistent directory, /dev/full and a writable path (all interleavings)", "other_renderers": "marching squares uniform/quadtree and 2D dual contouring into SVG (3 plans) and DXF (3 paths)", "census": "uniform and octree renderers, 1-2 workers, k=1..4 consecutive renders", "scenarios": len(scens)},
		Extra: map[string]any{"counters": m.Counters},
		Assumptions: []string{"I/O failure is modelled as an error return of Create/Write/Seek/Close of the in-memory file (a byte limit makes a write fall short at that offset); kernel-level behaviour (SIGXFSZ default action) is outside the model",
			"deadlock (main thread not finished, no enabled thread) decides 'never returns'"},
	})
}
