// C07 — hierarchical (octree / quadtree) rendering loses nothing.
// Engine L: exact voxel/pixel solids placed on, just inside and between the planes of the renderer's
// own discovered lattice, at every position of a window (straddling coarse cube boundaries), rendered
// through the real octree / quadtree renderer and compared (as exact multisets) with
//
//	(1) the same renderer on the field scaled by 2^-10 (nothing prunable, identical signs and ratios),
//	(2) the real per-cell step applied to every finest cell of the discovered lattice,
//
// and (3) the lattice must cover the shape's bounding box.
package main

import (
	"fmt"
	"math"
	"sort"
	"sync/atomic"

	"github.com/deadsy/sdfx/render"
	"github.com/deadsy/sdfx/sdf"
	v2 "github.com/deadsy/sdfx/vec/v2"
	v3 "github.com/deadsy/sdfx/vec/v3"

	"verif/lib/lattice"
	"verif/lib/mesh"
	"verif/lib/vlib"
)

// ---- exact voxel solids ------------------------------------------------------------------------

type box3 struct{ lo, hi v3.Vec }

func (b box3) dist(p v3.Vec) float64 { // 0 inside
	dx := math.Max(math.Max(b.lo.X-p.X, p.X-b.hi.X), 0)
	dy := math.Max(math.Max(b.lo.Y-p.Y, p.Y-b.hi.Y), 0)
	dz := math.Max(math.Max(b.lo.Z-p.Z, p.Z-b.hi.Z), 0)
	return math.Sqrt(dx*dx + dy*dy + dz*dz)
}

type voxels3 struct {
	bb      sdf.Box3
	present []box3
	absent  []box3
	hull    box3
	scale   float64
	evals   atomic.Int64
}

func (s *voxels3) BoundingBox() sdf.Box3 { return s.bb }
func (s *voxels3) Evaluate(p v3.Vec) float64 {
	s.evals.Add(1)
	d := math.Inf(1)
	for _, b := range s.present {
		d = math.Min(d, b.dist(p))
	}
	if d > 0 {
		return d * s.scale
	}
	// inside (or on the boundary of) the union: distance to the complement
	in := math.Inf(1)
	for _, b := range s.absent {
		in = math.Min(in, b.dist(p))
	}
	h := s.hull
	in = math.Min(in, math.Min(math.Min(p.X-h.lo.X, h.hi.X-p.X), math.Min(math.Min(p.Y-h.lo.Y, h.hi.Y-p.Y), math.Min(p.Z-h.lo.Z, h.hi.Z-p.Z))))
	return -in * s.scale
}

func newVoxels3(bb sdf.Box3, org v3.Vec, size float64, mask int, scale float64) *voxels3 {
	s := &voxels3{bb: bb, scale: scale}
	s.hull = box3{org, org.Add(v3.Vec{X: 2 * size, Y: 2 * size, Z: 2 * size})}
	for i := 0; i < 8; i++ {
		lo := org.Add(v3.Vec{X: float64(i&1) * size, Y: float64(i>>1&1) * size, Z: float64(i>>2&1) * size})
		b := box3{lo, lo.Add(v3.Vec{X: size, Y: size, Z: size})}
		if mask&(1<<i) != 0 {
			s.present = append(s.present, b)
		} else {
			s.absent = append(s.absent, b)
		}
	}
	return s
}

// newSlab3 is a 3x3x3 voxel block: two layers (along axis ax) are solid, the outer layer on side `full` holds
// the voxels of mask (9 bits): cavities under / beside a solid slab, among them the arrangements in which
// a finest cell inside the slab touches the surface with three or four of its corners only.
func newSlab3(bb sdf.Box3, org v3.Vec, size float64, ax, full, mask int, scale float64) *voxels3 {
	s := &voxels3{bb: bb, scale: scale}
	dims := [3]int{3, 3, 3}
	s.hull = box3{org, org.Add(v3.Vec{X: float64(dims[0]) * size, Y: float64(dims[1]) * size, Z: float64(dims[2]) * size})}
	for i := 0; i < dims[0]; i++ {
		for j := 0; j < dims[1]; j++ {
			for k := 0; k < dims[2]; k++ {
				idx := [3]int{i, j, k}
				lo := org.Add(v3.Vec{X: float64(i) * size, Y: float64(j) * size, Z: float64(k) * size})
				b := box3{lo, lo.Add(v3.Vec{X: size, Y: size, Z: size})}
				// the cavity layer is the outer layer on side `full` (0: low, 1: high); the other two are solid,
				// so a cell of the middle layer is farther from every face of the block than half a diagonal
				present := idx[ax] != 2*full
				if !present {
					u, w := idx[(ax+1)%3], idx[(ax+2)%3]
					present = mask&(1<<(u*3+w)) != 0
				}
				if present {
					s.present = append(s.present, b)
				} else {
					s.absent = append(s.absent, b)
				}
			}
		}
	}
	return s
}

type box2 struct{ lo, hi v2.Vec }

func (b box2) dist(p v2.Vec) float64 {
	dx := math.Max(math.Max(b.lo.X-p.X, p.X-b.hi.X), 0)
	dy := math.Max(math.Max(b.lo.Y-p.Y, p.Y-b.hi.Y), 0)
	return math.Sqrt(dx*dx + dy*dy)
}

type pixels2 struct {
	bb      sdf.Box2
	present []box2
	absent  []box2
	hull    box2
	scale   float64
	evals   atomic.Int64
}

func (s *pixels2) BoundingBox() sdf.Box2 { return s.bb }
func (s *pixels2) Evaluate(p v2.Vec) float64 {
	s.evals.Add(1)
	d := math.Inf(1)
	for _, b := range s.present {
		d = math.Min(d, b.dist(p))
	}
	if d > 0 {
		return d * s.scale
	}
	in := math.Inf(1)
	for _, b := range s.absent {
		in = math.Min(in, b.dist(p))
	}
	h := s.hull
	in = math.Min(in, math.Min(math.Min(p.X-h.lo.X, h.hi.X-p.X), math.Min(p.Y-h.lo.Y, h.hi.Y-p.Y)))
	return -in * s.scale
}

func newPixels2(bb sdf.Box2, org v2.Vec, size float64, mask int, scale float64) *pixels2 {
	s := &pixels2{bb: bb, scale: scale}
	s.hull = box2{org, org.Add(v2.Vec{X: 3 * size, Y: 3 * size})}
	for i := 0; i < 9; i++ {
		lo := org.Add(v2.Vec{X: float64(i%3) * size, Y: float64(i/3) * size})
		b := box2{lo, lo.Add(v2.Vec{X: size, Y: size})}
		if mask&(1<<i) != 0 {
			s.present = append(s.present, b)
		} else {
			s.absent = append(s.absent, b)
		}
	}
	return s
}

type scaled3 struct {
	s sdf.SDF3
	k float64
	n atomic.Int64
}

func (s *scaled3) Evaluate(p v3.Vec) float64 { s.n.Add(1); return s.s.Evaluate(p) * s.k }
func (s *scaled3) BoundingBox() sdf.Box3     { return s.s.BoundingBox() }

type scaled2 struct {
	s sdf.SDF2
	k float64
	n atomic.Int64
}

func (s *scaled2) Evaluate(p v2.Vec) float64 { s.n.Add(1); return s.s.Evaluate(p) * s.k }
func (s *scaled2) BoundingBox() sdf.Box2     { return s.s.BoundingBox() }

type boxed3 struct {
	s  sdf.SDF3
	bb sdf.Box3
}

func (b boxed3) Evaluate(p v3.Vec) float64 { return b.s.Evaluate(p) }
func (b boxed3) BoundingBox() sdf.Box3     { return b.bb }

type boxed2 struct {
	s  sdf.SDF2
	bb sdf.Box2
}

func (b boxed2) Evaluate(p v2.Vec) float64 { return b.s.Evaluate(p) }
func (b boxed2) BoundingBox() sdf.Box2     { return b.bb }

// ---- multisets ---------------------------------------------------------------------------------

func triKeys(ts []*sdf.Triangle3, k float64) []string {
	o := make([]string, len(ts))
	for i, t := range ts {
		o[i] = fmt.Sprint(*t)
	}
	sort.Strings(o)
	return o
}
func lineKeys(ls []*sdf.Line2) []string {
	o := make([]string, len(ls))
	for i, l := range ls {
		o[i] = fmt.Sprint(*l)
	}
	sort.Strings(o)
	return o
}
func diff(a, b []string) (onlyA, onlyB []string) {
	i, j := 0, 0
	for i < len(a) || j < len(b) {
		switch {
		case j >= len(b) || (i < len(a) && a[i] < b[j]):
			onlyA = append(onlyA, a[i])
			i++
		case i >= len(a) || b[j] < a[i]:
			onlyB = append(onlyB, b[j])
			j++
		default:
			i++
			j++
		}
	}
	return
}

// reference: the real per-cell step on every finest cell of the discovered lattice
func ref3(l *lattice.Lat3, s sdf.SDF3) []*sdf.Triangle3 {
	nx, ny, nz := l.NC()
	val := make([]float64, nx*ny*nz)
	for i := 0; i < nx; i++ {
		for j := 0; j < ny; j++ {
			for k := 0; k < nz; k++ {
				val[(i*ny+j)*nz+k] = s.Evaluate(l.Corner(i, j, k))
			}
		}
	}
	var out []*sdf.Triangle3
	off := [8][3]int{{0, 0, 0}, {1, 0, 0}, {1, 1, 0}, {0, 1, 0}, {0, 0, 1}, {1, 0, 1}, {1, 1, 1}, {0, 1, 1}}
	for i := 0; i+1 < nx; i++ {
		for j := 0; j+1 < ny; j++ {
			for k := 0; k+1 < nz; k++ {
				var p [8]v3.Vec
				var v [8]float64
				for c, o := range off {
					p[c] = l.Corner(i+o[0], j+o[1], k+o[2])
					v[c] = val[((i+o[0])*ny+j+o[1])*nz+k+o[2]]
				}
				out = append(out, render.VerifMcToTriangles(p, v, 0)...)
			}
		}
	}
	return out
}

func ref2(l *lattice.Lat2, s sdf.SDF2) []*sdf.Line2 {
	nx, ny := l.NC()
	val := make([]float64, nx*ny)
	for i := 0; i < nx; i++ {
		for j := 0; j < ny; j++ {
			val[i*ny+j] = s.Evaluate(l.Corner(i, j))
		}
	}
	var out []*sdf.Line2
	off := [4][2]int{{0, 0}, {1, 0}, {1, 1}, {0, 1}}
	for i := 0; i+1 < nx; i++ {
		for j := 0; j+1 < ny; j++ {
			var p [4]v2.Vec
			var v [4]float64
			for c, o := range off {
				p[c] = l.Corner(i+o[0], j+o[1])
				v[c] = val[(i+o[0])*ny+j+o[1]]
			}
			out = append(out, render.VerifMsToLines(p, v, 0)...)
		}
	}
	return out
}

func m3e(s sdf.SDF3, err error) sdf.SDF3 {
	if err != nil {
		panic(err)
	}
	return s
}

func alignName(a float64) string {
	switch a {
	case 0:
		return "faces-on-lattice-planes"
	case 0.5:
		return "faces-mid-cell"
	}
	if math.Abs(a) < 1e-3 {
		return "faces-within-1e-5-cell-of-lattice-planes"
	}
	return "faces-at-third-cell"
}

func main() {
	c := vlib.Start("C07")
	var states, trans, nontrivial int64
	samples := []any{}
	var prunedLevels2, tangent atomic.Int64

	const k = 1.0 / 1024
	aligns := []float64{0, 1e-5, -1e-5, 0.5, 1.0 / 3}

	// =================== 3D octree ===================
	cells3 := vlib.Pick(c, []int{4, 5, 8}, []int{4, 5, 8, 16})
	win3 := vlib.Pick(c, 2, 3)
	for _, n := range cells3 {
		S := float64(n) // bounding cube of edge n => nominal cell 1
		bb := sdf.Box3{Min: v3.Vec{X: -S / 2, Y: -S / 2, Z: -S / 2}, Max: v3.Vec{X: S / 2, Y: S / 2, Z: S / 2}}
		mk := func() render.Render3 { return render.NewMarchingCubesOctree(n) }
		l, err := lattice.Discover3(mk(), bb, 0)
		if ce, ok := err.(*lattice.CoverageError); ok {
			c.Violation("octree"+"|sampled-volume-does-not-cover-bounding-box|cell-never-visited", ce.Msg, map[string]any{"renderer": "octree", "unvisited_corner": ce.Corner})
			continue
		}
		if err != nil || l.Stride != 2 {
			c.HarnessError("octree lattice discovery n=%d: %v", n, err)
			continue
		}
		nx, ny, nz := l.NC()
		cell := l.Cell().X
		// (3) the lattice must cover the bounding box
		lo, hi := l.Corner(0, 0, 0), l.Corner(nx-1, ny-1, nz-1)
		if lo.X > bb.Min.X || lo.Y > bb.Min.Y || lo.Z > bb.Min.Z || hi.X < bb.Max.X || hi.Y < bb.Max.Y || hi.Z < bb.Max.Z {
			c.Violation("octree|sampled-volume-does-not-cover-bounding-box", fmt.Sprintf("meshCells=%d: octree cells span %v..%v but the bounding box is %v..%v: finest cells beyond it are never visited", n, lo, hi, bb.Min, bb.Max),
				map[string]any{"renderer": "octree", "meshCells": n, "bb": bb, "lattice_lo": lo, "lattice_hi": hi})
		}
		// positions: block origin at lattice corner (i0,j0,k0), i0 in 1..win, such that the block stays in the box
		type job struct {
			mask       int
			i0, j0, k0 int
			align      float64
			vsize      int
		}
		var jobs []job
		for _, vs := range []int{1, 2} {
			if 2*vs+2 >= n { // block must fit inside the box with margin
				continue
			}
			for _, al := range aligns {
				for i0 := 1; i0 <= win3; i0++ {
					for j0 := 1; j0 <= win3; j0++ {
						for k0 := 1; k0 <= win3; k0++ {
							if float64(i0+2*vs)+1 > S || float64(j0+2*vs)+1 > S || float64(k0+2*vs)+1 > S {
								continue
							}
							for mask := 1; mask < 256; mask++ {
								jobs = append(jobs, job{mask, i0, j0, k0, al, vs})
							}
						}
					}
				}
			}
		}
		var tr int64
		done := c.ParFor(len(jobs), func(ji int) {
			j := jobs[ji]
			org := l.Corner(j.i0, j.j0, j.k0).Add(v3.Vec{X: j.align * cell, Y: j.align * cell, Z: j.align * cell})
			s := newVoxels3(bb, org, float64(j.vsize)*cell, j.mask, 1)
			got := render.ToTriangles(s, mk())
			e1 := s.evals.Load()
			sc := &scaled3{s: newVoxels3(bb, org, float64(j.vsize)*cell, j.mask, 1), k: k}
			all := render.ToTriangles(sc, mk())
			e2 := sc.n.Load()
			want := ref3(l, s)
			gk, ak, wk := triKeys(got, 1), triKeys(all, 1), triKeys(want, 1)
			desc := map[string]any{"renderer": "octree", "meshCells": n, "voxel_mask": j.mask, "block_origin_corner": []int{j.i0, j.j0, j.k0}, "alignment_cells": j.align, "voxel_size_cells": j.vsize}
			if a, b := diff(gk, ak); len(a)+len(b) > 0 {
				c.Violation("octree|differs-from-unpruned-render|"+alignName(j.align), fmt.Sprintf("octree n=%d voxels %#x at %d,%d,%d align %g size %d: %d triangles only with pruning, %d only without", n, j.mask, j.i0, j.j0, j.k0, j.align, j.vsize, len(a), len(b)), desc)
			}
			if a, b := diff(gk, wk); len(a)+len(b) > 0 {
				c.Violation("octree|differs-from-every-finest-cell|"+alignName(j.align), fmt.Sprintf("octree n=%d voxels %#x at %d,%d,%d align %g size %d: %d triangles not in the finest-cell reference, %d missing", n, j.mask, j.i0, j.j0, j.k0, j.align, j.vsize, len(a), len(b)), desc)
			}
			if e1 < e2 {
				atomic.AddInt64(&nontrivial, 1)
			}
			atomic.AddInt64(&tr, int64(len(got)))
		})
		states += done
		trans += tr
		// slabs with cavities: 3x3x3 voxel blocks, two layers solid, every subset of the third layer
		if n >= 8 {
			type sjob struct {
				mask, ax, full int
				i0, j0, k0     int
				align          float64
			}
			var sj []sjob
			w := vlib.Pick(c, 1, 2)
			for _, al := range aligns {
				for ax := 0; ax < 3; ax++ {
					for full := 0; full < 2; full++ {
						for i0 := 1; i0 <= w; i0++ {
							for j0 := 1; j0 <= w; j0++ {
								for k0 := 1; k0 <= w; k0++ {
									for mask := 0; mask < 511; mask++ {
										sj = append(sj, sjob{mask, ax, full, i0, j0, k0, al})
									}
								}
							}
						}
					}
				}
			}
			var tr2 int64
			done2 := c.ParFor(len(sj), func(ji int) {
				j := sj[ji]
				org := l.Corner(j.i0, j.j0, j.k0).Add(v3.Vec{X: j.align * cell, Y: j.align * cell, Z: j.align * cell})
				s := newSlab3(bb, org, cell, j.ax, j.full, j.mask, 1)
				got := render.ToTriangles(s, mk())
				e1 := s.evals.Load()
				sc := &scaled3{s: newSlab3(bb, org, cell, j.ax, j.full, j.mask, 1), k: k}
				all := render.ToTriangles(sc, mk())
				e2 := sc.n.Load()
				want := ref3(l, s)
				gk, ak, wk := triKeys(got, 1), triKeys(all, 1), triKeys(want, 1)
				desc := map[string]any{"renderer": "octree", "meshCells": n, "solid": "3x3x3 voxel block, two solid layers, cavities in the third", "two_voxel_axis": j.ax, "solid_layer": j.full, "other_layer_mask": j.mask, "block_origin_corner": []int{j.i0, j.j0, j.k0}, "alignment_cells": j.align}
				if a, b := diff(gk, ak); len(a)+len(b) > 0 {
					c.Violation("octree|differs-from-unpruned-render|slab-with-cavities|"+alignName(j.align), fmt.Sprintf("octree n=%d slab axis %d solid layer %d other layer %#x at %d,%d,%d align %g: %d triangles only with pruning, %d only without", n, j.ax, j.full, j.mask, j.i0, j.j0, j.k0, j.align, len(a), len(b)), desc)
				}
				if a, b := diff(gk, wk); len(a)+len(b) > 0 {
					c.Violation("octree|differs-from-every-finest-cell|slab-with-cavities|"+alignName(j.align), fmt.Sprintf("octree n=%d slab axis %d solid layer %d other layer %#x at %d,%d,%d align %g: %d triangles not in the finest-cell reference, %d missing", n, j.ax, j.full, j.mask, j.i0, j.j0, j.k0, j.align, len(a), len(b)), desc)
				}
				if e1 < e2 {
					atomic.AddInt64(&nontrivial, 1)
				}
				atomic.AddInt64(&tr2, int64(len(got)))
			})
			states += done2
			trans += tr2
			samples = append(samples, map[string]any{"renderer": "octree", "meshCells": n, "family": "3x3x3 voxel blocks: two solid layers + every subset of the third", "jobs": len(sj)})
		}
		samples = append(samples, map[string]any{"renderer": "octree", "meshCells": n, "lattice_corners": []int{nx, ny, nz}, "jobs": len(jobs), "example": map[string]any{"voxel_mask": "0x96", "origin_corner": []int{1, 2, 1}, "alignment": 1e-5, "voxel_size_cells": 1}})
	}
	// position-coded fields on larger lattices: every corner value distinct (sign from a ball pattern, magnitude
	// below every half diagonal, cube centres 0: nothing is prunable), compared with the per-cell reference over
	// the whole discovered lattice: a value that does not come from the field at that corner (a distance cache
	// keyed wrongly, a stale or shared cache) changes some triangle.  (added after seed C07-5)
	for _, n := range vlib.Pick(c, []int{17, 33}, []int{17, 33, 40, 64}) {
		S := float64(n)
		bb := sdf.Box3{Min: v3.Vec{X: -S / 2, Y: -S / 2, Z: -S / 2}, Max: v3.Vec{X: S / 2, Y: S / 2, Z: S / 2}}
		mk := func() render.Render3 { return render.NewMarchingCubesOctree(n) }
		l, err := lattice.Discover3(mk(), bb, 0)
		if ce, ok := err.(*lattice.CoverageError); ok {
			c.Violation("octree|sampled-volume-does-not-cover-bounding-box|cell-never-visited", ce.Msg, map[string]any{"renderer": "octree", "unvisited_corner": ce.Corner})
			continue
		}
		if err != nil || l.Stride != 2 {
			c.HarnessError("octree lattice discovery (position-coded) n=%d: %v", n, err)
			continue
		}
		nx, ny, nz := l.NC()
		sigma := 0.1 * l.Cell().X
		f := l.NewField3(2 * sigma)
		N := float64(nx * ny * nz)
		cx, cy, cz := float64(nx-1)/2, float64(ny-1)/2, float64(nz-1)/2
		rad := 0.45 * S
		for a := 1; a < nx-1; a++ {
			for b := 1; b < ny-1; b++ {
				for d := 1; d < nz-1; d++ {
					sgn := 1.0
					if math.Sqrt((float64(a)-cx)*(float64(a)-cx)+(float64(b)-cy)*(float64(b)-cy)+(float64(d)-cz)*(float64(d)-cz)) < rad*(1+0.2*math.Sin(float64(a+2*b+3*d))) {
						sgn = -1
					}
					f.Set(a, b, d, sgn*(1+float64((a*ny+b)*nz+d)/N)*sigma)
				}
			}
		}
		got := render.ToTriangles(f, mk())
		if f.OffLattice.Load() != 0 {
			c.HarnessError("octree position-coded n=%d: %d evaluations off the discovered lattice", n, f.OffLattice.Load())
		}
		want := ref3(l, f)
		desc := map[string]any{"renderer": "octree", "meshCells": n, "field": "position-coded lookup field (ball with a rippled radius), nothing prunable", "lattice_corners": []int{nx, ny, nz}, "corners_never_evaluated_outside_the_box": l.Missing}
		if a, b := diff(triKeys(got, 1), triKeys(want, 1)); len(a)+len(b) > 0 {
			c.Violation("octree|position-coded|differs-from-every-finest-cell", fmt.Sprintf("octree n=%d position-coded field: %d triangles not in the finest-cell reference, %d missing", n, len(a), len(b)), desc)
		}
		if l.Missing > 0 && len(got) > 0 {
			c.Note("octree n=%d: %d lattice corners outside the bounding box were never evaluated by the probe render", n, l.Missing)
		}
		states++
		trans += int64(len(got))
		atomic.AddInt64(&nontrivial, 1)
		samples = append(samples, map[string]any{"renderer": "octree", "meshCells": n, "family": "position-coded field", "triangles": len(got)})
	}
	// tiny spheres (radius 0.3 and 0.45 cell: smaller than every coarse cube) centred on lattice corners all over a
	// 32-cell octree lattice, among them the points of coarse cube faces that are farthest from the cube's corner
	// and centre samples; compared with the per-cell reference (added after seed C07-7)
	{
		n := 32
		S := float64(n)
		bb := sdf.Box3{Min: v3.Vec{X: -S / 2, Y: -S / 2, Z: -S / 2}, Max: v3.Vec{X: S / 2, Y: S / 2, Z: S / 2}}
		mk := func() render.Render3 { return render.NewMarchingCubesOctree(n) }
		l, err := lattice.Discover3(mk(), bb, 0)
		if err != nil || l.Stride != 2 {
			c.HarnessError("octree lattice discovery (tiny spheres) n=%d: %v", n, err)
		} else {
			cell := l.Cell().X
			type tj struct {
				i, j, k int
				r       float64
			}
			var tjs []tj
			st := vlib.Pick(c, 4, 2)
			for i := 4; i <= 28; i += st {
				for j := 4; j <= 28; j += st {
					for k := 4; k <= 28; k += st {
						for _, r := range []float64{0.3, 0.45} {
							tjs = append(tjs, tj{i, j, k, r})
						}
					}
				}
			}
			var tr4 int64
			done4 := c.ParFor(len(tjs), func(ti int) {
				j := tjs[ti]
				ctr := l.Corner(j.i, j.j, j.k)
				rad := j.r * cell
				s := boxed3{sdf.Transform3D(m3e(sdf.Sphere3D(rad)), sdf.Translate3d(ctr)), bb}
				got := render.ToTriangles(s, mk())
				want := ref3(l, s)
				if a, b := diff(triKeys(got, 1), triKeys(want, 1)); len(a)+len(b) > 0 {
					c.Violation("octree|tiny-sphere|differs-from-every-finest-cell", fmt.Sprintf("octree n=%d sphere of radius %g cell on lattice corner %d,%d,%d: %d triangles not in the finest-cell reference, %d missing", n, j.r, j.i, j.j, j.k, len(a), len(b)),
						map[string]any{"renderer": "octree", "meshCells": n, "sphere_radius_cells": j.r, "centre_corner": []int{j.i, j.j, j.k}})
				}
				if len(want) > 0 {
					atomic.AddInt64(&nontrivial, 1)
				}
				atomic.AddInt64(&tr4, int64(len(got)))
			})
			states += done4
			trans += tr4
			samples = append(samples, map[string]any{"renderer": "octree", "meshCells": n, "family": "tiny spheres on lattice corners", "jobs": len(tjs)})
		}
	}
	// large lattices (no full reference possible): a long rod and a sphere at 400-520 cells must come out closed
	// and reach their own extent (added after seed C07-9)
	for _, lg := range []struct {
		name string
		s    sdf.SDF3
		n    int
	}{{"rod 100x3x2", m3e(sdf.Box3D(v3.Vec{X: 100, Y: 3, Z: 2}, 0)), 400}, {"rod 100x3x2", m3e(sdf.Box3D(v3.Vec{X: 100, Y: 3, Z: 2}, 0)), 520}, {"rod 2x100x3", m3e(sdf.Box3D(v3.Vec{X: 2, Y: 100, Z: 3}, 0)), 520}, {"sphere r=10", m3e(sdf.Sphere3D(10)), 256}} {
		got := render.ToTriangles(lg.s, render.NewMarchingCubesOctree(lg.n))
		bb := lg.s.BoundingBox()
		h := bb.Size().MaxComponent() / float64(lg.n)
		rp := mesh.Check3(got, 1e-6*h)
		desc := map[string]any{"renderer": "octree", "scene": lg.name, "meshCells": lg.n}
		if rp.Unbalanced > 0 {
			c.Violation("octree|large-lattice|mesh-not-closed", fmt.Sprintf("%s n=%d: %d unbalanced directed edges (part of the surface was never visited)", lg.name, lg.n, rp.Unbalanced), desc)
		}
		lo, hi := v3.Vec{X: math.Inf(1), Y: math.Inf(1), Z: math.Inf(1)}, v3.Vec{X: math.Inf(-1), Y: math.Inf(-1), Z: math.Inf(-1)}
		for _, t := range got {
			for _, p := range t {
				lo, hi = lo.Min(p), hi.Max(p)
			}
		}
		if len(got) == 0 || lo.X > bb.Min.X+h || lo.Y > bb.Min.Y+h || lo.Z > bb.Min.Z+h || hi.X < bb.Max.X-h || hi.Y < bb.Max.Y-h || hi.Z < bb.Max.Z-h {
			c.Violation("octree|large-lattice|mesh-does-not-reach-the-extent-of-the-shape", fmt.Sprintf("%s n=%d: mesh spans %v..%v, the shape %v..%v", lg.name, lg.n, lo, hi, bb.Min, bb.Max), desc)
		}
		states++
		trans += int64(len(got))
	}
	// analytic 1-Lipschitz shapes
	m3 := func(s sdf.SDF3, err error) sdf.SDF3 {
		if err != nil {
			panic(err)
		}
		return s
	}
	rot := func(s sdf.SDF3, deg float64) sdf.SDF3 {
		return sdf.Transform3D(s, sdf.Rotate3d(v3.Vec{X: 1, Y: 2, Z: 3}.Normalize(), sdf.DtoR(deg)))
	}
	shapes3 := []struct {
		name string
		s    sdf.SDF3
	}{
		{"sphere", m3(sdf.Sphere3D(1))}, {"rounded box", m3(sdf.Box3D(v3.Vec{X: 2, Y: 1.5, Z: 1}, 0.2))}, {"sharp box", m3(sdf.Box3D(v3.Vec{X: 2, Y: 2, Z: 2}, 0))},
		{"rotated rounded cylinder", rot(m3(sdf.Cylinder3D(2, 0.5, 0.1)), 37)}, {"rotated box", rot(m3(sdf.Box3D(v3.Vec{X: 1.5, Y: 1, Z: 0.5}, 0)), 45)},
		{"cone", m3(sdf.Cone3D(2, 1, 0.2, 0))}, {"thin plate", m3(sdf.Box3D(v3.Vec{X: 2, Y: 2, Z: 0.05}, 0))},
		{"two spheres", sdf.Union3D(sdf.Transform3D(m3(sdf.Sphere3D(0.6)), sdf.Translate3d(v3.Vec{X: -0.5})), sdf.Transform3D(m3(sdf.Sphere3D(0.6)), sdf.Translate3d(v3.Vec{X: 0.5})))},
		{"sphere minus box", sdf.Difference3D(m3(sdf.Sphere3D(1)), m3(sdf.Box3D(v3.Vec{X: 0.5, Y: 0.5, Z: 3}, 0)))},
		{"tiny sphere (thinner than coarse cubes)", m3(sdf.Sphere3D(0.07))},
	}
	resos := vlib.Pick(c, []int{7, 16, 33}, []int{7, 8, 15, 16, 17, 32, 33, 64})
	type sj struct {
		si, n int
		far   bool // scene and box moved far from the origin
	}
	var sjobs []sj
	for si := range shapes3 {
		for _, n := range resos {
			sjobs = append(sjobs, sj{si, n, false})
			if si%3 == 0 && (n == 7 || n == 33 || n == 20) {
				sjobs = append(sjobs, sj{si, n, true})
			}
		}
		sjobs = append(sjobs, sj{si, 20, si%2 == 0})
	}
	var tr3 int64
	done := c.ParFor(len(sjobs), func(i int) {
		j := sjobs[i]
		bb := sdf.Box3{Min: v3.Vec{X: -1.5, Y: -1.5, Z: -1.5}, Max: v3.Vec{X: 1.5, Y: 1.5, Z: 1.5}}
		s := boxed3{shapes3[j.si].s, bb}
		if j.far {
			off := v3.Vec{X: 10, Y: -7.1, Z: 103.3}
			bb.Min, bb.Max = bb.Min.Add(off), bb.Max.Add(off)
			s = boxed3{sdf.Transform3D(shapes3[j.si].s, sdf.Translate3d(off)), bb}
		}
		mk := func() render.Render3 { return render.NewMarchingCubesOctree(j.n) }
		l, err := lattice.Discover3(mk(), bb, 0)
		if ce, ok := err.(*lattice.CoverageError); ok {
			c.Violation("octree"+"|sampled-volume-does-not-cover-bounding-box|cell-never-visited", ce.Msg, map[string]any{"renderer": "octree", "unvisited_corner": ce.Corner})
			return
		}
		if err != nil {
			c.HarnessError("octree lattice discovery (scene) n=%d: %v", j.n, err)
			return
		}
		got := render.ToTriangles(s, mk())
		all := render.ToTriangles(&scaled3{s: s, k: k}, mk())
		want := ref3(l, s)
		desc := map[string]any{"renderer": "octree", "scene": shapes3[j.si].name, "meshCells": j.n, "moved_far_from_origin": j.far}
		gk := triKeys(got, 1)
		if a, b := diff(gk, triKeys(all, 1)); len(a)+len(b) > 0 {
			c.Violation("octree|scene|differs-from-unpruned-render", fmt.Sprintf("%s n=%d: %d/%d triangles differ", shapes3[j.si].name, j.n, len(a), len(b)), desc)
		}
		if a, b := diff(gk, triKeys(want, 1)); len(a)+len(b) > 0 {
			c.Violation("octree|scene|differs-from-every-finest-cell", fmt.Sprintf("%s n=%d: %d/%d triangles differ", shapes3[j.si].name, j.n, len(a), len(b)), desc)
		}
		nx, ny, nz := l.NC()
		lo, hi := l.Corner(0, 0, 0), l.Corner(nx-1, ny-1, nz-1)
		if lo.X > bb.Min.X || lo.Y > bb.Min.Y || lo.Z > bb.Min.Z || hi.X < bb.Max.X || hi.Y < bb.Max.Y || hi.Z < bb.Max.Z {
			c.Violation("octree|sampled-volume-does-not-cover-bounding-box", fmt.Sprintf("meshCells=%d: octree cells span %v..%v, bounding box %v..%v", j.n, lo, hi, bb.Min, bb.Max), desc)
		}
		atomic.AddInt64(&tr3, int64(len(got)))
		if len(got) > 0 {
			atomic.AddInt64(&nontrivial, 1)
		}
	})
	states += done
	trans += tr3
	samples = append(samples, map[string]any{"renderer": "octree", "scenes": len(shapes3), "resolutions": resos})

	// =================== 2D quadtree ===================
	cells2 := vlib.Pick(c, []int{5, 8, 16}, []int{5, 8, 11, 16, 32})
	win2 := vlib.Pick(c, 3, 4)
	for _, n := range cells2 {
		S := float64(n)
		bb := sdf.Box2{Min: v2.Vec{X: -S / 2, Y: -S / 2}, Max: v2.Vec{X: S / 2, Y: S / 2}}
		mk := func() render.Render2 { return render.NewMarchingSquaresQuadtree(n) }
		l, err := lattice.Discover2(mk(), bb, 0)
		if ce, ok := err.(*lattice.CoverageError); ok {
			c.Violation("quadtree"+"|sampled-area-does-not-cover-bounding-box|cell-never-visited", ce.Msg, map[string]any{"renderer": "quadtree", "unvisited_corner": ce.Corner})
			continue
		}
		if err != nil || l.Stride != 2 {
			c.HarnessError("quadtree lattice discovery n=%d: %v", n, err)
			continue
		}
		nx, ny := l.NC()
		cell := l.Cell().X
		lo, hi := l.Corner(0, 0), l.Corner(nx-1, ny-1)
		if lo.X > bb.Min.X || lo.Y > bb.Min.Y || hi.X < bb.Max.X || hi.Y < bb.Max.Y {
			c.Violation("quadtree|sampled-area-does-not-cover-bounding-box", fmt.Sprintf("meshCells=%d: quadtree cells span %v..%v, bounding box %v..%v", n, lo, hi, bb.Min, bb.Max),
				map[string]any{"renderer": "quadtree", "meshCells": n})
		}
		type job struct {
			mask, i0, j0 int
			align        float64
			vsize        int
		}
		var jobs []job
		for _, vs := range []int{1, 2} {
			for _, al := range aligns {
				for i0 := 1; i0 <= win2; i0++ {
					for j0 := 1; j0 <= win2; j0++ {
						if float64(i0+3*vs)+1 > S || float64(j0+3*vs)+1 > S {
							continue
						}
						for mask := 1; mask < 512; mask++ {
							jobs = append(jobs, job{mask, i0, j0, al, vs})
						}
					}
				}
			}
		}
		var tr int64
		done := c.ParFor(len(jobs), func(ji int) {
			j := jobs[ji]
			org := l.Corner(j.i0, j.j0).Add(v2.Vec{X: j.align * cell, Y: j.align * cell})
			s := newPixels2(bb, org, float64(j.vsize)*cell, j.mask, 1)
			got := lattice.Collect2(s, mk())
			e1 := s.evals.Load()
			sc := &scaled2{s: newPixels2(bb, org, float64(j.vsize)*cell, j.mask, 1), k: k}
			all := lattice.Collect2(sc, mk())
			e2 := sc.n.Load()
			want := ref2(l, s)
			gk := lineKeys(got)
			desc := map[string]any{"renderer": "quadtree", "meshCells": n, "pixel_mask": j.mask, "block_origin_corner": []int{j.i0, j.j0}, "alignment_cells": j.align, "pixel_size_cells": j.vsize}
			if a, b := diff(gk, lineKeys(all)); len(a)+len(b) > 0 {
				c.Violation("quadtree|differs-from-unpruned-render|"+alignName(j.align), fmt.Sprintf("quadtree n=%d pixels %#x at %d,%d align %g size %d: %d segments only with pruning, %d only without", n, j.mask, j.i0, j.j0, j.align, j.vsize, len(a), len(b)), desc)
			}
			if a, b := diff(gk, lineKeys(want)); len(a)+len(b) > 0 {
				c.Violation("quadtree|differs-from-every-finest-cell|"+alignName(j.align), fmt.Sprintf("quadtree n=%d pixels %#x at %d,%d align %g size %d: %d segments not in the reference, %d missing", n, j.mask, j.i0, j.j0, j.align, j.vsize, len(a), len(b)), desc)
			}
			if e1 < e2 {
				atomic.AddInt64(&nontrivial, 1)
				if e1*4 < e2 {
					prunedLevels2.Add(1)
				}
			}
			atomic.AddInt64(&tr, int64(len(got)))
		})
		states += done
		trans += tr
		samples = append(samples, map[string]any{"renderer": "quadtree", "meshCells": n, "lattice_corners": []int{nx, ny}, "jobs": len(jobs)})
	}
	// 2D analytic shapes incl. tiny discs centred exactly on lattice corners (centre value == half diagonal - r)
	c2 := func(r float64) sdf.SDF2 {
		s, err := sdf.Circle2D(r)
		if err != nil {
			panic(err)
		}
		return s
	}
	type s2 struct {
		name string
		mk   func(l *lattice.Lat2) sdf.SDF2
	}
	shapes2 := []s2{
		{"circle r=1", func(*lattice.Lat2) sdf.SDF2 { return c2(1) }},
		{"box 2x1 rotated 45", func(*lattice.Lat2) sdf.SDF2 {
			return sdf.Transform2D(sdf.Box2D(v2.Vec{X: 2, Y: 1}, 0), sdf.Rotate2d(sdf.DtoR(45)))
		}},
		{"rounded box rotated 30", func(*lattice.Lat2) sdf.SDF2 {
			return sdf.Transform2D(sdf.Box2D(v2.Vec{X: 2, Y: 1}, 0.2), sdf.Rotate2d(sdf.DtoR(30)))
		}},
		{"box 2x2", func(*lattice.Lat2) sdf.SDF2 { return sdf.Box2D(v2.Vec{X: 2, Y: 2}, 0) }},
	}
	// tiny discs on corners shared by coarse squares: centre value is the half diagonal minus the radius
	for _, frac := range []float64{1e-5, 1e-3, 0.05} {
		for _, ci := range []int{2, 4, 6, 8} {
			frac, ci := frac, ci
			shapes2 = append(shapes2, s2{fmt.Sprintf("disc r=%g cell centred on lattice corner (%d,%d)", frac, ci, ci), func(l *lattice.Lat2) sdf.SDF2 {
				nx, _ := l.NC()
				i := ci
				if i >= nx-1 {
					i = nx - 2
				}
				// keep inside the bounding box
				for i > 1 && l.Corner(i, i).X > l.BB.Max.X-l.Cell().X {
					i--
				}
				tangent.Add(1)
				return sdf.Transform2D(c2(frac*l.Cell().X), sdf.Translate2d(l.Corner(i, i)))
			}})
		}
	}
	resos2 := vlib.Pick(c, []int{7, 16, 33, 64}, []int{7, 8, 15, 16, 17, 32, 33, 64, 100, 128, 300})
	var sjobs2 []sj
	for si := range shapes2 {
		for _, n := range resos2 {
			sjobs2 = append(sjobs2, sj{si, n, false})
			if si < 4 {
				sjobs2 = append(sjobs2, sj{si, n, true})
			}
		}
	}
	var tr2 int64
	done = c.ParFor(len(sjobs2), func(i int) {
		j := sjobs2[i]
		bb := sdf.Box2{Min: v2.Vec{X: -1.5, Y: -1.5}, Max: v2.Vec{X: 1.5, Y: 1.5}}
		off2 := v2.Vec{}
		if j.far {
			off2 = v2.Vec{X: 103.3, Y: -7.1}
			bb.Min, bb.Max = bb.Min.Add(off2), bb.Max.Add(off2)
		}
		mk := func() render.Render2 { return render.NewMarchingSquaresQuadtree(j.n) }
		l, err := lattice.Discover2(mk(), bb, 0)
		if ce, ok := err.(*lattice.CoverageError); ok {
			c.Violation("quadtree"+"|sampled-area-does-not-cover-bounding-box|cell-never-visited", ce.Msg, map[string]any{"renderer": "quadtree", "unvisited_corner": ce.Corner})
			return
		}
		if err != nil {
			c.HarnessError("quadtree lattice discovery (scene) n=%d: %v", j.n, err)
			return
		}
		s := boxed2{shapes2[j.si].mk(l), bb}
		if j.far {
			s = boxed2{sdf.Transform2D(shapes2[j.si].mk(l), sdf.Translate2d(off2)), bb}
		}
		got := lattice.Collect2(s, mk())
		all := lattice.Collect2(&scaled2{s: s, k: k}, mk())
		want := ref2(l, s)
		desc := map[string]any{"renderer": "quadtree", "scene": shapes2[j.si].name, "meshCells": j.n, "moved_far_from_origin": j.far}
		gk := lineKeys(got)
		if a, b := diff(gk, lineKeys(all)); len(a)+len(b) > 0 {
			c.Violation("quadtree|scene|differs-from-unpruned-render", fmt.Sprintf("%s n=%d: %d segments only with pruning, %d only without", shapes2[j.si].name, j.n, len(a), len(b)), desc)
		}
		if a, b := diff(gk, lineKeys(want)); len(a)+len(b) > 0 {
			c.Violation("quadtree|scene|differs-from-every-finest-cell", fmt.Sprintf("%s n=%d: %d/%d segments differ", shapes2[j.si].name, j.n, len(a), len(b)), desc)
		}
		nx, ny := l.NC()
		lo, hi := l.Corner(0, 0), l.Corner(nx-1, ny-1)
		if lo.X > bb.Min.X || lo.Y > bb.Min.Y || hi.X < bb.Max.X || hi.Y < bb.Max.Y {
			c.Violation("quadtree|sampled-area-does-not-cover-bounding-box", fmt.Sprintf("meshCells=%d: quadtree cells span %v..%v, bounding box %v..%v", j.n, lo, hi, bb.Min, bb.Max), desc)
		}
		atomic.AddInt64(&tr2, int64(len(got)))
		if len(got) > 0 {
			atomic.AddInt64(&nontrivial, 1)
		}
	})
	states += done
	trans += tr2
	samples = append(samples, map[string]any{"renderer": "quadtree", "scenes": len(shapes2), "resolutions": resos2, "example": shapes2[4].name})

	// ---- histories: what a hierarchical renderer skipped or remembered in an earlier render must not leak into
	// the next one - one renderer VALUE rendering a shape that is changed in place in between (a blend installed),
	// two different shapes with bit-identical boxes, and a render by a different renderer type just before
	{
		sp := func(x float64) sdf.SDF3 {
			return sdf.Transform3D(m3(sdf.Sphere3D(0.7)), sdf.Translate3d(v3.Vec{X: x}))
		}
		ci := func(x, r float64) sdf.SDF2 { return sdf.Transform2D(c2(r), sdf.Translate2d(v2.Vec{X: x})) }
		bb3 := sdf.Box3{Min: v3.Vec{X: -1.5, Y: -1.5, Z: -1.5}, Max: v3.Vec{X: 1.5, Y: 1.5, Z: 1.5}}
		bb2 := sdf.Box2{Min: v2.Vec{X: -1.5, Y: -1.5}, Max: v2.Vec{X: 1.5, Y: 1.5}}
		for _, n := range []int{16, 33} {
			// (a) same object, changed in place
			u := sdf.Union3D(sp(-0.45), sp(0.45))
			r := render.NewMarchingCubesOctree(n)
			_ = render.ToTriangles(boxed3{u, bb3}, r)
			shape := boxed3{u, bb3}
			_ = render.ToTriangles(shape, r)
			u.(*sdf.UnionSDF3).SetMin(sdf.PolyMin(0.4))
			got := triKeys(render.ToTriangles(shape, r), 1)
			want := triKeys(render.ToTriangles(shape, render.NewMarchingCubesOctree(n)), 1)
			states++
			trans += int64(len(got))
			if a, b := diff(got, want); len(a)+len(b) > 0 {
				c.Violation("octree|history|same-renderer-value-and-shape-object-changed-in-place", fmt.Sprintf("n=%d: after SetMin on the rendered union the same renderer value gives %d/%d triangles that a fresh renderer does not / does give", n, len(a), len(b)), map[string]any{"renderer": "octree", "meshCells": n})
			}
			u2 := sdf.Union2D(ci(-0.45, 0.7), ci(0.45, 0.7))
			q := render.NewMarchingSquaresQuadtree(n)
			shape2 := boxed2{u2, bb2}
			_ = lattice.Collect2(shape2, q)
			u2.(*sdf.UnionSDF2).SetMin(sdf.PolyMin(0.4))
			g2, w2 := lineKeys(lattice.Collect2(shape2, q)), lineKeys(lattice.Collect2(shape2, render.NewMarchingSquaresQuadtree(n)))
			states++
			if a, b := diff(g2, w2); len(a)+len(b) > 0 {
				c.Violation("quadtree|history|same-renderer-value-and-shape-object-changed-in-place", fmt.Sprintf("n=%d: after SetMin on the rendered union the same renderer value gives %d/%d segments that a fresh renderer does not / does give", n, len(a), len(b)), map[string]any{"renderer": "quadtree", "meshCells": n})
			}
			// (b) two different shapes with identical boxes, one renderer value
			q = render.NewMarchingSquaresQuadtree(n)
			A2, B2 := boxed2{ci(0.2, 1), bb2}, boxed2{sdf.Box2D(v2.Vec{X: 1.3, Y: 2.1}, 0.2), bb2}
			_ = lattice.Collect2(A2, q)
			g2, w2 = lineKeys(lattice.Collect2(B2, q)), lineKeys(lattice.Collect2(B2, render.NewMarchingSquaresQuadtree(n)))
			states++
			if a, b := diff(g2, w2); len(a)+len(b) > 0 {
				c.Violation("quadtree|history|same-renderer-value-two-shapes-with-identical-boxes", fmt.Sprintf("n=%d: the second shape rendered by the same renderer value differs from a fresh render in %d/%d segments", n, len(a), len(b)), map[string]any{"renderer": "quadtree", "meshCells": n})
			}
			r = render.NewMarchingCubesOctree(n)
			A3, B3 := boxed3{sp(0.2), bb3}, boxed3{m3(sdf.Box3D(v3.Vec{X: 1.3, Y: 2.1, Z: 0.9}, 0.2)), bb3}
			_ = render.ToTriangles(A3, r)
			got, want = triKeys(render.ToTriangles(B3, r), 1), triKeys(render.ToTriangles(B3, render.NewMarchingCubesOctree(n)), 1)
			states++
			if a, b := diff(got, want); len(a)+len(b) > 0 {
				c.Violation("octree|history|same-renderer-value-two-shapes-with-identical-boxes", fmt.Sprintf("n=%d: the second shape rendered by the same renderer value differs from a fresh render in %d/%d triangles", n, len(a), len(b)), map[string]any{"renderer": "octree", "meshCells": n})
			}
			// (c) a render by another renderer type first (package-level pools shared between renderer types)
			for _, first := range []string{"dc2d", "squares-uniform", "quadtree-other-lattice"} {
				switch first {
				case "dc2d":
					_ = lattice.Collect2(A2, render.NewDualContouring2D(n))
				case "squares-uniform":
					_ = lattice.Collect2(A2, render.NewMarchingSquaresUniform(n))
				default:
					_ = lattice.Collect2(A2, render.NewMarchingSquaresQuadtree(n+3))
				}
				g2 = lineKeys(lattice.Collect2(B2, render.NewMarchingSquaresQuadtree(n)))
				states++
				if a, b := diff(g2, w2); len(a)+len(b) > 0 {
					c.Violation("quadtree|history|after-a-render-by-"+first, fmt.Sprintf("n=%d: a quadtree render right after a %s render of another shape differs from the same render alone in %d/%d segments", n, first, len(a), len(b)), map[string]any{"renderer": "quadtree", "meshCells": n, "first": first})
				}
			}
			for _, first := range []string{"uniform", "octree-other-lattice"} {
				if first == "uniform" {
					_ = render.ToTriangles(A3, render.NewMarchingCubesUniform(n))
				} else {
					_ = render.ToTriangles(A3, render.NewMarchingCubesOctree(n+3))
				}
				got = triKeys(render.ToTriangles(B3, render.NewMarchingCubesOctree(n)), 1)
				states++
				if a, b := diff(got, want); len(a)+len(b) > 0 {
					c.Violation("octree|history|after-a-render-by-"+first, fmt.Sprintf("n=%d: an octree render right after a %s render of another shape differs from the same render alone in %d/%d triangles", n, first, len(a), len(b)), map[string]any{"renderer": "octree", "meshCells": n, "first": first})
				}
			}
		}
	}
	c.Guard("pruning exercised (renders with fewer evaluations than the unpruned render)", nontrivial > 1000, fmt.Sprint(nontrivial))
	c.Guard("pruning at >=2 levels (evaluations < 1/4 of unpruned)", prunedLevels2.Load() > 10, fmt.Sprint(prunedLevels2.Load()))
	c.Guard("tangent instances (disc on a coarse corner) rendered", tangent.Load() > 0, fmt.Sprint(tangent.Load()))
	c.Finish(vlib.Coverage{
		States: states, Transitions: trans, Evaluations: states, Nontrivial: nontrivial,
		Rule:       "states = (solid, position, alignment, size, resolution) tuples, each rendered pruned, unpruned (2^-10 scaled) and by the finest-cell reference; transitions = triangles/segments compared; non-trivial = renders in which pruning skipped evaluations (or, for scenes, produced output)",
		Samples:    samples,
		Exhaustive: true,
		Bounds: map[string]any{"voxel_unions_3d": "all 255 non-empty unions of a 2x2x2 block", "pixel_unions_2d": "all 511 non-empty unions of a 3x3 block", "alignments_cells": aligns, "voxel_sizes_cells": []int{1, 2},
			"window_3d": win3, "window_2d": win2, "meshCells_3d": cells3, "meshCells_2d": cells2},
		Assumptions: []string{"solids are exact (hence 1-Lipschitz, never overestimating) voxel/pixel unions and a finite list of analytic shapes", "multisets are compared bit-exactly; the reference uses the renderer's own per-cell step (export shim) and corner numbering"},
	})
}
