// C11 — nothing written by a renderer is lost, duplicated or reordered before the sink.
// Engine S: the real Triangle3Buffer / Line2Buffer, WriteTriangles and the file writers (sync, channel
// and go statements rewritten onto the controlled scheduler) are driven by scripted producers emitting
// numbered items; every interleaving (P=1: unbounded; P>=2: preemption-bounded) of producers and
// consumer is executed and the delivered sequence / multiset compared with what was written.
package main

import (
	"encoding/binary"
	"fmt"
	"hash/fnv"
	"math"
	"os"
	"path/filepath"
	"sort"

	"github.com/deadsy/sdfx/render"
	"github.com/deadsy/sdfx/sdf"
	v2 "github.com/deadsy/sdfx/vec/v2"
	v3 "github.com/deadsy/sdfx/vec/v3"
	"github.com/deadsy/sdfx/verifrt/vos"
	"github.com/deadsy/sdfx/verifrt/vsync"
	"github.com/hpinc/go3mf"
	"github.com/yofu/dxf"
	"github.com/yofu/dxf/entity"

	"verif/lib/vlib"
)

var work = filepath.Join(vlib.VerifDir, ".work", "c11")

func tri(k int) *sdf.Triangle3 {
	f := float64(k)
	// the item number is the x coordinate; y lies far from the origin (beyond +-2^31 micro-units), every 9th
	// triangle is a sliver with an edge of 1e-7, every 13th lies at y = 0
	if k%9 == 4 {
		return &sdf.Triangle3{{X: f, Y: 5000, Z: 0}, {X: f, Y: 5000 + 1e-7, Z: 0}, {X: f, Y: 5000, Z: 1}}
	}
	if k%13 == 0 { // every 13th triangle lies at y = 0 (item 0 has a corner exactly at the origin)
		return &sdf.Triangle3{{X: f, Y: 0, Z: 0}, {X: f, Y: 1, Z: 0}, {X: f, Y: 0, Z: 1}}
	}
	return &sdf.Triangle3{{X: f, Y: 5000, Z: 0}, {X: f, Y: 5001, Z: 0}, {X: f, Y: 5000, Z: 1}}
}
func line(k int) *sdf.Line2 {
	f := float64(k)
	if k%7 == 3 { // every 7th segment has coincident end points: still an item
		return &sdf.Line2{{X: f, Y: 0}, {X: f, Y: 0}}
	}
	return &sdf.Line2{{X: f, Y: 0}, {X: f, Y: 1}}
}

var poisonT = tri(-1)
var poisonL = line(-1)

// producer3 writes the batches through w, reusing one scratch slice (a writer must copy its input).
func producer3(w sdf.Triangle3Writer, first int, batches []int, scratch []*sdf.Triangle3) {
	k := first
	for _, n := range batches {
		if n < 0 { // Close used as a mid-stream flush: the writer stays usable
			w.Close()
			continue
		}
		for i := 0; i < n; i++ {
			scratch[i] = tri(k)
			k++
		}
		w.Write(scratch[:n])
		for i := 0; i < n; i++ {
			scratch[i] = poisonT
		}
	}
}
func producer2(w sdf.Line2Writer, first int, batches []int, scratch []*sdf.Line2) {
	k := first
	for _, n := range batches {
		if n < 0 {
			w.Close()
			continue
		}
		for i := 0; i < n; i++ {
			scratch[i] = line(k)
			k++
		}
		w.Write(scratch[:n])
		for i := 0; i < n; i++ {
			scratch[i] = poisonL
		}
	}
}

type scripted3 struct{ batches []int }

func (s scripted3) Render(_ sdf.SDF3, out sdf.Triangle3Writer) {
	producer3(out, 0, s.batches, make([]*sdf.Triangle3, 4200))
	out.Close()
}
func (s scripted3) Info(sdf.SDF3) string { return "scripted" }

type scripted2 struct{ batches []int }

func (s scripted2) Render(_ sdf.SDF2, out sdf.Line2Writer) {
	producer2(out, 0, s.batches, make([]*sdf.Line2, 4200))
	out.Close()
}
func (s scripted2) Info(sdf.SDF2) string { return "scripted" }

type dummy3 struct{}

func (dummy3) Evaluate(v3.Vec) float64 { return 1 }
func (dummy3) BoundingBox() sdf.Box3   { return sdf.Box3{Max: v3.Vec{X: 1, Y: 1, Z: 1}} }

type dummy2 struct{}

func (dummy2) Evaluate(v2.Vec) float64 { return 1 }
func (dummy2) BoundingBox() sdf.Box2   { return sdf.Box2{Max: v2.Vec{X: 1, Y: 1}} }

// scenario description (also the replay format)
type scen struct {
	Kind    string  `json:"kind"`    // tbuf, lbuf, totriangles, tostl, tosvg, todxf, to3mf
	Batches [][]int `json:"batches"` // per producer; a negative entry is a Close() used as a mid-stream flush
	Bound   int     `json:"bound"`
	Prefix  []int   `json:"schedule_prefix,omitempty"`
	// Before: batches of an earlier render to the same path in the same execution (file sinks): the sink must
	// hold exactly what the second render wrote
	Before []int `json:"earlier_render_to_the_same_path,omitempty"`
}

func total(b []int) int {
	t := 0
	for _, x := range b {
		if x > 0 {
			t += x
		}
	}
	return t
}

// checkOrder compares a delivered list of item numbers with what P producers wrote.
func checkOrder(got []int, batches [][]int) string {
	P := len(batches)
	first := make([]int, P)
	n := 0
	for p := range batches {
		first[p] = p * 100000
		n += total(batches[p])
	}
	if P == 1 {
		if len(got) != n {
			return fmt.Sprintf("count: %d items delivered, %d written", len(got), n)
		}
		for i, g := range got {
			if g != i {
				return fmt.Sprintf("sequence: position %d holds item %d", i, g)
			}
		}
		return ""
	}
	next := make([]int, P)
	seen := 0
	for _, g := range got {
		p := g / 100000
		if g < 0 || p >= P {
			return fmt.Sprintf("foreign item %d delivered", g)
		}
		k := g - first[p]
		if k != next[p] {
			if k < next[p] {
				return fmt.Sprintf("duplicate: item %d of producer %d delivered again", k, p)
			}
			return fmt.Sprintf("loss-or-reorder: producer %d item %d delivered when %d was expected", p, k, next[p])
		}
		next[p]++
		seen++
	}
	for p := range batches {
		if next[p] != total(batches[p]) {
			return fmt.Sprintf("loss: producer %d delivered %d of %d items", p, next[p], total(batches[p]))
		}
	}
	return ""
}

func classify(msg string) string {
	for _, k := range []string{"count", "sequence", "duplicate", "loss-or-reorder", "loss", "foreign"} {
		if len(msg) >= len(k) && msg[:len(k)] == k {
			return k
		}
	}
	return "other"
}

// body returns the function run under the scheduler and a function extracting the delivered numbers.
func (sc scen) body() (func(), func() ([]int, string)) {
	switch sc.Kind {
	case "tbuf-collector-twice":
		// two collections in a row into ONE slice (two parts into one mesh; round 9): the first half of the batch list,
		// then the second half; the slice holds every item of both, in order
		var tris []*sdf.Triangle3
		return func() {
				tris = nil
				k := len(sc.Batches[0]) / 2
				base := 0
				for _, part := range [][]int{sc.Batches[0][:k], sc.Batches[0][k:]} {
					var cwg vsync.WaitGroup
					out := sdf.WriteTriangles(&cwg, &tris)
					w := sdf.NewTriangle3Buffer(out)
					producer3(w, base, part, make([]*sdf.Triangle3, 4200))
					w.Close()
					out.Close()
					cwg.Wait()
					base += total(part)
				}
			}, func() ([]int, string) {
				var got []int
				for _, t := range tris {
					got = append(got, int(t[0].X))
				}
				return got, ""
			}
	case "tbuf", "tbuf-collector":
		var got []int
		var chunks []int
		var tris []*sdf.Triangle3
		return func() {
				got, chunks, tris = nil, nil, nil
				var cwg vsync.WaitGroup
				var out *vsync.Chan[[]*sdf.Triangle3]
				if sc.Kind == "tbuf-collector" {
					out = sdf.WriteTriangles(&cwg, &tris)
				} else {
					out = vsync.MakeChan[[]*sdf.Triangle3]()
					cwg.Add(1)
					vsync.Go(func() {
						defer cwg.Done()
						for {
							ts, ok := out.Recv2()
							if !ok {
								return
							}
							chunks = append(chunks, len(ts))
							for _, t := range ts {
								got = append(got, int(t[0].X))
							}
						}
					})
				}
				w := sdf.NewTriangle3Buffer(out)
				if len(sc.Batches) == 1 {
					producer3(w, 0, sc.Batches[0], make([]*sdf.Triangle3, 4200))
				} else {
					var pwg vsync.WaitGroup
					for p := range sc.Batches {
						p := p
						pwg.Add(1)
						vsync.Go(func() {
							defer pwg.Done()
							producer3(w, p*100000, sc.Batches[p], make([]*sdf.Triangle3, 4200))
						})
					}
					pwg.Wait()
				}
				w.Close()
				out.Close()
				cwg.Wait()
			}, func() ([]int, string) {
				if sc.Kind == "tbuf-collector" {
					got = nil
					for _, t := range tris {
						got = append(got, int(t[0].X))
					}
				}
				return got, fmt.Sprint(chunks)
			}
	case "lbuf":
		var got []int
		var chunks []int
		return func() {
			got, chunks = nil, nil
			var cwg vsync.WaitGroup
			out := vsync.MakeChan[[]*sdf.Line2]()
			cwg.Add(1)
			vsync.Go(func() {
				defer cwg.Done()
				for {
					ls, ok := out.Recv2()
					if !ok {
						return
					}
					chunks = append(chunks, len(ls))
					for _, l := range ls {
						got = append(got, int(l[0].X))
					}
				}
			})
			w := sdf.NewLine2Buffer(out)
			if len(sc.Batches) == 1 {
				producer2(w, 0, sc.Batches[0], make([]*sdf.Line2, 4200))
			} else {
				var pwg vsync.WaitGroup
				for p := range sc.Batches {
					p := p
					pwg.Add(1)
					vsync.Go(func() {
						defer pwg.Done()
						producer2(w, p*100000, sc.Batches[p], make([]*sdf.Line2, 4200))
					})
				}
				pwg.Wait()
			}
			w.Close()
			out.Close()
			cwg.Wait()
		}, func() ([]int, string) { return got, fmt.Sprint(chunks) }
	case "totriangles":
		var ts []*sdf.Triangle3
		return func() { ts = render.ToTriangles(dummy3{}, scripted3{sc.Batches[0]}) }, func() ([]int, string) {
			var got []int
			for _, t := range ts {
				got = append(got, int(t[0].X))
			}
			return got, ""
		}
	case "tostl", "savestl":
		return func() {
				vos.Reset(nil)
				if len(sc.Before) > 0 {
					render.ToSTL(dummy3{}, "out.stl", scripted3{sc.Before})
				}
				if sc.Kind == "savestl" {
					// the batch writer of the format (round 9): the whole list in one call
					ts := make([]*sdf.Triangle3, total(sc.Batches[0]))
					for i := range ts {
						ts[i] = tri(i)
					}
					render.SaveSTL("out.stl", ts)
					return
				}
				render.ToSTL(dummy3{}, "out.stl", scripted3{sc.Batches[0]})
			}, func() ([]int, string) {
				d := vos.Files["out.stl"]
				if d == nil {
					return nil, "no file"
				}
				b := d.B
				if len(b) < 84 {
					return nil, fmt.Sprintf("file has %d bytes", len(b))
				}
				cnt := int(binary.LittleEndian.Uint32(b[80:84]))
				info := ""
				if len(b) != 84+50*cnt {
					info = fmt.Sprintf("count field %d but file length %d", cnt, len(b))
				}
				var got []int
				for i := 0; 84+50*(i+1) <= len(b); i++ {
					x := math.Float32frombits(binary.LittleEndian.Uint32(b[84+50*i+12:]))
					k := int(x)
					want := tri(k)
					for q := 0; q < 3; q++ {
						for a, w := range []float64{want[q].X, want[q].Y, want[q].Z} {
							if float64(math.Float32frombits(binary.LittleEndian.Uint32(b[84+50*i+12+12*q+4*a:]))) != float64(float32(w)) {
								k = -2
							}
						}
					}
					got = append(got, k)
				}
				if cnt != len(got) && info == "" {
					info = fmt.Sprintf("count field %d but %d records", cnt, len(got))
				}
				return got, info
			}
	case "tosvg":
		return func() {
				vos.Reset(nil)
				if len(sc.Before) > 0 {
					render.ToSVG(dummy2{}, "out.svg", scripted2{sc.Before})
				}
				render.ToSVG(dummy2{}, "out.svg", scripted2{sc.Batches[0]})
			}, func() ([]int, string) {
				d := vos.Files["out.svg"]
				if d == nil {
					return nil, "no file"
				}
				// <line x1=".." y1=".." ...: item number is x1 (min x is 0 => no shift when item 0 exists)
				var got []int
				s := string(d.B)
				for {
					i := indexOf(s, "<line x1=\"")
					if i < 0 {
						break
					}
					s = s[i+10:]
					var x float64
					fmt.Sscanf(s, "%f", &x)
					got = append(got, int(math.Round(x)))
				}
				return got, ""
			}
	case "svg-object":
		// the exported SVG drawing object used as a sink by the caller: each batch is added line by line and followed
		// by Save(); the drawing accumulates, so the file after the last Save holds every line added so far, in order
		return func() {
				vos.Reset(nil)
				o := render.NewSVG("obj.svg", "fill:none;stroke:black;stroke-width:0.1")
				k := 0
				for _, n := range sc.Batches[0] {
					for i := 0; i < n; i++ {
						l := line(k)
						o.Line(l[0], l[1])
						k++
					}
					o.Save()
				}
			}, func() ([]int, string) {
				d := vos.Files["obj.svg"]
				if d == nil {
					return nil, "no file"
				}
				var got []int
				s := string(d.B)
				for {
					i := indexOf(s, "<line x1=\"")
					if i < 0 {
						break
					}
					s = s[i+10:]
					var x float64
					fmt.Sscanf(s, "%f", &x)
					got = append(got, int(math.Round(x)))
				}
				return got, ""
			}
	case "to3mf":
		// 3MF and DXF are written to the real file system by the writer goroutine (their libraries take a
		// path); the file is decoded with the independent readers after every execution
		path := filepath.Join(work, fmt.Sprintf("p%d.3mf", os.Getpid()))
		return func() {
				os.Remove(path)
				if len(sc.Before) > 0 {
					render.To3MF(dummy3{}, path, scripted3{sc.Before})
				}
				render.To3MF(dummy3{}, path, scripted3{sc.Batches[0]})
			}, func() ([]int, string) {
				r, err := go3mf.OpenReader(path)
				if err != nil {
					return nil, "unreadable: " + err.Error()
				}
				defer r.Close()
				var m go3mf.Model
				if err := r.Decode(&m); err != nil {
					return nil, "does not decode: " + err.Error()
				}
				if len(m.Resources.Objects) != 1 || m.Resources.Objects[0].Mesh == nil {
					return nil, fmt.Sprintf("%d objects", len(m.Resources.Objects))
				}
				mesh := m.Resources.Objects[0].Mesh
				var got []int
				for _, t := range mesh.Triangles.Triangle {
					if int(t.V1) >= len(mesh.Vertices.Vertex) {
						return nil, "vertex index out of range"
					}
					if int(t.V2) >= len(mesh.Vertices.Vertex) || int(t.V3) >= len(mesh.Vertices.Vertex) {
						return nil, "vertex index out of range"
					}
					// the item number is accepted only if all three corners are those of that item
					k := int(math.Round(float64(mesh.Vertices.Vertex[t.V1].X())))
					want := tri(k)
					for q, vi := range []uint32{t.V1, t.V2, t.V3} {
						v := mesh.Vertices.Vertex[vi]
						if math.Abs(float64(v.X())-want[q].X) > 1e-4 || math.Abs(float64(v.Y())-want[q].Y) > 1e-4 || math.Abs(float64(v.Z())-want[q].Z) > 1e-4 {
							k = -2
						}
					}
					got = append(got, k)
				}
				return got, ""
			}
	case "todxf":
		path := filepath.Join(work, fmt.Sprintf("p%d.dxf", os.Getpid()))
		return func() {
				os.Remove(path)
				if len(sc.Before) > 0 {
					render.ToDXF(dummy2{}, path, scripted2{sc.Before})
				}
				render.ToDXF(dummy2{}, path, scripted2{sc.Batches[0]})
			}, func() ([]int, string) {
				d, err := dxf.FromFile(path)
				if err != nil {
					return nil, "unreadable: " + err.Error()
				}
				var got []int
				for _, e := range d.Entities() {
					ln, ok := e.(*entity.Line)
					if !ok {
						return nil, fmt.Sprintf("foreign entity %T", e)
					}
					k := int(math.Round(ln.Start[0]))
					want := line(k)
					if len(ln.Start) < 2 || len(ln.End) < 2 || ln.Start[0] != want[0].X || ln.Start[1] != want[0].Y || ln.End[0] != want[1].X || ln.End[1] != want[1].Y {
						k = -2
					}
					got = append(got, k)
				}
				return got, ""
			}
	}
	panic("unknown scenario kind " + sc.Kind)
}

func indexOf(s, sub string) int {
	for i := 0; i+len(sub) <= len(s); i++ {
		if s[i:i+len(sub)] == sub {
			return i
		}
	}
	return -1
}

func runScenario(c *vlib.Ctx, sc scen, j *vlib.Job) {
	body, result := sc.body()
	n := 0
	for _, b := range sc.Batches {
		n += total(b)
	}
	outcomes := map[string]bool{}
	// every distinct (fault set, delivered sequence, chunking) observed: compared below with an exploration
	// that does not use happens-before state hashing
	observed := map[string]bool{}
	obsKey := func(x *vsync.Execution, got []int, info string) string {
		h := fnv.New64a()
		for _, g := range got {
			fmt.Fprintf(h, "%d,", g)
		}
		return fmt.Sprintf("%v|%s|%d|%x", x.Faults, info, x.Leaked, h.Sum64())
	}
	st := vsync.ExploreAll(vsync.Options{Bound: sc.Bound, Stop: c.Expired, Prune: true}, body, func(x *vsync.Execution, prefix []int) bool {
		got, info := result()
		observed[obsKey(x, got, info)] = true
		rep := func() scen {
			r := sc
			r.Prefix = append([]int{}, x.Choices...)
			return r
		}
		for _, f := range x.Faults {
			kind := "fault"
			if x.Deadlock {
				kind = "deadlock"
			}
			j.Violation(sc.Kind+"|"+kind, fmt.Sprintf("%s batches %v: %s", sc.Kind, sc.Batches, f), rep())
		}
		if len(x.Faults) == 0 {
			if msg := checkOrder(got, sc.Batches); msg != "" {
				j.Violation(sc.Kind+"|"+classify(msg)+fmt.Sprintf("|producers=%d", len(sc.Batches)), fmt.Sprintf("%s batches %v: %s", sc.Kind, sc.Batches, msg), rep())
			}
			if (sc.Kind == "to3mf" || sc.Kind == "todxf") && info != "" {
				j.Violation(sc.Kind+"|file-unreadable-or-malformed", fmt.Sprintf("%s batches %v: %s", sc.Kind, sc.Batches, info), rep())
			}
			if sc.Kind == "tostl" && info != "" {
				j.Violation("tostl|count-field-or-length", fmt.Sprintf("tostl batches %v: %s", sc.Batches, info), rep())
			}
			if x.Leaked > 0 {
				j.Violation(sc.Kind+"|goroutine-left-behind", fmt.Sprintf("%s batches %v: %d threads still parked after return: %v", sc.Kind, sc.Batches, x.Leaked, x.LeakedOps), rep())
			}
		}
		if sc.Kind == "tbuf" || sc.Kind == "lbuf" {
			outcomes[info] = true
		}
		return true
	})
	if st.NonDetermin != "" {
		j.HarnessError("%s %v: %s", sc.Kind, sc.Batches, st.NonDetermin)
	}
	j.States += st.Executions
	j.Transitions += st.Steps
	j.Count("executions", st.Executions)
	j.Count("pruned-executions", st.Pruned)
	j.Count("executions-with-choice", st.WithChoice)
	j.Count("distinct-traces", int64(len(st.Distinct)))
	j.Count("scenarios", 1)
	j.Max("choice-points", int64(st.MaxPoints))
	j.Max("preemptions", int64(st.MaxPreempt))
	if st.Capped {
		j.Capped = true
	}
	for o := range outcomes {
		j.Count("chunking:"+sc.Kind+":"+o, 1)
	}
	// cross-check of the pruning on scenarios small enough to enumerate without it: the same exploration
	// with state hashing off must observe exactly the same set of outcomes
	if n <= 8 && !st.Capped && st.Pruned > 0 {
		plain := map[string]bool{}
		st2 := vsync.ExploreAll(vsync.Options{Bound: sc.Bound, Stop: c.Expired, MaxExec: 40000}, body, func(x *vsync.Execution, prefix []int) bool {
			got, info := result()
			plain[obsKey(x, got, info)] = true
			return true
		})
		if !st2.Capped {
			same := len(plain) == len(observed)
			for k := range plain {
				if !observed[k] {
					same = false
				}
			}
			if !same {
				j.HarnessError("%s %v: exploration with happens-before state hashing observed %d distinct outcomes, without it %d", sc.Kind, sc.Batches, len(observed), len(plain))
			}
			j.Count("pruning-crosschecked-scenarios", 1)
			j.Count("pruning-crosscheck-executions-unpruned", st2.Executions)
			j.Count("pruning-crosscheck-executions-pruned", st.Executions)
			if len(sc.Batches) > 1 {
				j.Count("pruning-crosschecked-multi-producer-scenarios", 1)
			}
			if len(plain) > 1 {
				j.Count("pruning-crosschecked-scenarios-with-several-outcomes", 1)
			}
		}
	}
	if len(sc.Batches) > 1 {
		j.Count("multi-producer-executions", st.Executions)
	}
}

func main() {
	c := vlib.Start("C11")
	os.MkdirAll(work, 0o755)
	if c.Replay != "" {
		var sc scen
		if err := c.LoadReplay(&sc); err != nil {
			fmt.Fprintln(vlib.Out, "cannot load replay:", err)
			return
		}
		body, result := sc.body()
		x := vsync.RunOnce(sc.Prefix, true, body)
		got, info := result()
		fmt.Fprintf(vlib.Out, "replay %s %v: faults=%v deadlock=%v order=%q info=%q\ntrace:\n", sc.Kind, sc.Batches, x.Faults, x.Deadlock, checkOrder(got, sc.Batches), info)
		for _, t := range x.Trace {
			fmt.Fprintln(vlib.Out, " ", t)
		}
		return
	}
	const T, L = 256, 128 // nominal thresholds; the guard below checks both sides were exercised
	var scens []scen
	menu := func(t int) []int { return []int{0, 1, 2, 5, t - 1, t, t + 1, 2*t - 1, 2 * t, 2*t + 3} }
	seqs := func(m []int, maxLen int) [][]int {
		out := [][]int{{}}
		var rec func(cur []int)
		rec = func(cur []int) {
			if len(cur) > 0 {
				out = append(out, append([]int{}, cur...))
			}
			if len(cur) == maxLen {
				return
			}
			for _, x := range m {
				rec(append(cur, x))
			}
		}
		rec(nil)
		return out
	}
	maxLen := vlib.Pick(c, 3, 5)
	for _, s := range seqs(menu(T), maxLen) {
		scens = append(scens, scen{Kind: "tbuf", Batches: [][]int{s}, Bound: -1})
	}
	for _, s := range seqs(menu(L), maxLen) {
		scens = append(scens, scen{Kind: "lbuf", Batches: [][]int{s}, Bound: -1})
	}
	// Close in the middle of the stream (a flush; e.g. one writer handed to two Render calls in turn): the
	// writer must stay usable and nothing already delivered may be delivered again
	hasClose := func(s []int) bool {
		for _, x := range s {
			if x < 0 {
				return true
			}
		}
		return false
	}
	for _, s := range seqs([]int{-1, 1, 5, T - 1, T, T + 1}, maxLen+1) {
		if hasClose(s) && total(s) > 0 {
			scens = append(scens, scen{Kind: "tbuf", Batches: [][]int{s}, Bound: -1})
		}
	}
	for _, s := range seqs([]int{-1, 1, 5, L - 1, L, L + 1}, maxLen+1) {
		if hasClose(s) && total(s) > 0 {
			scens = append(scens, scen{Kind: "lbuf", Batches: [][]int{s}, Bound: -1})
		}
	}
	// sinks: the real collector and file writers, single producer
	sinkSeqs := seqs([]int{0, 1, T - 1, T, T + 1, 2*T + 3}, vlib.Pick(c, 2, 3))
	for _, s := range sinkSeqs {
		scens = append(scens, scen{Kind: "tbuf-collector", Batches: [][]int{s}, Bound: -1}, scen{Kind: "totriangles", Batches: [][]int{s}, Bound: -1}, scen{Kind: "tostl", Batches: [][]int{s}, Bound: -1})
	}
	for _, s := range seqs([]int{1, L - 1, L, L + 1, 2*L + 3}, 2) {
		if total(s) > 0 {
			scens = append(scens, scen{Kind: "tosvg", Batches: [][]int{s}, Bound: -1})
		}
	}
	for _, s := range seqs([]int{0, 1, T - 1, T, T + 1, 2*T + 3}, 2) {
		scens = append(scens, scen{Kind: "to3mf", Batches: [][]int{s}, Bound: -1})
	}
	for _, s := range seqs([]int{1, 2, 5, L + 1}, 3) {
		if total(s) > 0 {
			scens = append(scens, scen{Kind: "svg-object", Batches: [][]int{s}, Bound: -1})
		}
	}
	for _, s := range seqs([]int{0, 1, L - 1, L, L + 1, 2*L + 3}, 2) {
		scens = append(scens, scen{Kind: "todxf", Batches: [][]int{s}, Bound: -1})
	}
	// every total up to a bound through the STL writer (round 8: a block-wise writer that loses its last block
	// when the total is a multiple of a block size unrelated to the buffer threshold), as one batch and in batches of 100
	for n := 1; n <= vlib.Pick(c, 1400, 4100); n++ {
		scens = append(scens, scen{Kind: "tostl", Batches: [][]int{{n}}, Bound: -1})
		if n%5 == 0 && n > 100 {
			var bs []int
			for left := n; left > 0; left -= 100 {
				bs = append(bs, min(left, 100))
			}
			scens = append(scens, scen{Kind: "tostl", Batches: [][]int{bs}, Bound: -1})
		}
	}
	// every total up to the same bound through the SVG writer (the drawing object keeps its lines in slices of its own)
	for n := 1; n <= vlib.Pick(c, 1400, 4100); n++ {
		if n <= 300 || n%7 == 0 || (n&(n-1)) == 0 || ((n-1)&(n-2)) == 0 {
			scens = append(scens, scen{Kind: "tosvg", Batches: [][]int{{n}}, Bound: -1})
		}
	}
	for _, n := range []int{0, 1, 2, 5, T - 1, T, T + 1, 2*T - 1, 2 * T, 2*T + 3, 1000, 1310, 4096} {
		scens = append(scens, scen{Kind: "savestl", Batches: [][]int{{n}}, Bound: -1}, scen{Kind: "savestl", Batches: [][]int{{n}}, Before: []int{300}, Bound: -1})
	}
	for _, sq := range seqs([]int{0, 1, 5, T}, 3) {
		if len(sq) >= 2 {
			scens = append(scens, scen{Kind: "tbuf-collector-twice", Batches: [][]int{sq}, Bound: -1})
		}
	}
	// a longer render to the same path first: the sink must hold exactly the second render
	for _, k := range []string{"tostl", "tosvg", "to3mf", "todxf"} {
		for _, before := range [][]int{{300}, {5}} {
			for _, now := range [][]int{{0}, {1}, {7}, {130, 3}} {
				if k == "tosvg" && total(now) == 0 {
					continue
				}
				scens = append(scens, scen{Kind: k, Batches: [][]int{now}, Before: before, Bound: -1})
			}
		}
	}
	// multi-producer
	pm := func(t int) [][]int {
		m := [][]int{{1}, {t - 1}, {t}, {t + 1}, {1, t}, {t - 1, 2}, {t, t}}
		if c.Thorough() {
			m = append(m, []int{0, t}, []int{2, t - 2, 1}, []int{t + 1, t - 1}, []int{2*t + 3}, []int{1, 1, 1})
		}
		return m
	}
	bound := -1 // unbounded: every interleaving (with happens-before state pruning)
	for _, a := range pm(T) {
		for _, b := range pm(T) {
			scens = append(scens, scen{Kind: "tbuf", Batches: [][]int{a, b}, Bound: bound})
		}
	}
	for _, a := range pm(L) {
		for _, b := range pm(L) {
			scens = append(scens, scen{Kind: "lbuf", Batches: [][]int{a, b}, Bound: bound})
		}
	}
	b3 := vlib.Pick(c, 3, -1)
	p3a, p3b, p3d := [][]int{{T}, {T - 1, 2}, {1}}, [][]int{{T}, {2}}, [][]int{{T + 1}, {1}}
	if c.Thorough() {
		p3a, p3b, p3d = append(p3a, []int{1, T}), append(p3b, []int{T - 1, 1}), append(p3d, []int{T, 1})
	}
	for _, a := range p3a {
		for _, b := range p3b {
			for _, d := range p3d {
				scens = append(scens, scen{Kind: "tbuf", Batches: [][]int{a, b, d}, Bound: b3}, scen{Kind: "tbuf-collector", Batches: [][]int{a, b, d}, Bound: b3})
			}
		}
	}
	for _, a := range pm(T) {
		for _, b := range pm(T) {
			scens = append(scens, scen{Kind: "tbuf-collector", Batches: [][]int{a, b}, Bound: bound})
		}
	}
	if c.Thorough() {
		// four producers, at most 2 preemptions: both buffers and the collector
		for _, a := range [][]int{{T}, {T - 1, 2}} {
			for _, d := range [][]int{{1}, {T + 1}} {
				scens = append(scens, scen{Kind: "tbuf", Batches: [][]int{a, {T}, d, {2}}, Bound: 2}, scen{Kind: "tbuf-collector", Batches: [][]int{a, {T}, d, {2}}, Bound: 2},
					scen{Kind: "lbuf", Batches: [][]int{{L}, a[:1], d, {2}}, Bound: 2})
			}
		}
	}
	sort.SliceStable(scens, func(i, k int) bool { return len(scens[i].Batches) < len(scens[k].Batches) })
	m := c.RunSharded(len(scens), func(i int, j *vlib.Job) {
		runScenario(c, scens[i], j)
		if i%97 == 0 {
			j.Samples = append(j.Samples, scens[i])
		}
	})
	// guards: both sides of the flush threshold, Close with and without remainder
	var flushInWrite, closeFlush, closeEmpty bool
	for k := range m.Counters {
		if len(k) > 9 && k[:9] == "chunking:" {
			// chunk lists like [256 1]: a chunk of exactly 256/128 (or more) means a flush inside Write
			if indexOf(k, "[256") >= 0 || indexOf(k, "[128") >= 0 || indexOf(k, " 256") >= 0 || indexOf(k, " 128") >= 0 {
				flushInWrite = true
			}
			if indexOf(k, " 1]") >= 0 || indexOf(k, "[1]") >= 0 || indexOf(k, " 2]") >= 0 {
				closeFlush = true
			}
			if indexOf(k, ":[]") >= 0 || indexOf(k, ":[256]") >= 0 || indexOf(k, ":[128]") >= 0 {
				closeEmpty = true
			}
		}
	}
	c.Guard("buffer flushed inside Write in some execution", flushInWrite, "")
	c.Guard("Close flushed a remainder in some execution", closeFlush, "")
	c.Guard("Close found an empty buffer in some execution", closeEmpty, "")
	c.Guard("schedules with >=2 enabled threads explored", m.Counters["executions-with-choice"] > 1000, fmt.Sprint(m.Counters["executions-with-choice"]))
	c.Guard("pruning cross-checked against unpruned exploration on small scenarios (>= 20, >= 3 with several producers)", m.Counters["pruning-crosschecked-scenarios"] >= 20 && m.Counters["pruning-crosschecked-multi-producer-scenarios"] >= 3,
		fmt.Sprintf("%d scenarios (%d multi-producer, %d with several distinct outcomes): %d unpruned vs %d pruned executions", m.Counters["pruning-crosschecked-scenarios"], m.Counters["pruning-crosschecked-multi-producer-scenarios"], m.Counters["pruning-crosschecked-scenarios-with-several-outcomes"], m.Counters["pruning-crosscheck-executions-unpruned"], m.Counters["pruning-crosscheck-executions-pruned"]))
	c.Guard("multi-producer executions", m.Counters["multi-producer-executions"] > 1000, fmt.Sprint(m.Counters["multi-producer-executions"]))
	samples := m.Samples
	if len(samples) == 0 {
		samples = []any{scens[0]}
	}
	c.Finish(vlib.Coverage{
		States: m.States, Transitions: m.Transitions, Evaluations: m.States, Nontrivial: m.Counters["distinct-traces"],
		Rule:       "states = complete executions of the real buffer/collector/writer code under the controlled scheduler (one per explored schedule); transitions = scheduler steps (visible sync operations); non-trivial = distinct operation traces (schedules that differ in the order of visible operations)",
		Samples:    samples,
		Exhaustive: true,
		Bounds: map[string]any{"batch_menu": "0,1,2,5,T-1,T,T+1,2T-1,2T,2T+3 (T=256 triangles / 128 lines)", "writes_per_producer": maxLen, "producers": "1 and 2: all interleavings (unbounded, happens-before state pruning); 3: <= 3 preemptions (thorough: unbounded); thorough also 4 producers with <= 2 preemptions",
			"sinks": "own consumer, sdf.WriteTriangles, render.ToTriangles, render.ToSTL (vos), render.ToSVG (vos)", "scenarios": len(scens)},
		Extra: map[string]any{"counters": m.Counters},
		Assumptions: []string{"interleavings at synchronisation operations (mutex, channel, waitgroup, go) of the rewritten files; vrewrite refuses constructs it does not model", "producers reuse one scratch slice and poison it after Write returns (a writer must copy)",
			"3MF and DXF sinks are covered by C15 (content) and C12 (termination); here the in-memory sinks are explored exhaustively"},
	})
}
