// C14 — the STL loader is total: error or mesh, never a panic, hang or disproportionate allocation.
// Exhaustive over (a) every sequence of <= k lines from a 12-line ASCII alphabet and (b) every binary
// file length 0..235 x header-count menu (incl. counts that are consistent with the length only modulo
// 2^32 / 2^31) x fill pattern, (c) every truncation of valid files.  Runs in a worker subprocess with an
// address-space limit so that a fatal out-of-memory is observed as a violation, not as a dead check.
package main

import (
	"bytes"
	"encoding/binary"
	"encoding/json"
	"fmt"
	"math"
	"os"
	"os/exec"
	"path/filepath"
	"runtime"
	"runtime/debug"
	"strings"
	"sync/atomic"
	"syscall"
	"time"

	"github.com/deadsy/sdfx/obj"
	"github.com/deadsy/sdfx/render"
	"github.com/deadsy/sdfx/sdf"

	"verif/lib/vlib"
)

var work = filepath.Join(vlib.VerifDir, ".work", "c14")

type result struct {
	panicked bool
	site     string
	msg      string
	n        int
	err      error
	nilTri   bool
}

func site(stack string) string {
	// first frame that belongs to the sdfx module
	for _, l := range strings.Split(stack, "\n") {
		if strings.HasPrefix(l, "github.com/deadsy/sdfx/") {
			l = strings.TrimPrefix(l, "github.com/deadsy/sdfx/")
			if i := strings.Index(l, "("); i > 0 {
				l = l[:i]
			}
			return l
		}
	}
	return "unknown"
}

func panicKind(v any) string {
	s := fmt.Sprint(v)
	switch {
	case strings.Contains(s, "index out of range"):
		return "index-out-of-range"
	case strings.Contains(s, "slice bounds"):
		return "slice-bounds"
	case strings.Contains(s, "nil pointer"):
		return "nil-pointer"
	case strings.Contains(s, "makeslice"), strings.Contains(s, "out of memory"):
		return "allocation"
	}
	if len(s) > 40 {
		s = s[:40]
	}
	return s
}

func load(path string) (r result) {
	defer func() {
		if v := recover(); v != nil {
			r.panicked = true
			r.site = site(string(debug.Stack()))
			r.msg = panicKind(v)
		}
	}()
	mesh, err := render.LoadSTL(path)
	r.err = err
	r.n = len(mesh)
	if err == nil {
		for _, t := range mesh {
			if t == nil {
				r.nilTri = true
			}
		}
	}
	return
}

func importSTL(path string) (r result) {
	defer func() {
		if v := recover(); v != nil {
			r.panicked = true
			r.site = site(string(debug.Stack()))
			r.msg = panicKind(v)
		}
	}()
	s, err := obj.ImportSTL(path, 20, 3, 5)
	r.err = err
	if err == nil && s != nil {
		_ = s.BoundingBox()
	}
	return
}

// run one file through both entry points with a watchdog; key prefix identifies the alphabet part.
func (w *worker) one(c *vlib.Ctx, path string, content []byte, desc map[string]any, class string, measure bool) (r result) {
	if w.hung[class] {
		return // a call of this class is still blocked inside the loader: one report per class, no further 60 s waits
	}
	if err := os.WriteFile(path, content, 0o644); err != nil {
		c.HarnessError("cannot write scratch file: %v", err)
		return
	}
	if measure {
		b, _ := json.Marshal(desc)
		os.WriteFile(filepath.Join(work, "current.json"), b, 0o644)
	}
	var before runtime.MemStats
	if measure {
		runtime.ReadMemStats(&before)
	}
	done := make(chan result, 1)
	t0 := time.Now()
	go func() { done <- load(path) }()
	select {
	case r = <-done:
	case <-time.After(60 * time.Second):
		c.Violation("LoadSTL|did-not-return-within-60s|"+class, "LoadSTL did not return within 60 s on a file of "+fmt.Sprint(len(content))+" bytes", desc)
		if w.hung == nil {
			w.hung = map[string]bool{}
		}
		w.hung[class] = true
		return
	}
	_ = t0
	if measure {
		var after runtime.MemStats
		runtime.ReadMemStats(&after)
		delta := after.TotalAlloc - before.TotalAlloc
		if delta > uint64(64*len(content))+(1<<20) {
			c.Violation("LoadSTL|allocation-out-of-proportion|"+class, fmt.Sprintf("LoadSTL allocated %d bytes for a %d-byte file", delta, len(content)), desc)
		}
		if delta > w.maxAlloc {
			w.maxAlloc = delta
		}
	}
	if r.panicked {
		c.Violation("LoadSTL|panic|"+r.site+"|"+r.msg, fmt.Sprintf("LoadSTL panicked (%s in %s)", r.msg, r.site), desc)
	} else if r.err == nil && r.nilTri {
		c.Violation("LoadSTL|nil-triangle-in-mesh|"+class, "LoadSTL returned a mesh containing a nil triangle", desc)
	}
	switch {
	case r.panicked:
		w.outcomes.Add("panic", 1)
	case r.err != nil:
		w.outcomes.Add("error", 1)
	case r.n == 0:
		w.outcomes.Add("empty-mesh", 1)
	default:
		w.outcomes.Add("mesh", 1)
	}
	if !r.panicked {
		r2 := importSTL(path)
		if r2.panicked {
			r.panicked = true
			// obj.ImportSTL is the second entry point of the loader: it must return an error or a shape too
			where := "in the loader"
			if !strings.HasPrefix(r2.site, "render.") {
				where = "after the loader returned"
			}
			c.Violation("ImportSTL|panic|"+r2.site+"|"+r2.msg, fmt.Sprintf("obj.ImportSTL panicked %s (%s in %s)", where, r2.msg, r2.site), desc)
		}
	}
	return r
}

type worker struct {
	outcomes *vlib.Counter
	maxAlloc uint64
	hung     map[string]bool
}

var alphabet = []string{
	"solid s", "facet normal 0 0 1", "outer loop", "vertex 1 2 3", "vertex 1 2", "vertex 1 2 3 4",
	"vertex a 2 3", "vertex 1e999 0 0", "endloop", "endfacet", "endsolid s", "",
}

const pad = "# padding so that the file is at least eighty-four bytes long and reaches the ascii parser ....\n"

func workerMain() {
	// address-space limit: a runaway allocation becomes a fatal error the parent observes
	lim := syscall.Rlimit{Cur: 12 << 30, Max: 12 << 30}
	syscall.Setrlimit(syscall.RLIMIT_AS, &lim)
	c := vlib.Start("C14")
	os.MkdirAll(work, 0o755)
	w := &worker{outcomes: vlib.NewCounter()}
	var states, trans int64
	samples := []any{}

	// ---- (b) binary: every length x count menu x fill, sequential with allocation measurement
	maxLen := 84 + 50*3 + 1
	fills := []struct {
		name string
		f    func(i int) byte
	}{{"zero", func(int) byte { return 0 }}, {"ff", func(int) byte { return 0xff }},
		{"solid-text", func(i int) byte { return "solid x\nvertex 1 2 3\n"[i%21] }}, {"float-1.0", func(i int) byte { return []byte{0, 0, 0x80, 0x3f}[i%4] }}}
	var binFiles int64
	for L := 0; L <= maxLen; L++ {
		counts := map[uint32]bool{0: true, 1: true, 2: true, 3: true, 4: true, 1 << 31: true, math.MaxUint32: true, 1 << 16: true, 85899346: true}
		if L >= 84 {
			k := uint32((L - 84) / 50)
			counts[k], counts[k+1] = true, true
			if k > 0 {
				counts[k-1] = true
			}
			// counts consistent with L only modulo 2^32 or 2^31 (what a 32-bit size computation would accept)
			for _, mod := range []uint64{1 << 32, 1 << 31} {
				for m := uint64(1); m <= 50; m++ {
					num := uint64(L-84) + m*mod
					if num%50 == 0 && num/50 <= math.MaxUint32 {
						counts[uint32(num/50)] = true
					}
				}
			}
		}
		for cnt := range counts {
			for _, fl := range fills {
				b := make([]byte, L)
				for i := range b {
					b[i] = fl.f(i)
				}
				if L >= 84 {
					binary.LittleEndian.PutUint32(b[80:84], cnt)
				}
				desc := map[string]any{"kind": "binary", "length": L, "header_count": cnt, "fill": fl.name}
				consistent := "inconsistent-count"
				if int64(L) == 84+50*int64(cnt) {
					consistent = "consistent-count"
				}
				w.one(c, filepath.Join(work, "bin.stl"), b, desc, "binary-"+consistent, true)
				binFiles++
			}
		}
	}
	states += binFiles
	trans += binFiles * 2
	samples = append(samples, map[string]any{"kind": "binary", "length": 88, "header_count": 85899346, "fill": "zero", "why": "84+50*count == 88 modulo 2^32"})

	// ---- (c) every truncation / over-long variant of a valid 3-triangle binary file and of an ASCII file
	valid := new(bytes.Buffer)
	valid.Write(make([]byte, 80))
	binary.Write(valid, binary.LittleEndian, uint32(3))
	for i := 0; i < 3; i++ {
		binary.Write(valid, binary.LittleEndian, [12]float32{0, 0, 1, float32(i), 0, 0, 1, 0, 0, 0, 1, 0})
		valid.Write([]byte{0, 0})
	}
	vb := valid.Bytes()
	for n := 0; n <= len(vb)+3; n++ {
		b := append([]byte{}, vb[:min(n, len(vb))]...)
		for len(b) < n {
			b = append(b, 0x20)
		}
		w.one(c, filepath.Join(work, "bin.stl"), b, map[string]any{"kind": "truncated-valid-binary", "keep_bytes": n}, "truncated-binary", true)
		states++
		trans += 2
	}
	asc := "solid t\n"
	for i := 0; i < 3; i++ {
		asc += fmt.Sprintf(" facet normal 0 0 1\n  outer loop\n   vertex %d 0 0\n   vertex 1 0 0\n   vertex 0 1e0 0\n  endloop\n endfacet\n", i)
	}
	asc += "endsolid t\n"
	for n := 0; n <= len(asc); n++ {
		w.one(c, filepath.Join(work, "bin.stl"), []byte(asc[:n]), map[string]any{"kind": "truncated-valid-ascii", "keep_bytes": n}, "truncated-ascii", true)
		states++
		trans += 2
	}
	// ---- (d) well-formed files of 8 and 20 triangles in which one coordinate is non-finite or extreme, at every
	// triangle position (a mesh large enough for the spatial index of obj.ImportSTL to have split)
	badF := []struct {
		name string
		bits uint32
		txt  string
	}{{"NaN", 0x7fc00000, "nan"}, {"+Inf", 0x7f800000, "inf"}, {"-Inf", 0xff800000, "-Inf"}, {"3e38", math.Float32bits(3e38), "1e308"}, {"1e-45", 1, "1e-320"}, {"-0", 0x80000000, "-0"}}
	for _, nt := range []int{8, 20} {
		for pos := 0; pos < nt; pos++ {
			for _, bf := range badF {
				for _, slot := range []int{3, 7, 11} { // x of the first, y of the second, z of the third vertex
					fb := new(bytes.Buffer)
					fb.Write(make([]byte, 80))
					binary.Write(fb, binary.LittleEndian, uint32(nt))
					for i := 0; i < nt; i++ {
						rec := [12]float32{0, 0, 1, float32(i), 0, 0, float32(i) + 1, 0, 0.5, float32(i), 1, 0.25}
						bits := [12]uint32{}
						for q, v := range rec {
							bits[q] = math.Float32bits(v)
						}
						if i == pos {
							bits[slot] = bf.bits
						}
						binary.Write(fb, binary.LittleEndian, bits)
						fb.Write([]byte{0, 0})
					}
					w.one(c, filepath.Join(work, "bin.stl"), fb.Bytes(), map[string]any{"kind": "binary-with-one-extreme-coordinate", "triangles": nt, "bad_triangle": pos, "value": bf.name, "float_slot": slot}, "extreme-coordinate|"+bf.name, true)
					states++
					trans += 2
				}
				ab := "solid t\n"
				for i := 0; i < nt; i++ {
					x := fmt.Sprint(i)
					if i == pos {
						x = bf.txt
					}
					ab += fmt.Sprintf(" facet normal 0 0 1\n  outer loop\n   vertex %s 0 0\n   vertex %d 0 0.5\n   vertex %d 1 0.25\n  endloop\n endfacet\n", x, i+1, i)
				}
				ab += "endsolid t\n"
				w.one(c, filepath.Join(work, "bin.stl"), []byte(ab), map[string]any{"kind": "ascii-with-one-extreme-coordinate", "facets": nt, "bad_facet": pos, "token": bf.txt}, "extreme-coordinate|"+bf.name, true)
				states++
				trans += 2
			}
		}
	}
	// well-formed binary files whose triangle count sits on and around the multiples of 256 (block sizes of a
	// chunked reader), added after seed C14-8
	for _, nt := range []int{255, 256, 257, 511, 512, 513, 1024, 2560} {
		fb := new(bytes.Buffer)
		fb.Write(make([]byte, 80))
		binary.Write(fb, binary.LittleEndian, uint32(nt))
		for i := 0; i < nt; i++ {
			binary.Write(fb, binary.LittleEndian, [12]float32{0, 0, 1, float32(i), 0, 0, float32(i) + 1, 0, 0.5, float32(i), 1, 0.25})
			fb.Write([]byte{0, 0})
		}
		w.one(c, filepath.Join(work, "bin.stl"), fb.Bytes(), map[string]any{"kind": "well-formed-binary", "triangles": nt}, "binary-consistent-count", true)
		states++
		trans += 2
	}
	// one long single-line file (scanner token limit) and one long many-line file
	long1 := []byte(pad + "vertex " + strings.Repeat("1", 70*1024) + " 2 3\n")
	w.one(c, filepath.Join(work, "bin.stl"), long1, map[string]any{"kind": "single-70KiB-line"}, "long-line", true)
	long2 := []byte(pad + strings.Repeat("vertex 1 2 3\n", 30000))
	w.one(c, filepath.Join(work, "bin.stl"), long2, map[string]any{"kind": "30000-vertex-lines"}, "many-lines", true)
	states += 2

	// a malformed number / a stray line / a surplus vertex followed by many more vertex lines (round 8): a loader that
	// hands lines to a second goroutine must not block on its queue once the consumer has given up
	for _, after := range []int{1, 255, 1023, 1024, 1025, 1026, 4097, 20000} {
		for _, bad := range []string{"vertex 1 x 3\n", "vertex 1e999x 0 0\n", "vertex 1 2\n", "vertex 4 5 6\n"} {
			for _, before := range []int{0, 3, 1500} {
				f := []byte(pad + strings.Repeat("vertex 1 2 3\n", before) + bad + strings.Repeat("vertex 7 8 9\n", after))
				w.one(c, filepath.Join(work, "bin.stl"), f, map[string]any{"kind": "odd-line-then-many-vertex-lines", "vertex_lines_before": before, "odd_line": bad, "vertex_lines_after": after}, "odd-line-then-many-lines", true)
				states++
				trans += 2
			}
		}
	}
	// number forms (round 9): every spelling a float parser may treat specially - exponents at and beyond the float32 and
	// float64 ranges, long mantissas, long fractions with an exponent, signs, hex, underscores, Inf / NaN - in each
	// coordinate position of an otherwise well-formed facet
	{
		forms := []string{"0", "-0", "+1.5", "1.", ".5", "1e0", "1E+0", "1e-0", "1.175494E-38", "1.175494351e-38", "0.117549E-37", "1.0e-38", "1e-38", "1.0e-39",
			"1.401298e-45", "0.0000000001e-30", "0.00000000000000000000000000000000000001", "1e-400", "4.9e-324", "2.2250738585072014e-308", "1.7976931348623157e308", "1.8e308",
			"3.4028235e38", "3.4028236e38", "1e38", "1.0e38", "123456789012345e24", "1234567890123456789012345678901234567890", "0.123456789012345678901234567890e-20", "1e39", "1e+39", "-1e39",
			"1e999", "1e-999", "1e9999999999", "1e-9999999999", "0x1p-2", "0x1.8p1", "1_000", "Inf", "-Inf", "+Infinity", "NaN", "nan", "1e", "e5", "1e+", "--1", "1..2", "1,5", "\u0661"}
		for _, f := range forms {
			for pos := 0; pos < 3; pos++ {
				co := []string{"1", "2", "3"}
				co[pos] = f
				file := []byte(pad + "solid s\nfacet normal 0 0 1\nouter loop\nvertex " + strings.Join(co, " ") + "\nvertex 4 5 6\nvertex 7 8 " + f + "\nendloop\nendfacet\nendsolid s\n")
				w.one(c, filepath.Join(work, "bin.stl"), file, map[string]any{"kind": "number-form", "form": f, "position": pos}, "number-form", true)
				states++
				trans += 2
			}
		}
	}
	// history (round 8): small and malformed files loaded right after a large ASCII model - what a load allocates is in
	// proportion to ITS file, not to the file before it
	{
		big := []byte(pad + strings.Repeat("vertex 1 2 3\n", 150000))
		smalls := map[string][]byte{
			"one-facet":        []byte("solid s\nfacet normal 0 0 1\nouter loop\nvertex 0 0 0\nvertex 1 0 0\nvertex 0 1 0\nendloop\nendfacet\nendsolid s\n" + pad),
			"garbage":          []byte(strings.Repeat("\x00\xff\x10garbage", 20)),
			"truncated-binary": append(append(make([]byte, 80), 5, 0, 0, 0), make([]byte, 120)...),
			"bad-number":       []byte(pad + "vertex 1 2 3\nvertex 1 x 3\nvertex 1 2 3\n"),
			"empty":            {},
		}
		names := []string{"one-facet", "garbage", "truncated-binary", "bad-number", "empty"}
		for _, n := range names {
			w.one(c, filepath.Join(work, "bin.stl"), big, map[string]any{"kind": "150000-vertex-lines"}, "many-lines", true)
			w.one(c, filepath.Join(work, "bin.stl"), smalls[n], map[string]any{"kind": "small-file-after-a-large-ascii-file", "file": n}, "small-after-large", true)
			states += 2
			trans += 4
		}
	}

	// ---- (e) line endings: a well-formed ASCII file of 120 facets with LF, CR LF and LF CR LF mixed endings, shifted
	// by 0..255 leading blanks so that every alignment of a line end against the reader's refill boundaries
	// (4096, 8192, ...) occurs; files cut right after a carriage return; the loader must return, and return the same
	// triangles whatever the line ending
	mkAsc := func(nf int, eol func(line int) string, lead int) string {
		var sb strings.Builder
		sb.WriteString(strings.Repeat(" ", lead))
		ln := 0
		put := func(t string) { sb.WriteString(t); sb.WriteString(eol(ln)); ln++ }
		put("solid t")
		for i := 0; i < nf; i++ {
			put(" facet normal 0 0 1")
			put("  outer loop")
			put(fmt.Sprintf("   vertex %d 0 0", i))
			put("   vertex 1 0 0")
			put("   vertex 0 1e0 0")
			put("  endloop")
			put(" endfacet")
		}
		put("endsolid t")
		return sb.String()
	}
	eols := map[string]func(int) string{
		"LF":    func(int) string { return "\n" },
		"CRLF":  func(int) string { return "\r\n" },
		"mixed": func(l int) string { return []string{"\n", "\r\n", "\r\r\n"}[l%3] },
	}
	for _, name := range []string{"LF", "CRLF", "mixed"} {
		for lead := 0; lead < vlib.Pick(c, 256, 1024); lead++ {
			content := mkAsc(120, eols[name], lead)
			desc := map[string]any{"kind": "well-formed-ascii-120-facets", "line_endings": name, "leading_blanks": lead}
			r := w.one(c, filepath.Join(work, "bin.stl"), []byte(content), desc, "line-endings|"+name, true)
			states++
			trans += 2
			if !r.panicked && (r.err != nil || r.n != 120) {
				c.Violation("LoadSTL|well-formed-ascii-file-not-loaded|line-endings="+name, fmt.Sprintf("120 facets with %s line endings after %d leading blanks: %d triangles, error %v", name, lead, r.n, r.err), desc)
			}
		}
	}
	crlf := mkAsc(3, eols["CRLF"], 0)
	for n := 0; n <= len(crlf); n++ {
		if n > 0 && crlf[n-1] != '\r' {
			continue
		}
		w.one(c, filepath.Join(work, "bin.stl"), []byte(crlf[:n]), map[string]any{"kind": "crlf-ascii-cut-after-carriage-return", "keep_bytes": n}, "truncated-ascii-crlf", true)
		states++
		trans += 2
	}

	// ---- (a) ASCII: all sequences of <= k alphabet lines (padded), and unpadded for <= 3
	k := vlib.Pick(c, 5, 7)
	total := 0
	pw := 1
	offs := []int{}
	for i := 0; i <= k; i++ {
		offs = append(offs, total)
		total += pw
		pw *= len(alphabet)
	}
	var ascFiles int64
	nw := runtime.NumCPU()
	chunk := (total + nw*64 - 1) / (nw * 64)
	var before runtime.MemStats
	runtime.ReadMemStats(&before)
	var bytesTotal int64
	c.ParFor((total+chunk-1)/chunk, func(ci int) {
		path := filepath.Join(work, fmt.Sprintf("asc.%d.stl", ci))
		defer os.Remove(path)
		var local, lb int64
		for idx := ci * chunk; idx < (ci+1)*chunk && idx < total; idx++ {
			// decode idx -> (length, digits)
			ln := 0
			for ln+1 < len(offs) && offs[ln+1] <= idx {
				ln++
			}
			r := idx - offs[ln]
			seq := make([]int, ln)
			for j := ln - 1; j >= 0; j-- {
				seq[j] = r % len(alphabet)
				r /= len(alphabet)
			}
			var sb strings.Builder
			sb.WriteString(pad)
			nv := 0
			for _, a := range seq {
				sb.WriteString(alphabet[a])
				sb.WriteString("\n")
				if a == 3 {
					nv++
				}
			}
			class := fmt.Sprintf("ascii|valid-vertex-lines%%3=%d", nv%3)
			w.one(c, path, []byte(sb.String()), map[string]any{"kind": "ascii-lines", "lines": seqStrings(seq), "padded": true}, class, false)
			local++
			lb += int64(sb.Len())
			if ln <= 3 {
				body := sb.String()[len(pad):]
				w.one(c, path, []byte(body), map[string]any{"kind": "ascii-lines", "lines": seqStrings(seq), "padded": false}, class+"|short", false)
				local++
				// the same lines ending in CR LF, and with a bare CR as the very last byte
				cr := strings.ReplaceAll(sb.String(), "\n", "\r\n")
				w.one(c, path, []byte(cr), map[string]any{"kind": "ascii-lines", "lines": seqStrings(seq), "padded": true, "line_endings": "CRLF"}, class+"|crlf", false)
				w.one(c, path, []byte(strings.TrimSuffix(cr, "\n")), map[string]any{"kind": "ascii-lines", "lines": seqStrings(seq), "padded": true, "line_endings": "CRLF, last LF missing"}, class+"|crlf-cut", false)
				// blanks replaced by tabs; a NUL and a 0xFF byte at the end of every line
				w.one(c, path, []byte(strings.ReplaceAll(sb.String()[len(pad):], " ", "\t")+pad), map[string]any{"kind": "ascii-lines", "lines": seqStrings(seq), "padded": "after the lines", "separators": "tabs"}, class+"|tabs", false)
				w.one(c, path, []byte(strings.ReplaceAll(sb.String(), "\n", "\x00\xff\n")), map[string]any{"kind": "ascii-lines", "lines": seqStrings(seq), "padded": true, "line_suffix": "NUL 0xFF"}, class+"|nul", false)
				local += 4
			}
		}
		atomic.AddInt64(&ascFiles, local)
		atomic.AddInt64(&bytesTotal, lb)
	})
	var after runtime.MemStats
	runtime.ReadMemStats(&after)
	perFile := float64(after.TotalAlloc-before.TotalAlloc) / float64(max(ascFiles, 1))
	// aggregate proportionality for the ASCII part: the harness itself allocates the file content and
	// descriptors (a few KiB per file); 256 KiB per <=700-byte file would be out of proportion
	if perFile > 256*1024 {
		c.Violation("LoadSTL|allocation-out-of-proportion|ascii-aggregate", fmt.Sprintf("average allocation per ASCII file %.0f bytes", perFile), map[string]any{"kind": "ascii-aggregate"})
	}
	states += ascFiles
	trans += ascFiles * 2
	samples = append(samples, map[string]any{"kind": "ascii-lines", "lines": []string{"solid s", "vertex 1 2 3", "vertex 1 2 3", "endsolid s"}, "padded": true, "why": "vertex count not divisible by three"})

	oc := w.outcomes.Map()
	c.Guard("both outcomes (error and mesh) observed", oc["error"] > 0 && oc["mesh"] > 0, fmt.Sprint(oc))
	c.Guard("binary parser reached (consistent-count files load as meshes)", oc["mesh"] > 100, fmt.Sprint(oc["mesh"]))
	c.Finish(vlib.Coverage{
		States: states, Transitions: trans, Evaluations: states, Nontrivial: oc["mesh"] + oc["empty-mesh"],
		Rule:       "states = files, each loaded through render.LoadSTL and obj.ImportSTL (transitions = loader calls); non-trivial = files that got past the 84-byte header read and produced a mesh (possibly empty) rather than an early error",
		Samples:    samples,
		Exhaustive: true,
		Bounds: map[string]any{"ascii_alphabet": alphabet, "ascii_max_lines": k, "binary_lengths": fmt.Sprintf("0..%d", maxLen), "binary_fills": 4,
			"binary_counts": "0..4, len-consistent and +-1, 2^16, 2^31, 2^32-1, 85899346, every count with 84+50c == len modulo 2^32 or 2^31"},
		Extra: map[string]any{"outcomes": oc, "max_alloc_single_binary_file": w.maxAlloc, "avg_alloc_per_ascii_file": perFile, "ascii_files": ascFiles, "binary_files": binFiles},
		Assumptions: []string{"file contents are bounded to the token alphabet / length menus", "a 60 s watchdog per call on files <= 400 KiB decides 'hang'", "allocation bound: TotalAlloc delta <= 64*size + 1 MiB per binary file (measured sequentially); ASCII part measured in aggregate",
			"a panic inside obj.ImportSTL after the loader returned (mesh to SDF conversion) is outside this property and only counted"},
	})
}

func seqStrings(seq []int) []string {
	o := make([]string, len(seq))
	for i, a := range seq {
		o[i] = alphabet[a]
	}
	return o
}

func main() {
	if os.Getenv("VERIF_C14_WORKER") == "1" {
		workerMain()
		return
	}
	os.MkdirAll(work, 0o755)
	os.Remove(filepath.Join(work, "current.json"))
	start := time.Now()
	cmd := exec.Command(os.Args[0], os.Args[1:]...)
	cmd.Env = append(os.Environ(), "VERIF_C14_WORKER=1")
	var out bytes.Buffer
	cmd.Stdout = os.Stdout
	cmd.Stderr = &out
	err := cmd.Run()
	code := 0
	if err != nil {
		code = 3
		if ee, ok := err.(*exec.ExitError); ok {
			code = ee.ExitCode()
		}
	}
	if code == 0 || code == 1 || code == 3 {
		os.Stderr.Write(out.Bytes())
		os.Exit(code)
	}
	// the worker died (fatal error: out of memory, stack overflow, signal): that is a violation on the
	// file it was loading
	cur, _ := os.ReadFile(filepath.Join(work, "current.json"))
	var desc any
	json.Unmarshal(cur, &desc)
	tail := out.String()
	if len(tail) > 600 {
		tail = tail[:600]
	}
	os.MkdirAll(filepath.Join(vlib.VerifDir, "replays", "C14"), 0o755)
	rp := filepath.Join(vlib.VerifDir, "replays", "C14", "LoadSTL_fatal.json")
	b, _ := json.MarshalIndent(map[string]any{"property": "C14", "key": "LoadSTL|fatal-runtime-error", "what": tail, "input": desc}, "", " ")
	os.WriteFile(rp, b, 0o644)
	fmt.Printf("VIOLATION property=C14 replay=%s key=LoadSTL|fatal-runtime-error :: worker died (exit %d) while loading %s: %s\n", rp, code, string(cur), strings.SplitN(tail, "\n", 2)[0])
	ev := map[string]any{"property_id": "C14", "tier": os.Getenv("VERIF_TIER"), "seed": 0, "level": "model_checking", "wall_s": time.Since(start).Seconds(), "violations": 1,
		"coverage": map[string]any{"states": 1, "transitions": 1, "traces_validated_against_impl": 1, "exhaustive": false,
			"samples": []any{map[string]any{"violation": "LoadSTL|fatal-runtime-error", "input": desc, "stderr": tail}}}}
	if ev["tier"] == "" {
		ev["tier"] = "quick"
	}
	eb, _ := json.MarshalIndent(ev, "", " ")
	os.WriteFile(filepath.Join(vlib.VerifDir, "evidence", "C14.json"), eb, 0o644)
	os.Exit(1)
}

var _ = sdf.Triangle3{}
