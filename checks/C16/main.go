// C16 — pruned evaluation equals exhaustive evaluation.
// Small-scope exhaustive enumeration: all integer boxes x all half-integer points (2D, 3D), all
// interval pairs, all operand multisets of a placed-primitive menu x blends x lattice points.
package main

import (
	"fmt"
	"math"
	"sort"
	"sync/atomic"

	"github.com/deadsy/sdfx/sdf"
	v2 "github.com/deadsy/sdfx/vec/v2"
	"github.com/deadsy/sdfx/vec/v2i"
	v3 "github.com/deadsy/sdfx/vec/v3"

	"verif/lib/vlib"
)

func cls(p, lo, hi float64) byte {
	switch {
	case p < lo:
		return 'L'
	case p == lo:
		return 'l'
	case p < hi:
		return 'I'
	case p == hi:
		return 'h'
	}
	return 'H'
}

func axisMin(p, lo, hi float64) float64 {
	if p < lo {
		return lo - p
	}
	if p > hi {
		return p - hi
	}
	return 0
}
func axisMax(p, lo, hi float64) float64 { return math.Max(math.Abs(p-lo), math.Abs(p-hi)) }

// region class used for the finding key: number of axes strictly within / on boundary / outside
func regionKey(c []byte) string {
	in, on, out := 0, 0, 0
	for _, x := range c {
		switch x {
		case 'I':
			in++
		case 'l', 'h':
			on++
		default:
			out++
		}
	}
	return fmt.Sprintf("axes-within=%d,on-face=%d,outside=%d", in, on, out)
}

type opnd struct {
	name string
	s    sdf.SDF2
}

func mustBox(x, y float64, r float64) sdf.SDF2 { return sdf.Box2D(v2.Vec{X: x, Y: y}, r) }
func circle(r float64) sdf.SDF2 {
	s, err := sdf.Circle2D(r)
	if err != nil {
		panic(err)
	}
	return s
}
func at(s sdf.SDF2, x, y float64) sdf.SDF2 {
	return sdf.Transform2D(s, sdf.Translate2d(v2.Vec{X: x, Y: y}))
}

type blend struct {
	name string
	f    sdf.MinFunc
}

var farAway = at(circle(0.5), 40, 40)

// slice2 is the section of a sphere by the plane through its centre, with the slice origin at the centre (which
// has an in-plane component): the circle of radius 1.2, in slice coordinates centred on (0,0).
func slice2() sdf.SDF2 {
	sp, _ := sdf.Sphere3D(1.2)
	s3 := sdf.Transform3D(sp, sdf.Translate3d(v3.Vec{X: 1, Y: 0.5}))
	return sdf.Slice2D(s3, v3.Vec{X: 1, Y: 0.5}, v3.Vec{Z: 1})
}

func main() {
	c := vlib.Start("C16")
	var states, trans, nontriv int64
	samples := []any{}
	posClasses2 := vlib.NewCounter()
	posClasses3 := vlib.NewCounter()

	// ---- A. Box2.MinMaxDist2: all integer boxes in [-2,2]^2, all half-integer points in [-3,3]^2
	type iv struct{ lo, hi float64 }
	var ivs []iv
	R := vlib.Pick(c, 2, 3) // thorough: integer boxes in [-3,3]^d, half-integer points in [-4,4]^d
	for lo := -R; lo <= R; lo++ {
		for hi := lo; hi <= R; hi++ { // hi == lo: a box without extent along that axis (a segment / a point)
			ivs = append(ivs, iv{float64(lo), float64(hi)})
		}
	}
	var pts []float64
	for i := -2 * (R + 1); i <= 2*(R+1); i++ {
		pts = append(pts, float64(i)/2)
	}
	// quarter offsets shift the whole configuration off the integers (still dyadic: exact)
	offs := []float64{0, 0.25, -1024.125, 3e6}
	for _, o := range offs {
		for _, ix := range ivs {
			for _, iy := range ivs {
				b := sdf.Box2{Min: v2.Vec{X: ix.lo + o, Y: iy.lo + o}, Max: v2.Vec{X: ix.hi + o, Y: iy.hi + o}}
				states++
				for _, px := range pts {
					for _, py := range pts {
						p := v2.Vec{X: px + o, Y: py + o}
						got := b.MinMaxDist2(p)
						mx, my := axisMin(p.X, b.Min.X, b.Max.X), axisMin(p.Y, b.Min.Y, b.Max.Y)
						wantMin := mx*mx + my*my
						ax, ay := axisMax(p.X, b.Min.X, b.Max.X), axisMax(p.Y, b.Min.Y, b.Max.Y)
						wantMax := ax*ax + ay*ay
						k := []byte{cls(p.X, b.Min.X, b.Max.X), cls(p.Y, b.Min.Y, b.Max.Y)}
						posClasses2.Add(string(k), 1)
						trans++
						if got[0] != wantMin {
							c.Violation("Box2.MinMaxDist2|min|"+regionKey(k), fmt.Sprintf("box %v p %v: min dist2 %v, true %v", b, p, got[0], wantMin),
								map[string]any{"kind": "box2", "box": b, "p": p, "got": got, "want": []float64{wantMin, wantMax}})
						}
						if got[1] != wantMax {
							c.Violation("Box2.MinMaxDist2|max|"+regionKey(k), fmt.Sprintf("box %v p %v: max dist2 %v, true %v", b, p, got[1], wantMax),
								map[string]any{"kind": "box2", "box": b, "p": p, "got": got, "want": []float64{wantMin, wantMax}})
						}
					}
				}
			}
		}
	}
	samples = append(samples, map[string]any{"box2": "Min(-2,-2) Max(-1,-1)", "p": "(-3,-3)", "expect": "[2, 8]"})

	// ---- B. Box3.MinMaxDist2
	var boxes3 []sdf.Box3
	for _, o := range offs[:vlib.Pick(c, 1, 2)] {
		for _, ix := range ivs {
			for _, iy := range ivs {
				for _, iz := range ivs {
					boxes3 = append(boxes3, sdf.Box3{Min: v3.Vec{X: ix.lo + o, Y: iy.lo + o, Z: iz.lo + o}, Max: v3.Vec{X: ix.hi + o, Y: iy.hi + o, Z: iz.hi + o}})
				}
			}
		}
	}
	var t3 int64
	c.ParFor(len(boxes3), func(i int) {
		b := boxes3[i]
		o := b.Min.X - math.Floor(b.Min.X)
		var n int64
		for _, px := range pts {
			for _, py := range pts {
				for _, pz := range pts {
					p := v3.Vec{X: px + o, Y: py + o, Z: pz + o}
					got := b.MinMaxDist2(p)
					mx, my, mz := axisMin(p.X, b.Min.X, b.Max.X), axisMin(p.Y, b.Min.Y, b.Max.Y), axisMin(p.Z, b.Min.Z, b.Max.Z)
					wantMin := mx*mx + my*my + mz*mz
					ax, ay, az := axisMax(p.X, b.Min.X, b.Max.X), axisMax(p.Y, b.Min.Y, b.Max.Y), axisMax(p.Z, b.Min.Z, b.Max.Z)
					wantMax := ax*ax + ay*ay + az*az
					k := []byte{cls(p.X, b.Min.X, b.Max.X), cls(p.Y, b.Min.Y, b.Max.Y), cls(p.Z, b.Min.Z, b.Max.Z)}
					if i%5 == 0 {
						posClasses3.Add(string(k), 1)
					}
					n++
					if got[0] != wantMin {
						c.Violation("Box3.MinMaxDist2|min|"+regionKey(k), fmt.Sprintf("box %v p %v: min dist2 %v, true %v", b, p, got[0], wantMin),
							map[string]any{"kind": "box3", "box": b, "p": p, "got": got, "want": []float64{wantMin, wantMax}})
					}
					if got[1] != wantMax {
						c.Violation("Box3.MinMaxDist2|max|"+regionKey(k), fmt.Sprintf("box %v p %v: max dist2 %v, true %v", b, p, got[1], wantMax),
							map[string]any{"kind": "box3", "box": b, "p": p, "got": got, "want": []float64{wantMin, wantMax}})
					}
				}
			}
		}
		atomic.AddInt64(&t3, n)
	})
	states += int64(len(boxes3))
	trans += t3
	samples = append(samples, map[string]any{"box3": "Min(0,0,0) Max(1,1,1)", "p": "(0.5,2,2)", "expect": "[2, 9.25] (edge region)"})

	// ---- C. Interval.Overlap: all pairs of closed intervals with end points in {0..4} (incl. points)
	var ints []sdf.Interval
	for lo := 0; lo <= 4; lo++ {
		for hi := lo; hi <= 4; hi++ {
			ints = append(ints, sdf.Interval{float64(lo), float64(hi)})
		}
	}
	// and with end points that are not exactly representable sums of each other (0.1, 0.2, 0.3, 1/3, ...): the
	// answer is a comparison of end points, no arithmetic may blur a touching or barely overlapping pair
	// (added after seed C16-9)
	nd := []float64{0, math.Copysign(0, -1), 5e-324, -5e-324, 0.1, 0.2, 0.1 + 0.2, 0.3, 1.0 / 3, 2.0 / 3, 0.7, 1 - 1.0/3, 1, 1e-9, 1 + 1e-15, 1e15, 1e15 + 1, -0.1, -0.3}
	sort.Float64s(nd)
	for i, lo := range nd {
		for _, hi := range nd[i:] {
			ints = append(ints, sdf.Interval{lo, hi})
		}
	}
	for _, a := range ints {
		for _, b := range ints {
			want := math.Max(a[0], b[0]) <= math.Min(a[1], b[1])
			states++
			trans++
			if a.Overlap(b) != want {
				rel := "disjoint"
				if want {
					rel = "sharing"
					if math.Max(a[0], b[0]) == math.Min(a[1], b[1]) {
						rel = "touching"
					}
				}
				c.Violation("Interval.Overlap|"+rel, fmt.Sprintf("%v.Overlap(%v) = %v", a, b, !want), map[string]any{"kind": "interval", "a": a, "b": b})
			}
		}
	}

	// ---- D. Union2D pruning. Operands are exact distance fields (so the pruning argument applies).
	rb := sdf.Transform2D(mustBox(1, 0.5, 0), sdf.Rotate2d(sdf.DtoR(30)))
	line := sdf.Line2D(2, 0.25)
	menu := []opnd{
		{"c1@0,0", circle(1)},
		{"c.5@0,0", circle(0.5)},
		{"c.5@1.5,0", at(circle(0.5), 1.5, 0)},
		{"c.5@-2,-2", at(circle(0.5), -2, -2)},
		{"c.01@1,0", at(circle(0.01), 1, 0)},
		{"c.01@1.0625,0", at(circle(0.01), 1.0625, 0)},
		{"c.01@-1,2", at(circle(0.01), -1, 2)},
		{"b2x1@0,0", mustBox(2, 1, 0)},
		{"b1x1@1,0(touching)", at(mustBox(1, 1, 0), 1.5, 0)},
		{"b1x3r.25@-1.5,0.5", at(mustBox(1, 3, 0.25), -1.5, 0.5)},
		{"b.5x.5@2.5,2.5", at(mustBox(0.5, 0.5, 0), 2.5, 2.5)},
		{"rot30b1x.5@0.5,1.5", at(rb, 0.5, 1.5)},
		{"line2r.25@0,-1.5", at(line, 0, -1.5)},
		{"c1@2.5,-1", at(circle(1), 2.5, -1)},
		// operands that are themselves placed sub-assemblies: their boxes come from the box arithmetic of the
		// transforms (rotation of an off-centre box, partial fans, arrays)
		{"rot40(b1.5x.4@1.5,0)", sdf.Transform2D(at(mustBox(1.5, 0.4, 0), 1.5, 0), sdf.Rotate2d(sdf.DtoR(40)))},
		{"rot-110(c.3@2,0)@-.5,-.5", at(sdf.Transform2D(at(circle(0.3), 2, 0), sdf.Rotate2d(sdf.DtoR(-110))), -0.5, -0.5)},
		{"fan3x50(b1.2x.3@1.6,0)", sdf.RotateUnion2D(at(mustBox(1.2, 0.3, 0), 1.6, 0), 3, sdf.Rotate2d(sdf.DtoR(50)))},
		{"fan2x-70(c.25@2.25,0)", sdf.RotateUnion2D(at(circle(0.25), 2.25, 0), 2, sdf.Rotate2d(sdf.DtoR(-70)))},
		{"array2x2(c.2)@-2.5,1", at(sdf.Array2D(circle(0.2), v2i.Vec{X: 2, Y: 2}, v2.Vec{X: 1, Y: 1.5}), -2.5, 1)},
		// further constructors that work out a box of their own (all exact outside their solid)
		{"rotcopy3(b1x.5@1.5,-1)", sdf.RotateCopy2D(at(mustBox(1, 0.5, 0), 1.5, -1), 3)},
		{"slice(sphere r1.2 @(1,.5,0), origin (1,.5,0), n=z)", slice2()},
		{"elongate(c.4,(-1.5,0))@0,2.2", at(sdf.Elongate2D(circle(0.4), v2.Vec{X: -1.5}), 0, 2.2)},
		{"elongate(c.3,(.5,-1))@-2,-.5", at(sdf.Elongate2D(circle(0.3), v2.Vec{X: 0.5, Y: -1}), -2, -0.5)},
		{"offset(b1x.6,.2)@2,1.5", at(sdf.Offset2D(mustBox(1, 0.6, 0), 0.2), 2, 1.5)},
		{"scale1.5(c.4@1,.6)", sdf.ScaleUniform2D(at(circle(0.4), 1, 0.6), 1.5)},
		{"scale.5(b2x1@-3,2)", sdf.ScaleUniform2D(at(mustBox(2, 1, 0), -3, 2), 0.5)},
		{"union(c.3@0,0, stroke2@2,1)", sdf.Union2D(circle(0.3), at(sdf.Line2D(2, 0), 2, 1))},
		{"union(stroke1.5@-1,-2.5, c.2@-2.5,0)", sdf.Union2D(at(sdf.Line2D(1.5, 0), -1, -2.5), at(circle(0.2), -2.5, 0))},
		{"center(b1x.5@2,2)", sdf.Center2D(at(mustBox(1, 0.5, 0), 2, 2))},
		{"centerscale(c.4@1,1,1.5)", sdf.CenterAndScale2D(at(circle(0.4), 1, 1), 1.5)},
	}
	// the pruning argument itself, operand by operand: a value is never smaller than the distance to the operand's
	// own bounding box (for these exact operands: the solid lies inside its box), at every point of a 1/16 lattice
	for _, o := range menu {
		bb := o.s.BoundingBox()
		states++
		for i := -72; i <= 72 && o.s != nil; i++ {
			for j := -72; j <= 72; j++ {
				p := v2.Vec{X: float64(i) / 16, Y: float64(j) / 16}
				trans++
				if f, d := o.s.Evaluate(p), math.Sqrt(bb.MinMaxDist2(p)[0]); d > 0 && f < d-1e-9 {
					c.Violation("Union2D|operand-value-below-the-distance-to-its-own-box", fmt.Sprintf("operand %s at %v: Evaluate %v, but its bounding box %v is %v away: the union would prune it wrongly", o.name, p, f, bb, d), map[string]any{"kind": "operand", "operand": o.name, "p": p, "box": bb})
					i = 99
					break
				}
			}
		}
	}
	blends := []blend{{"min", nil}, {"PolyMin(1/8)", sdf.PolyMin(0.125)}, {"PolyMin(1/2)", sdf.PolyMin(0.5)},
		{"PolyMin(2)", sdf.PolyMin(2)}, {"PolyMin(5)", sdf.PolyMin(5)}, {"RoundMin(1/2)", sdf.RoundMin(0.5)},
		{"ChamferMin(1/2)", sdf.ChamferMin(0.5)}, {"ExpMin(32)", sdf.ExpMin(32)}}
	maxSize := vlib.Pick(c, 3, 5)
	var sets [][]int
	var rec func(start int, cur []int)
	rec = func(start int, cur []int) {
		if len(cur) >= 2 {
			sets = append(sets, append([]int{}, cur...))
		}
		if len(cur) == maxSize {
			return
		}
		for i := start; i < len(menu); i++ { // multisets: i may repeat
			rec(i, append(cur, i))
		}
	}
	rec(0, nil)
	// orderings: operand order matters to the index-based choice of the nearest box; take the sorted
	// order and its reverse.
	var lat []float64
	if c.Thorough() {
		for i := -24; i <= 24; i++ {
			lat = append(lat, float64(i)/8)
		}
	} else {
		for i := -12; i <= 12; i++ {
			lat = append(lat, float64(i)/4)
		}
	}
	var nt, tr int64
	pruned := vlib.NewCounter()
	c.ParFor(len(sets)*2, func(idx int) {
		set := sets[idx/2]
		ops := make([]sdf.SDF2, len(set))
		names := make([]string, len(set))
		for i, m := range set {
			j := i
			if idx%2 == 1 {
				j = len(set) - 1 - i
			}
			ops[j] = menu[m].s
			names[j] = menu[m].name
		}
		var n int64
		interesting := false
		for _, bl := range blends {
			// the argument slice is the caller's and is written again after construction
			arg := append([]sdf.SDF2{}, ops...)
			u0 := sdf.Union2D(arg...)
			for i := range arg {
				arg[i] = farAway
			}
			u, ok := u0.(*sdf.UnionSDF2)
			if !ok {
				c.HarnessError("Union2D of %d operands is not *UnionSDF2", len(ops))
				return
			}
			if bl.f != nil {
				u.SetMin(bl.f)
			}
			for _, x := range lat {
				for _, y := range lat {
					p := v2.Vec{X: x, Y: y}
					fast := u.Evaluate(p)
					slow := u.EvaluateSlow(p)
					// independent fold over the operands
					ref := ops[0].Evaluate(p)
					for _, o := range ops[1:] {
						if bl.f == nil {
							ref = math.Min(ref, o.Evaluate(p))
						} else {
							ref = bl.f(ref, o.Evaluate(p))
						}
					}
					n++
					// how many operands would the pruning skip? (for the non-vacuity guard)
					if bl.f == nil && !interesting {
						b0 := math.Inf(1)
						for _, o := range ops {
							b0 = math.Min(b0, o.BoundingBox().MinMaxDist2(p)[1])
						}
						for _, o := range ops {
							if o.BoundingBox().MinMaxDist2(p)[0] > b0 {
								interesting = true
							}
						}
					}
					rep := func() map[string]any {
						return map[string]any{"kind": "union", "operands": names, "blend": bl.name, "p": p, "fast": fast, "slow": slow, "ref": ref}
					}
					if bl.f == nil {
						if fast != ref || slow != ref {
							where := "inside-some-box"
							in := false
							for _, o := range ops {
								if o.BoundingBox().MinMaxDist2(p)[0] == 0 {
									in = true
								}
							}
							if !in {
								where = "outside-all-boxes"
							}
							c.Violation("Union2D|min|value|"+where, fmt.Sprintf("Union2D(%v) at %v: Evaluate %v EvaluateSlow %v reference %v", names, p, fast, slow, ref), rep())
						}
					} else {
						if slow != ref && !(math.IsNaN(slow) && math.IsNaN(ref)) {
							c.Violation("Union2D|blend|EvaluateSlow-differs-from-fold", fmt.Sprintf("Union2D(%v) %s at %v: EvaluateSlow %v fold %v", names, bl.name, p, slow, ref), rep())
						}
						if math.Abs(ref) > 1e-9 && !math.IsNaN(ref) && !math.IsInf(ref, 0) {
							if (fast < 0) != (ref < 0) {
								c.Violation("Union2D|blend|sign|pruned-operand-within-blend-range", fmt.Sprintf("Union2D(%v) %s at %v: Evaluate %v but full evaluation %v", names, bl.name, p, fast, ref), rep())
							}
						}
					}
				}
			}
		}
		if interesting {
			atomic.AddInt64(&nt, 1)
			pruned.Add("sets-with-prunable-operand", 1)
		}
		atomic.AddInt64(&tr, n)
	})
	states += int64(len(sets) * 2 * len(blends))
	trans += tr
	nontriv = nt + int64(posClasses2.Len()) + int64(posClasses3.Len())
	samples = append(samples, map[string]any{"union": []string{menu[4].name, menu[5].name}, "blend": "PolyMin(5)", "p": "(0,0)"},
		map[string]any{"union": []string{menu[0].name, menu[3].name, menu[10].name}, "blend": "min", "lattice": "25x25 step 1/4"})

	c.Guard("all 25 2D position classes (L,l,I,h,H per axis) occurred", posClasses2.Len() == 25, fmt.Sprint(posClasses2.Len()))
	c.Guard("all 125 3D position classes occurred", posClasses3.Len() == 125, fmt.Sprint(posClasses3.Len()))
	c.Guard("pruning exercised (>=100 operand sets with an operand the interval test skips)", nt >= 100, fmt.Sprint(nt))

	c.Finish(vlib.Coverage{
		States: states, Transitions: trans, Evaluations: states, Nontrivial: nontriv,
		Rule:       "states = boxes + interval pairs + (operand multiset, order, blend) triples, each enumerated exhaustively from the menus; transitions = oracle comparisons (one per point); non-trivial = distinct position classes reached + distinct operand sets in which the interval test actually prunes an operand at some lattice point",
		Samples:    samples,
		Exhaustive: true,
		Bounds: map[string]any{"box_corners": "integers in [-2,2], plus dyadic offsets " + fmt.Sprint(offs), "points": "half-integer lattice [-3,3]^d",
			"interval_endpoints": "0..4", "union_operand_menu": len(menu), "union_multiset_size": fmt.Sprintf("2..%d", maxSize), "orders": "sorted and reversed", "blends": len(blends), "union_lattice": "25x25 step 1/4 over [-3,3]^2"},
		Extra:       map[string]any{"position_classes_2d": posClasses2.Len(), "position_classes_3d": posClasses3.Len(), "operand_sets_with_pruning": nt},
		Assumptions: []string{"coordinates are dyadic so the reference arithmetic is exact and compared with ==", "union operands are exact distance fields (circles, boxes, a line, a rotated box); blended values within 1e-9 of zero are not sign-compared"},
	})
}
