// C20 — Delaunay triangulation correct; equality order-independent.
// Exhaustive: all subsets of size 3..k of a jittered 4x4 lattice (several jitter scales, coordinate
// scales, offsets, input orders), exact rational predicates as oracle; all permutations x rotations
// of all small triangle sets for TriangleISet.Equals.
package main

import (
	"fmt"
	"math"
	"math/big"
	"sort"
	"sync/atomic"

	"github.com/deadsy/sdfx/render"
	v2 "github.com/deadsy/sdfx/vec/v2"

	"verif/lib/vlib"
)

// fixed jitter table (deterministic): splitmix64 of the index, mapped to (-0.5, 0.5) and quantised to
// 2^-20 so that scaled/offset variants remain exactly representable
func splitmix(x uint64) uint64 {
	x += 0x9e3779b97f4a7c15
	x = (x ^ (x >> 30)) * 0xbf58476d1ce4e5b9
	x = (x ^ (x >> 27)) * 0x94d049bb133111eb
	return x ^ (x >> 31)
}

func jitter(i int) (float64, float64) {
	q := float64(1 << 20)
	a := float64(splitmix(uint64(2*i+1))>>44)/q - 0.5
	b := float64(splitmix(uint64(2*i+2))>>44)/q - 0.5
	return a, b
}

type cfg struct {
	pair   string // "", "y" or "x": consecutive point pairs share that coordinate exactly
	name   string
	eps    float64
	scale  float64
	ox, oy float64
	grid   int
}

func rat(x float64) *big.Rat { return new(big.Rat).SetFloat64(x) }

// orient sign of (b-a)x(c-a), exact
func orient(a, b, c v2.Vec) int {
	abx := new(big.Rat).Sub(rat(b.X), rat(a.X))
	aby := new(big.Rat).Sub(rat(b.Y), rat(a.Y))
	acx := new(big.Rat).Sub(rat(c.X), rat(a.X))
	acy := new(big.Rat).Sub(rat(c.Y), rat(a.Y))
	l := new(big.Rat).Mul(abx, acy)
	r := new(big.Rat).Mul(aby, acx)
	return l.Cmp(r)
}

// incircle: >0 iff d strictly inside the circumcircle of CCW triangle abc (sign corrected by orientation)
func incircle(a, b, c, d v2.Vec) int {
	row := func(p v2.Vec) [3]*big.Rat {
		x := new(big.Rat).Sub(rat(p.X), rat(d.X))
		y := new(big.Rat).Sub(rat(p.Y), rat(d.Y))
		s := new(big.Rat).Add(new(big.Rat).Mul(x, x), new(big.Rat).Mul(y, y))
		return [3]*big.Rat{x, y, s}
	}
	A, B, C := row(a), row(b), row(c)
	m := func(p, q *big.Rat) *big.Rat { return new(big.Rat).Mul(p, q) }
	det := new(big.Rat)
	t1 := new(big.Rat).Sub(m(B[1], C[2]), m(B[2], C[1]))
	t2 := new(big.Rat).Sub(m(B[0], C[2]), m(B[2], C[0]))
	t3 := new(big.Rat).Sub(m(B[0], C[1]), m(B[1], C[0]))
	det.Add(det, m(A[0], t1))
	det.Sub(det, m(A[1], t2))
	det.Add(det, m(A[2], t3))
	return det.Sign() * orient(a, b, c)
}

type tables struct {
	pts    []v2.Vec
	n      int
	orient [][][]int8 // [i][j][k]
	inc    map[[4]int]int8
	extent float64
}

func tri3(a, b, c int) [3]int {
	s := []int{a, b, c}
	sort.Ints(s)
	return [3]int{s[0], s[1], s[2]}
}

func build(pts []v2.Vec) (*tables, string) {
	n := len(pts)
	t := &tables{pts: pts, n: n, inc: map[[4]int]int8{}}
	t.orient = make([][][]int8, n)
	for i := range t.orient {
		t.orient[i] = make([][]int8, n)
		for j := range t.orient[i] {
			t.orient[i][j] = make([]int8, n)
		}
	}
	for i := 0; i < n; i++ {
		for j := i + 1; j < n; j++ {
			if pts[i] == pts[j] {
				return nil, fmt.Sprintf("points %d,%d coincide", i, j)
			}
			for k := j + 1; k < n; k++ {
				o := int8(orient(pts[i], pts[j], pts[k]))
				if o == 0 {
					return nil, fmt.Sprintf("points %d,%d,%d collinear", i, j, k)
				}
				t.orient[i][j][k], t.orient[j][k][i], t.orient[k][i][j] = o, o, o
				t.orient[j][i][k], t.orient[i][k][j], t.orient[k][j][i] = -o, -o, -o
				for d := 0; d < n; d++ {
					if d == i || d == j || d == k {
						continue
					}
					s := int8(incircle(pts[i], pts[j], pts[k], pts[d]))
					if s == 0 {
						return nil, fmt.Sprintf("points %d,%d,%d,%d cocircular", i, j, k, d)
					}
					t.inc[[4]int{i, j, k, d}] = s
				}
			}
		}
	}
	mn, mx := pts[0], pts[0]
	for _, p := range pts {
		mn.X, mn.Y = math.Min(mn.X, p.X), math.Min(mn.Y, p.Y)
		mx.X, mx.Y = math.Max(mx.X, p.X), math.Max(mx.Y, p.Y)
	}
	t.extent = math.Max(mx.X-mn.X, mx.Y-mn.Y)
	return t, ""
}

func circumradius(a, b, c v2.Vec) float64 {
	la, lb, lc := b.Sub(c).Length(), a.Sub(c).Length(), a.Sub(b).Length()
	area := math.Abs((b.X-a.X)*(c.Y-a.Y)-(b.Y-a.Y)*(c.X-a.X)) / 2
	if area == 0 {
		return math.Inf(1)
	}
	return la * lb * lc / (4 * area)
}

// floatMargin is d^2 - r^2 of point d against the circumcircle of abc in plain float64 (the quantity the
// library compares with its absolute epsilon of 1e-12).
func floatMargin(a, b, c, d v2.Vec) float64 {
	bx, by, cx, cy := b.X-a.X, b.Y-a.Y, c.X-a.X, c.Y-a.Y
	den := 2 * (bx*cy - by*cx)
	ux := (cy*(bx*bx+by*by) - by*(cx*cx+cy*cy)) / den
	uy := (bx*(cx*cx+cy*cy) - cx*(bx*bx+by*by)) / den
	r2 := ux*ux + uy*uy
	dx, dy := d.X-a.X-ux, d.Y-a.Y-uy
	return dx*dx + dy*dy - r2
}

// subsets of size lo..hi of {0..n-1}, lexicographic per size
func subsets(n, lo, hi int) [][]int {
	var out [][]int
	for k := lo; k <= hi; k++ {
		idx := make([]int, k)
		for i := range idx {
			idx[i] = i
		}
		for {
			out = append(out, append([]int{}, idx...))
			i := k - 1
			for i >= 0 && idx[i] == n-k+i {
				i--
			}
			if i < 0 {
				break
			}
			idx[i]++
			for j := i + 1; j < k; j++ {
				idx[j] = idx[j-1] + 1
			}
		}
	}
	return out
}

func setKey(ts [][3]int) string {
	s := make([]string, len(ts))
	for i, t := range ts {
		s[i] = fmt.Sprint(t)
	}
	sort.Strings(s)
	return fmt.Sprint(s)
}

func main() {
	c := vlib.Start("C20")
	var states, trans int64
	samples := []any{}
	nontrivial := vlib.NewCounter()
	smallTris := map[string][]render.TriangleI{} // distinct local-index triangulations with <= 5 triangles
	var smallMu = make(chan struct{}, 1)
	smallMu <- struct{}{}

	cfgs := []cfg{{"", "jitter0.3", 0.3, 1, 0, 0, 4}, {"", "jitter1e-2", 1e-2, 1, 0, 0, 4},
		{"y", "jitter0.3,pairs-share-y", 0.3, 1, 0, 0, 4}, {"x", "jitter0.3,pairs-share-x", 0.3, 1, 0, 0, 4}, {"", "jitter0.3*2^-9", 0.3, 1.0 / 512, 0, 0, 4}}
	if c.Thorough() {
		cfgs = append(cfgs, cfg{"", "jitter1e-4", 1e-4, 1, 0, 0, 4}, cfg{"", "jitter0.3*2^20", 0.3, 1 << 20, 0, 0, 4},
			cfg{"", "jitter0.3*2^-20", 0.3, 1.0 / (1 << 20), 0, 0, 4}, cfg{"", "jitter0.3+offset(4096,-8192)", 0.3, 1, 4096, -8192, 4},
			cfg{"", "jitter1e-2+offset", 1e-2, 1, -1024, 512, 4}, cfg{"", "5x5jitter0.3", 0.3, 1, 0, 0, 5})
	} else {
		cfgs = append(cfgs, cfg{"", "jitter0.3*2^20", 0.3, 1 << 20, 0, 0, 4}, cfg{"", "jitter0.3+offset(4096,-8192)", 0.3, 1, 4096, -8192, 4},
			// the two configurations in which the known findings (slivers, tiny coordinates) occur
			cfg{"", "jitter1e-4", 1e-4, 1, 0, 0, 4}, cfg{"", "jitter0.3*2^-20", 0.3, 1.0 / (1 << 20), 0, 0, 4})
	}
	// nearly horizontal edges (y one ulp apart) at the origin and at coordinates of 1e4
	cfgs = append(cfgs, cfg{"y1ulp", "jitter0.3,pairs-1ulp-apart-in-y", 0.3, 1, 0, 0, 4}, cfg{"y1ulp", "jitter0.3,pairs-1ulp-apart-in-y+offset(10004,10004)", 0.3, 1, 10004, 10004, 4},
		cfg{"y1ulp", "jitter0.3,pairs-1ulp-apart-in-y+offset(-16384,8192)", 0.3, 1, -16384, 8192, 4})
	// far from the origin in every quadrant direction (the triangulation must not depend on where the set lies)
	cfgs = append(cfgs, cfg{"", "jitter0.3+offset(0,32768)", 0.3, 1, 0, 32768, 4}, cfg{"", "jitter0.3+offset(-65536,16384)", 0.3, 1, -65536, 16384, 4}, cfg{"", "jitter0.3+offset(32768,0)", 0.3, 1, 32768, 0, 4})
	for _, cf := range cfgs {
		var pts []v2.Vec
		for i := 0; i < cf.grid*cf.grid; i++ {
			jx, jy := jitter(i)
			x := (float64(i%cf.grid) + cf.eps*jx)
			y := (float64(i/cf.grid) + cf.eps*jy)
			pts = append(pts, v2.Vec{X: (x + cf.ox) * cf.scale, Y: (y + cf.oy) * cf.scale})
		}
		for i := 0; i+1 < len(pts); i += 2 {
			switch cf.pair {
			case "y1ulp": // pairs of points whose y differs in the last bit only (a nearly horizontal edge)
				pts[i+1].Y = math.Nextafter(pts[i].Y, math.Inf(1))
			case "y":
				pts[i+1].Y = pts[i].Y
			case "x":
				pts[i+1].X = pts[i].X
			}
		}
		sort.Slice(pts, func(i, j int) bool {
			if pts[i].X != pts[j].X {
				return pts[i].X < pts[j].X
			}
			return pts[i].Y < pts[j].Y
		})
		tb, why := build(pts)
		if tb == nil {
			c.HarnessError("configuration %s is not in general position: %s", cf.name, why)
			continue
		}
		maxK := vlib.Pick(c, 6, 9)
		if cf.grid == 5 {
			maxK = 6
		}
		if cf.name == "jitter0.3" && c.Thorough() {
			maxK = 10
		}
		subs := subsets(len(pts), 3, maxK)
		var tr int64
		done := c.ParFor(len(subs)*2, func(idx int) {
			S := subs[idx/2]
			rev := idx%2 == 1
			n := len(S)
			in := make(v2.VecSet, n)
			for i, g := range S {
				if rev {
					in[n-1-i] = pts[g]
				} else {
					in[i] = pts[g]
				}
			}
			slowIn := make(v2.VecSet, n)
			for i, g := range S {
				slowIn[i] = pts[g]
			}
			rep := func(extra map[string]any) map[string]any {
				m := map[string]any{"config": cf.name, "subset": S, "reversed_input": rev, "points": slowIn}
				for k, v := range extra {
					m[k] = v
				}
				return m
			}
			var fast render.TriangleISet
			var err error
			var crashed any
			func() {
				defer func() { crashed = recover() }()
				fast, err = render.Delaunay2d(in)
			}()
			if crashed != nil {
				c.Violation("Delaunay2d|panic", fmt.Sprintf("%s %v: Delaunay2d panicked (%v) while other triangulations were being computed", cf.name, S, crashed), rep(nil))
				return
			}
			if err != nil {
				c.Violation("Delaunay2d|error", fmt.Sprintf("%s %v: error %v", cf.name, S, err), rep(nil))
				return
			}
			// the result belongs to the caller: work on a copy and make sure the original is still the same at the end
			// (another call - later, or concurrent in this parallel loop - must not change it)
			returned := fast
			fast = append(render.TriangleISet{}, fast...)
			defer func() {
				same := len(returned) == len(fast)
				for i := 0; same && i < len(fast); i++ {
					same = returned[i] == fast[i]
				}
				if !same {
					c.Violation("Delaunay2d|result-changed-by-a-later-call", fmt.Sprintf("%s %v: the returned set changed while other triangulations were computed", cf.name, S), rep(nil))
				}
			}()
			for _, t := range fast {
				for _, ix := range t {
					if ix < 0 || ix >= n {
						c.Violation("Delaunay2d|vertex-index-out-of-range", fmt.Sprintf("%s %v: triangle %v refers to vertex %d of %d", cf.name, S, t, ix, n), rep(map[string]any{"fast": fast}))
						return
					}
				}
			}
			// after the call `in` is sorted by x (ties in unspecified order): map result indices to ours
			loc := make([]int, n)
			seen := make([]bool, n)
			for i := range in[:n] {
				loc[i] = -1
				for g := 0; g < n; g++ {
					if !seen[g] && in[i] == pts[S[g]] {
						loc[i], seen[g] = g, true
						break
					}
				}
				if loc[i] < 0 || (i > 0 && in[i].X < in[i-1].X) {
					c.Violation("Delaunay2d|input-not-sorted-in-place", fmt.Sprintf("%s %v: vertex %d after the call is %v", cf.name, S, i, in[i]), rep(nil))
					return
				}
			}
			// exact reference: all triples with empty circumcircle
			ref := map[[3]int]bool{}
			for a := 0; a < n; a++ {
				for b := a + 1; b < n; b++ {
					for d := b + 1; d < n; d++ {
						empty := true
						for e := 0; e < n; e++ {
							if e == a || e == b || e == d {
								continue
							}
							if tb.inc[[4]int{S[a], S[b], S[d], S[e]}] > 0 {
								empty = false
								break
							}
						}
						if empty {
							ref[[3]int{a, b, d}] = true
						}
					}
				}
			}
			// mechanism predicate for the known scale defect: some point that is exactly outside a
			// circumcircle has a float margin below the library's absolute epsilon (1e-12)
			absEps := func() bool {
				for a := 0; a < n; a++ {
					for b := a + 1; b < n; b++ {
						for d := b + 1; d < n; d++ {
							for e := 0; e < n; e++ {
								if e == a || e == b || e == d {
									continue
								}
								if tb.inc[[4]int{S[a], S[b], S[d], S[e]}] < 0 && floatMargin(slowIn[a], slowIn[b], slowIn[d], slowIn[e]) <= 1e-12 {
									return true
								}
							}
						}
					}
				}
				return false
			}
			epsKey := "Delaunay2d|wrong-where-absolute-epsilon(1e-12)-exceeds-an-incircle-margin(tiny coordinates)"
			// exact hull size
			onHull := make([]bool, n)
			for a := 0; a < n; a++ {
				for b := a + 1; b < n; b++ {
					pos, neg := 0, 0
					for e := 0; e < n; e++ {
						if e == a || e == b {
							continue
						}
						if tb.orient[S[a]][S[b]][S[e]] > 0 {
							pos++
						} else {
							neg++
						}
					}
					if pos == 0 || neg == 0 {
						onHull[a], onHull[b] = true, true
					}
				}
			}
			h := 0
			for _, x := range onHull {
				if x {
					h++
				}
			}
			var cmp int64
			got := map[[3]int]int{}
			var gl [][3]int
			bad := false
			for _, t := range fast {
				if t[0] < 0 || t[1] < 0 || t[2] < 0 || t[0] >= n || t[1] >= n || t[2] >= n || t[0] == t[1] || t[1] == t[2] || t[0] == t[2] {
					c.Violation("Delaunay2d|invalid-index-triple", fmt.Sprintf("%s %v: triple %v", cf.name, S, t), rep(map[string]any{"fast": fast}))
					bad = true
					break
				}
				k := tri3(loc[t[0]], loc[t[1]], loc[t[2]])
				got[k]++
				gl = append(gl, k)
			}
			if bad {
				return
			}
			// empty circle + duplicates
			for k, m := range got {
				cmp++
				if m > 1 {
					c.Violation("Delaunay2d|duplicate-triangle", fmt.Sprintf("%s %v: triangle %v x%d", cf.name, S, k, m), rep(map[string]any{"fast": fast}))
				}
				for e := 0; e < n; e++ {
					if e == k[0] || e == k[1] || e == k[2] {
						continue
					}
					if tb.inc[[4]int{S[k[0]], S[k[1]], S[k[2]], S[e]}] > 0 {
						if absEps() {
							break
						}
						c.Violation("Delaunay2d|point-strictly-inside-circumcircle", fmt.Sprintf("%s %v: triangle %v contains point %d in its circumcircle", cf.name, S, k, e), rep(map[string]any{"fast": fast}))
						break
					}
				}
			}
			// set comparison with the exact reference
			var missing, extra [][3]int
			for k := range ref {
				if got[k] == 0 {
					missing = append(missing, k)
				}
			}
			for k := range got {
				if !ref[k] {
					extra = append(extra, k)
				}
			}
			if len(ref) != 2*n-2-h {
				c.HarnessError("oracle inconsistency: %s %v: %d empty-circle triples, 2n-2-h=%d", cf.name, S, len(ref), 2*n-2-h)
			}
			if (len(extra) > 0 || len(missing) > 0) && absEps() {
				c.Violation(epsKey, fmt.Sprintf("%s %v: extra %v missing %v", cf.name, S, extra, missing), rep(map[string]any{"fast": fast}))
			} else if len(extra) > 0 {
				c.Violation("Delaunay2d|non-delaunay-triangles", fmt.Sprintf("%s %v: extra %v missing %v", cf.name, S, extra, missing), rep(map[string]any{"fast": fast}))
			} else if len(missing) > 0 {
				sliver := true
				for _, k := range missing {
					r := circumradius(pts[S[k[0]]], pts[S[k[1]]], pts[S[k[2]]])
					hullEdge := false
					for e := 0; e < 3; e++ {
						a, b := k[e], k[(e+1)%3]
						pos, neg := 0, 0
						for x := 0; x < n; x++ {
							if x == a || x == b {
								continue
							}
							if tb.orient[S[a]][S[b]][S[x]] > 0 {
								pos++
							} else {
								neg++
							}
						}
						if pos == 0 || neg == 0 {
							hullEdge = true
						}
					}
					// extent of this subset
					mn, mx := slowIn[0], slowIn[0]
					for _, p := range slowIn {
						mn.X, mn.Y = math.Min(mn.X, p.X), math.Min(mn.Y, p.Y)
						mx.X, mx.Y = math.Max(mx.X, p.X), math.Max(mx.Y, p.Y)
					}
					ext := math.Max(mx.X-mn.X, mx.Y-mn.Y)
					_ = hullEdge
					if !(r > 1e3*ext) {
						sliver = false
					}
				}
				if sliver {
					c.Violation("Delaunay2d|result-is-delaunay-minus-slivers(circumradius>1e3*extent)", fmt.Sprintf("%s %v: missing slivers %v", cf.name, S, missing), rep(map[string]any{"fast": fast}))
				} else {
					c.Violation("Delaunay2d|missing-triangles", fmt.Sprintf("%s %v: missing %v (count %d, 2n-2-h=%d)", cf.name, S, missing, len(got), 2*n-2-h), rep(map[string]any{"fast": fast}))
				}
			}
			// slow reference (input order = sorted order)
			if !rev {
				slow, err := render.Delaunay2dSlow(slowIn)
				if err != nil {
					c.Violation("Delaunay2dSlow|error", fmt.Sprintf("%s %v: %v", cf.name, S, err), rep(nil))
				} else {
					sg := map[[3]int]bool{}
					for _, t := range slow {
						sg[tri3(t[0], t[1], t[2])] = true
					}
					same := len(sg) == len(ref)
					for k := range ref {
						if !sg[k] {
							same = false
						}
					}
					cmp++
					if !same {
						c.Violation("Delaunay2dSlow|differs-from-exact-delaunay", fmt.Sprintf("%s %v: slow %v", cf.name, S, slow), rep(map[string]any{"slow": slow}))
					}
					// the library's own equality on the two results (when the fast one is complete)
					if len(missing) == 0 && len(extra) == 0 {
						// orientation of both results must agree for Equals to hold; the property only
						// states set equality, so Equals is exercised on orientation-normalised copies
						norm := func(ts render.TriangleISet, mp []int) render.TriangleISet {
							o := make(render.TriangleISet, len(ts))
							for i, t := range ts {
								if mp != nil {
									t = render.TriangleI{mp[t[0]], mp[t[1]], mp[t[2]]}
								}
								if tb.orient[S[t[0]]][S[t[1]]][S[t[2]]] < 0 {
									t[1], t[2] = t[2], t[1]
								}
								o[i] = t
							}
							return o
						}
						// the results as returned (vertex numbering mapped, winding untouched): the library's own test compares
						// them with Equals, so both implementations must wind their triangles the same way
						raw := make(render.TriangleISet, len(fast))
						for i, t := range fast {
							raw[i] = render.TriangleI{loc[t[0]], loc[t[1]], loc[t[2]]}
						}
						if !raw.Equals(append(render.TriangleISet{}, slow...)) {
							c.Violation("TriangleISet.Equals|fast-and-slow-results-wind-their-triangles-differently", fmt.Sprintf("%s %v: Equals(fast, slow) is false on the results as returned: fast %v slow %v", cf.name, S, raw, slow), rep(map[string]any{"fast": fast, "slow": slow}))
						}
						cmp++
						if !norm(fast, loc).Equals(norm(slow, nil)) {
							c.Violation("TriangleISet.Equals|false-for-equal-sets(real triangulations)", fmt.Sprintf("%s %v: Equals(fast, slow) false although both are the same set: fast %v slow %v", cf.name, S, fast, slow), rep(map[string]any{"fast": fast, "slow": slow}))
						}
					}
				}
				if len(gl) <= 5 && len(missing) == 0 && len(extra) == 0 {
					<-smallMu
					k := setKey(gl)
					if _, ok := smallTris[k]; !ok {
						cp := make([]render.TriangleI, len(fast))
						copy(cp, fast)
						smallTris[k] = cp
					}
					smallMu <- struct{}{}
				}
			}
			nontrivial.Add(fmt.Sprintf("%s|n=%d|h=%d|t=%d", cf.name, n, h, len(got)), 1)
			atomic.AddInt64(&tr, cmp)
		})
		states += done
		trans += tr
		samples = append(samples, map[string]any{"config": cf.name, "subset": subs[len(subs)/2], "first_point": pts[0], "subsets": len(subs), "orders": 2})
	}

	// ---- Equals: permutations x rotations
	perms := func(n int) [][]int {
		var out [][]int
		var rec func(cur []int, used []bool)
		rec = func(cur []int, used []bool) {
			if len(cur) == n {
				out = append(out, append([]int{}, cur...))
				return
			}
			for i := 0; i < n; i++ {
				if !used[i] {
					used[i] = true
					rec(append(cur, i), used)
					used[i] = false
				}
			}
		}
		rec(nil, make([]bool, n))
		return out
	}
	rot := func(t render.TriangleI, r int) render.TriangleI {
		for ; r > 0; r-- {
			t = render.TriangleI{t[1], t[2], t[0]}
		}
		return t
	}
	var eqCalls int64
	checkSet := func(base []render.TriangleI, origin string) {
		n := len(base)
		pw := 1
		for i := 0; i < n; i++ {
			pw *= 3
		}
		for _, pm := range perms(n) {
			for r := 0; r < pw; r++ {
				x := make(render.TriangleISet, n)
				rr := r
				for i := 0; i < n; i++ {
					x[i] = rot(base[pm[i]], rr%3)
					rr /= 3
				}
				orig := make(render.TriangleISet, n)
				copy(orig, base)
				xin := make(render.TriangleISet, n)
				copy(xin, x)
				atomic.AddInt64(&eqCalls, 1)
				if !orig.Equals(x) {
					c.Violation("TriangleISet.Equals|depends-on-order-or-rotation", fmt.Sprintf("%s: %v .Equals(%v) = false", origin, base, xin),
						map[string]any{"kind": "equals", "a": base, "b": xin})
					return
				}
			}
		}
	}
	// (a) real triangulations with <= 5 triangles
	var keys []string
	for k := range smallTris {
		keys = append(keys, k)
	}
	sort.Strings(keys)
	c.ParFor(len(keys), func(i int) { checkSet(smallTris[keys[i]], "triangulation") })
	states += int64(len(keys))
	// (b) all sets of <= m distinct triples over {0..5}
	var triples []render.TriangleI
	for a := 0; a < 6; a++ {
		for b := a + 1; b < 6; b++ {
			for d := b + 1; d < 6; d++ {
				triples = append(triples, render.TriangleI{a, b, d})
			}
		}
	}
	m := vlib.Pick(c, 3, 4)
	sets := subsets(len(triples), 1, m)
	c.ParFor(len(sets), func(i int) {
		base := make([]render.TriangleI, len(sets[i]))
		for j, t := range sets[i] {
			base[j] = triples[t]
			if (i+j)%2 == 1 { // mixed windings
				base[j] = render.TriangleI{base[j][0], base[j][2], base[j][1]}
			}
		}
		checkSet(base, "triple-set")
		// negative: replacing one triangle by a triple not in the set must compare unequal
		for j := range base {
			for _, t := range triples {
				in := false
				for _, q := range sets[i] {
					if triples[q] == t {
						in = true
					}
				}
				if in {
					continue
				}
				a := make(render.TriangleISet, len(base))
				copy(a, base)
				b := make(render.TriangleISet, len(base))
				copy(b, base)
				b[j] = t
				atomic.AddInt64(&eqCalls, 1)
				if a.Equals(b) {
					c.Violation("TriangleISet.Equals|true-for-different-sets", fmt.Sprintf("%v .Equals(%v) = true", base, b), map[string]any{"kind": "equals", "a": base, "b": b})
				}
				break
			}
		}
	})
	states += int64(len(sets))
	trans += eqCalls
	samples = append(samples, map[string]any{"equals_sets": len(sets), "real_triangulations": len(keys), "example": triples[:3]})
	// larger sets in which one insertion re-triangulates a big cavity: a long convex chain (points near an arc,
	// radii perturbed so that no four are cocircular) and one point that sees the whole chain, in four
	// orientations; exact predicates: triangle count 2n-2-h, nothing strictly inside a circumcircle, and
	// agreement with the slow reference
	for _, m := range []int{12, 23, 40, 70} {
		for rot := 0; rot < 4; rot++ {
			vs := make(v2.VecSet, 0, m+1)
			for i := 0; i < m; i++ {
				a := (100.0+160.0*float64(i)/float64(m-1))*math.Pi/180.0 + float64(rot)*math.Pi/2
				r := 10.0 + 1e-3*math.Sin(float64(7*i+1))
				vs = append(vs, v2.Vec{X: r * math.Cos(a), Y: r * math.Sin(a)})
			}
			ca := float64(rot) * math.Pi / 2
			vs = append(vs, v2.Vec{X: 0.3*math.Cos(ca) - 0.1*math.Sin(ca), Y: 0.3*math.Sin(ca) + 0.1*math.Cos(ca)})
			n := len(vs)
			in := append(v2.VecSet{}, vs...)
			fast, err := render.Delaunay2d(in)
			states++
			desc := map[string]any{"config": fmt.Sprintf("arc of %d points + centre, rotated %d quarter turns", m, rot), "points": vs}
			if err != nil {
				c.Violation("Delaunay2d|error", fmt.Sprintf("arc of %d points + centre: %v", m, err), desc)
				continue
			}
			// hull size by exact orientation tests (a point is on the hull iff some line through it has all others on one side)
			h := 0
			for i := 0; i < n; i++ {
				on := false
				for j := 0; j < n && !on; j++ {
					if j == i {
						continue
					}
					side, ok := 0, true
					for k := 0; k < n && ok; k++ {
						if k == i || k == j {
							continue
						}
						o := orient(in[i], in[j], in[k])
						if side == 0 {
							side = o
						} else if o != side {
							ok = false
						}
					}
					on = ok
				}
				if on {
					h++
				}
			}
			bad := ""
			if len(fast) != 2*n-2-h {
				bad = fmt.Sprintf("%d triangles, 2n-2-h = %d", len(fast), 2*n-2-h)
			}
			for _, t := range fast {
				if bad != "" {
					break
				}
				if t[0] < 0 || t[1] < 0 || t[2] < 0 || t[0] >= n || t[1] >= n || t[2] >= n || t[0] == t[1] || t[1] == t[2] || t[0] == t[2] {
					bad = fmt.Sprintf("invalid triple %v", t)
					break
				}
				a, b, d := in[t[0]], in[t[1]], in[t[2]]
				if orient(a, b, d) < 0 {
					b, d = d, b
				}
				for e := 0; e < n; e++ {
					if e != t[0] && e != t[1] && e != t[2] && incircle(a, b, d, in[e]) > 0 {
						bad = fmt.Sprintf("point %d lies strictly inside the circumcircle of triangle %v", e, t)
						break
					}
				}
			}
			if bad == "" {
				if slow, err := render.Delaunay2dSlow(in); err == nil && !append(render.TriangleISet{}, fast...).Equals(slow) {
					bad = fmt.Sprintf("differs from Delaunay2dSlow (%d vs %d triangles)", len(fast), len(slow))
				}
			}
			if bad != "" {
				c.Violation("Delaunay2d|large-cavity|not-the-delaunay-triangulation", fmt.Sprintf("arc of %d points + a point that sees them all (rotated %d quarter turns): %s", m, rot, bad), desc)
			}
		}
	}
	// histories: a result that is kept while further triangulations are computed must not change (the result
	// belongs to the caller), for the fast and the reference implementation, smaller / equal / larger second sets
	{
		mkSet := func(n int, seed int) v2.VecSet {
			vs := make(v2.VecSet, n)
			for i := range vs {
				jx, jy := jitter(i*7 + seed)
				vs[i] = v2.Vec{X: float64(i%4) + 0.3*jx, Y: float64(i/4) + 0.3*jy}
			}
			return vs
		}
		for _, impl := range []string{"Delaunay2d", "Delaunay2dSlow"} {
			call := func(vs v2.VecSet) (render.TriangleISet, error) {
				if impl == "Delaunay2d" {
					return render.Delaunay2d(vs)
				}
				return render.Delaunay2dSlow(vs)
			}
			for _, sizes := range [][2]int{{9, 5}, {9, 9}, {6, 12}, {12, 3}} {
				first, err := call(mkSet(sizes[0], 1))
				if err != nil {
					continue
				}
				saved := append(render.TriangleISet{}, first...)
				_, _ = call(mkSet(sizes[1], 5))
				_, _ = call(mkSet(4, 9))
				states++
				same := len(saved) == len(first)
				for i := 0; same && i < len(saved); i++ {
					same = saved[i] == first[i]
				}
				if !same {
					c.Violation(impl+"|result-changed-by-a-later-call", fmt.Sprintf("%s of %d points: the returned set changed after triangulating %d and 4 other points", impl, sizes[0], sizes[1]), map[string]any{"implementation": impl, "first_set": sizes[0], "second_set": sizes[1], "kept_result": saved, "now": first})
				}
			}
		}
	}
	c.Guard(">=20 distinct (n,h,t) shape classes of point subsets", nontrivial.Len() >= 20, fmt.Sprint(nontrivial.Len()))
	c.Guard(">=5 distinct real triangulations permuted", len(keys) >= 5, fmt.Sprint(len(keys)))

	c.Finish(vlib.Coverage{
		States: states, Transitions: trans, Evaluations: states, Nontrivial: int64(nontrivial.Len()) + int64(len(keys)) + int64(len(sets)),
		Rule:       "states = (configuration, subset, input order) triples run through the real Delaunay2d/Delaunay2dSlow + triangle sets run through Equals under every permutation and rotation; transitions = exact-predicate comparisons and Equals calls; non-trivial = distinct (config,n,hull size,triangle count) classes + distinct triangle sets",
		Samples:    samples,
		Exhaustive: true,
		Bounds:     map[string]any{"point_lattice": "4x4 (5x5 thorough, size<=5) with fixed jitter table", "subset_sizes": "3..6 quick, 3..7 thorough (8 for jitter 0.3)", "configs": len(cfgs), "equals_set_size": m, "equals_index_range": "0..5"},
		Assumptions: []string{"general position is verified exactly (big.Rat) for each configuration; point sets with ties are outside the property", "reference = all triples with exactly-empty circumcircle (unique Delaunay triangulation in general position)",
			"set equality is compared on unordered index triples; orientation of the returned triples is not part of the property"},
	})
}
