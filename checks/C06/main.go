// C06 — mesh vertices lie on the surface; the mesh is complete and accurate.
// Engine L + E: (A) lookup tables over the discovered lattice (single-cell families, position-coded
// fields on lattices whose layers hit the evaluation batch size exactly / +1 / twice) with the
// independent "vertex is the linear zero crossing of a straddling lattice edge" oracle;
// (B) analytic families (planes in 124 directions, spheres, exact solids) with the bounds of the
// property, completeness, normals, containment and second-order volume convergence.
package main

import (
	"fmt"
	"math"
	"sync/atomic"

	"github.com/deadsy/sdfx/render"
	"github.com/deadsy/sdfx/sdf"
	v3 "github.com/deadsy/sdfx/vec/v3"

	"verif/lib/lattice"
	"verif/lib/mesh"
	"verif/lib/vlib"
)

type boxed struct {
	f  func(p v3.Vec) float64
	bb sdf.Box3
}

func (b boxed) Evaluate(p v3.Vec) float64 { return b.f(p) }
func (b boxed) BoundingBox() sdf.Box3     { return b.bb }

func cube(x, y, z float64) sdf.Box3 {
	return sdf.Box3{Min: v3.Vec{X: -x / 2, Y: -y / 2, Z: -z / 2}, Max: v3.Vec{X: x / 2, Y: y / 2, Z: z / 2}}
}

type rmk struct {
	name string
	mk   func(n int) render.Render3
}

var renderers = []rmk{
	{"uniform", func(n int) render.Render3 { return render.NewMarchingCubesUniform(n) }},
	{"octree", func(n int) render.Render3 { return render.NewMarchingCubesOctree(n) }},
}

// checkVertices runs the vertex oracle for every vertex of ts against corner values val.
func checkVertices(c *vlib.Ctx, l *lattice.Lat3, ts []*sdf.Triangle3, val func(i, j, k int) float64, ftol float64, key string, what string, desc map[string]any) int {
	cell := l.Cell()
	h := math.Min(cell.X, math.Min(cell.Y, cell.Z))
	n := 0
	nx, ny, nz := l.NC()
	lo, hi := l.Corner(0, 0, 0), l.Corner(nx-1, ny-1, nz-1)
	for _, t := range ts {
		for _, p := range t {
			n++
			if p.X < lo.X-1e-9*h || p.Y < lo.Y-1e-9*h || p.Z < lo.Z-1e-9*h || p.X > hi.X+1e-9*h || p.Y > hi.Y+1e-9*h || p.Z > hi.Z+1e-9*h {
				c.Violation(key+"|vertex-outside-sampled-box", fmt.Sprintf("%s: vertex %v outside the sampled box %v..%v", what, p, lo, hi), desc)
				return n
			}
			if ok, why := l.VertexCheck(p, val, 1e-9*h, ftol); !ok {
				c.Violation(key+"|vertex-not-zero-crossing-of-straddling-lattice-edge", fmt.Sprintf("%s: %s", what, why), desc)
				return n
			}
		}
	}
	return n
}

// point-triangle distance (own code)
func ptTri(p v3.Vec, t *sdf.Triangle3) float64 {
	a, b, c := t[0], t[1], t[2]
	ab, ac, ap := b.Sub(a), c.Sub(a), p.Sub(a)
	d1, d2 := ab.Dot(ap), ac.Dot(ap)
	if d1 <= 0 && d2 <= 0 {
		return ap.Length()
	}
	bp := p.Sub(b)
	d3, d4 := ab.Dot(bp), ac.Dot(bp)
	if d3 >= 0 && d4 <= d3 {
		return bp.Length()
	}
	vc := d1*d4 - d3*d2
	if vc <= 0 && d1 >= 0 && d3 <= 0 {
		return p.Sub(a.Add(ab.MulScalar(d1 / (d1 - d3)))).Length()
	}
	cp := p.Sub(c)
	d5, d6 := ab.Dot(cp), ac.Dot(cp)
	if d6 >= 0 && d5 <= d6 {
		return cp.Length()
	}
	vb := d5*d2 - d1*d6
	if vb <= 0 && d2 >= 0 && d6 <= 0 {
		return p.Sub(a.Add(ac.MulScalar(d2 / (d2 - d6)))).Length()
	}
	va := d3*d6 - d5*d4
	if va <= 0 && (d4-d3) >= 0 && (d5-d6) >= 0 {
		w := (d4 - d3) / ((d4 - d3) + (d5 - d6))
		return p.Sub(b.Add(c.Sub(b).MulScalar(w))).Length()
	}
	den := 1 / (va + vb + vc)
	v, w := vb*den, vc*den
	return p.Sub(a.Add(ab.MulScalar(v)).Add(ac.MulScalar(w))).Length()
}

func distToMesh(p v3.Vec, ts []*sdf.Triangle3, limit float64) float64 {
	best := math.Inf(1)
	for _, t := range ts {
		// cheap reject
		if math.Abs(t[0].X-p.X) > limit+best && best < math.Inf(1) {
			continue
		}
		d := ptTri(p, t)
		if d < best {
			best = d
		}
	}
	return best
}

func main() {
	c := vlib.Start("C06")
	var states, trans, nontrivial int64
	samples := []any{}

	// ================= A1: single free cell tables, both renderers =================
	type blk struct {
		name, rname string
		mk          func() render.Render3
		l           *lattice.Lat3
		free        [][3]int
		sigma       float64
	}
	mkBlock := func(name, rname string, mk func() render.Render3, bb sdf.Box3, neutral float64, first int) *blk {
		l, err := lattice.Discover3(mk(), bb, neutral)
		if ce, ok := err.(*lattice.CoverageError); ok {
			c.Violation(rname+"|sampled-volume-does-not-cover-bounding-box|cell-never-visited", ce.Msg, map[string]any{"renderer": rname, "unvisited_corner": ce.Corner})
			return nil
		}
		if err != nil {
			c.HarnessError("discover %s: %v", name, err)
			return nil
		}
		b := &blk{name: name, rname: rname, mk: mk, l: l, sigma: 1}
		if l.Stride == 2 {
			b.sigma = 0.2 * l.Cell().X
		}
		for i := first; i < first+2; i++ {
			for j := first; j < first+2; j++ {
				for k := first; k < first+2; k++ {
					b.free = append(b.free, [3]int{i, j, k})
				}
			}
		}
		return b
	}
	blocks := []*blk{
		mkBlock("uniform-2x2x2", "uniform", func() render.Render3 { return render.NewMarchingCubesUniform(2) }, cube(2, 2, 2), 1, 1),
		mkBlock("octree-2x2x2", "octree", func() render.Render3 { return render.NewMarchingCubesOctree(5) }, cube(5, 5, 5), 0, 2),
	}
	tern := []float64{-1, 0, 1}
	mags := []float64{0.25, 1e-13, 3}
	type pat struct {
		c1, c2 int
		m1, m2 float64
	}
	pats := []pat{{-1, -1, 0, 0}}
	for a := 0; a < 8; a++ {
		for _, m := range mags {
			pats = append(pats, pat{a, -1, m, 0})
		}
		for b := a + 1; b < 8; b++ {
			for _, m1 := range mags {
				for _, m2 := range mags {
					pats = append(pats, pat{a, b, m1, m2})
				}
			}
		}
	}
	var nv int64
	for _, b := range blocks {
		if b == nil {
			continue
		}
		b := b
		runTable := func(vals []float64, fam string, idx int) {
			f := b.l.NewField3(2 * b.sigma)
			for n, fc := range b.free {
				f.Set(fc[0], fc[1], fc[2], vals[n]*b.sigma)
			}
			ts := render.ToTriangles(f, b.mk())
			desc := map[string]any{"block": b.name, "family": fam, "index": idx, "values": vals}
			special := "generic"
			for _, v := range vals {
				if v == 0 {
					special = "exact-zero"
				} else if math.Abs(v) < 1e-12 && special == "generic" {
					special = "tiny-magnitude"
				}
			}
			n := checkVertices(c, b.l, ts, f.At, 2e-12, b.rname+"|table|"+special, fmt.Sprintf("%s values %v", b.name, vals), desc)
			atomic.AddInt64(&nv, int64(n))
			if len(ts) > 0 {
				atomic.AddInt64(&nontrivial, 1)
			}
		}
		states += c.ParFor(6561, func(i int) {
			v := make([]float64, 8)
			x := i
			for k := 0; k < 8; k++ {
				v[k] = tern[x%3]
				x /= 3
			}
			runTable(v, "ternary^8", i)
		})
		states += c.ParFor(256*len(pats), func(i int) {
			cfg, p := i%256, pats[i/256]
			v := make([]float64, 8)
			for k := 0; k < 8; k++ {
				v[k] = 1
				if cfg&(1<<k) != 0 {
					v[k] = -1
				}
				if k == p.c1 {
					v[k] *= p.m1
				}
				if k == p.c2 {
					v[k] *= p.m2
				}
			}
			runTable(v, "signs x magnitudes", i)
		})
		samples = append(samples, map[string]any{"block": b.name, "families": "ternary^8; 256 signs x <=2 corners with magnitude 1/4, 1e-13 or 3", "patterns": len(pats)})
	}

	// ================= A2/A3: position-coded fields on lattices hitting the batch size =================
	type pc struct {
		name  string
		bb    sdf.Box3
		n     int
		layer int // expected (ny+1)*(nz+1); 0 = do not care
	}
	pcs := []pc{
		{"cube n=7 (layer 81)", cube(7, 7, 7), 7, 81}, {"cube n=8 (layer 100 = one batch exactly)", cube(8, 8, 8), 8, 100},
		{"cube n=9 (layer 121)", cube(9, 9, 9), 9, 121}, {"3x8x18 n=18 (layer 200 = two batches exactly)", cube(3, 8, 18), 18, 200},
		{"cube n=13 (layer 225)", cube(13, 13, 13), 13, 225}, {"4x13x18 n=18 (layer 300)", cube(4, 13, 18), 18, 300},
		{"5x7x9 n=9 (layer 99)", cube(5, 7, 9), 9, 99},
	}
	patterns := []string{"ball", "checker", "stripes-x", "stripes-z", "ball+zeros"}
	type pj struct {
		pc  pc
		r   rmk
		pat string
	}
	var pjobs []pj
	for _, p := range pcs {
		for _, r := range renderers {
			for _, pt := range patterns {
				pjobs = append(pjobs, pj{p, r, pt})
			}
		}
	}
	states += c.ParFor(len(pjobs), func(i int) {
		j := pjobs[i]
		neutral := 1.0
		if j.r.name == "octree" {
			neutral = 0
		}
		l, err := lattice.Discover3(j.r.mk(j.pc.n), j.pc.bb, neutral)
		if ce, ok := err.(*lattice.CoverageError); ok {
			c.Violation(j.r.name+"|sampled-volume-does-not-cover-bounding-box|cell-never-visited", ce.Msg, map[string]any{"renderer": j.r.name, "unvisited_corner": ce.Corner})
			return
		}
		if err != nil {
			c.HarnessError("discover %s %s: %v", j.pc.name, j.r.name, err)
			return
		}
		nx, ny, nz := l.NC()
		if j.r.name == "uniform" && j.pc.layer != 0 && ny*nz != j.pc.layer {
			c.Note("lattice %s has layer size %d (wanted %d): batch-boundary alignment not exercised by this entry", j.pc.name, ny*nz, j.pc.layer)
		}
		sigma := 1.0
		if l.Stride == 2 {
			sigma = 0.1 * l.Cell().X
		}
		f := l.NewField3(2 * sigma)
		N := float64(nx * ny * nz)
		cx, cy, cz := float64(nx-1)/2, float64(ny-1)/2, float64(nz-1)/2
		rad := math.Min(cx, math.Min(cy, cz)) - 1.2
		for a := 1; a < nx-1; a++ {
			for b := 1; b < ny-1; b++ {
				for d := 1; d < nz-1; d++ {
					code := float64((a*ny+b)*nz+d) / N
					sgn := 1.0
					switch j.pat {
					case "ball", "ball+zeros":
						if math.Sqrt((float64(a)-cx)*(float64(a)-cx)+(float64(b)-cy)*(float64(b)-cy)+(float64(d)-cz)*(float64(d)-cz)) < rad {
							sgn = -1
						}
					case "checker":
						if (a+b+d)%2 == 0 {
							sgn = -1
						}
					case "stripes-x":
						if a%2 == 0 {
							sgn = -1
						}
					case "stripes-z":
						if d%3 == 0 {
							sgn = -1
						}
					}
					v := sgn * (1 + code) * sigma
					if j.pat == "ball+zeros" {
						lin := (a*ny+b)*nz + d
						if lin%7 == 0 {
							v = 0
						} else if lin%11 == 0 {
							v = sgn * 1e-13 * sigma
						}
					}
					f.Set(a, b, d, v)
				}
			}
		}
		ts := render.ToTriangles(f, j.r.mk(j.pc.n))
		desc := map[string]any{"lattice": j.pc.name, "renderer": j.r.name, "pattern": j.pat, "corners": []int{nx, ny, nz}}
		if f.OffLattice.Load() != 0 {
			c.HarnessError("%s %s: %d evaluations off the discovered lattice", j.pc.name, j.r.name, f.OffLattice.Load())
		}
		n := checkVertices(c, l, ts, f.At, 2e-12*sigma, j.r.name+"|position-coded|"+j.pat, fmt.Sprintf("%s %s %s", j.pc.name, j.r.name, j.pat), desc)
		atomic.AddInt64(&nv, int64(n))
		if len(ts) == 0 {
			c.HarnessError("%s %s %s produced no triangles", j.pc.name, j.r.name, j.pat)
		} else {
			atomic.AddInt64(&nontrivial, 1)
		}
	})
	samples = append(samples, map[string]any{"position_coded_lattices": len(pcs), "patterns": patterns, "value_rule": "sign(pattern) * (1 + linear_index/N): every corner value distinct, so a value paired with the wrong coordinate moves the vertex"})

	// ================= B: analytic families =================
	resB := vlib.Pick(c, []int{4, 5, 8, 13, 16}, []int{4, 5, 8, 13, 16, 32, 64})
	// generic runner: renders, builds the corner table by evaluating f at the discovered corners, applies
	// the vertex oracle and a bound on |f(v)|
	type ajob struct {
		name  string
		f     func(p v3.Vec) float64
		bb    sdf.Box3
		n     int
		r     rmk
		bound func(h float64) float64 // bound on |f(vertex)|
		tri   func(h float64) float64 // bound on |f| at triangle sample points (0 = skip)
		grad  func(p v3.Vec) v3.Vec   // outward gradient (nil = skip)
		class string
	}
	var ajobs []ajob
	// planes
	var dirs []v3.Vec
	for x := -2; x <= 2; x++ {
		for y := -2; y <= 2; y++ {
			for z := -2; z <= 2; z++ {
				if x != 0 || y != 0 || z != 0 {
					dirs = append(dirs, v3.Vec{X: float64(x), Y: float64(y), Z: float64(z)})
				}
			}
		}
	}
	offsets := []float64{0, 0.25, -0.5, 1.0 / 3, -0.7}
	planeRes := vlib.Pick(c, []int{4, 5, 8}, []int{4, 5, 8, 13})
	for _, d := range dirs {
		nn := d.Normalize()
		for _, o := range offsets {
			for _, n := range planeRes {
				for _, r := range renderers {
					nn, o := nn, o
					ajobs = append(ajobs, ajob{fmt.Sprintf("plane n=%v offset %g", d, o), func(p v3.Vec) float64 { return p.Dot(nn) - o }, cube(4, 4, 4), n, r,
						func(h float64) float64 { return 1e-9 * 4 }, func(h float64) float64 { return 1e-9 * 4 }, func(v3.Vec) v3.Vec { return nn }, "plane"})
				}
			}
		}
	}
	// planes through lattice points: axis-aligned planes exactly on lattice planes are produced by offsets
	// that are multiples of the cell; with cube(4) and n=4,8 the uniform lattice is at half-integers * cell,
	// the octree lattice at -2.02 + k*cell: covered by the lookup tables above (exact zeros).
	// spheres
	ctrs := []v3.Vec{{}, {X: 0.1}, {Y: -0.1}, {Z: 0.05}, {X: 0.07, Y: 0.07, Z: 0.07}, {X: -0.1, Y: 0.05}, {X: 0.03, Z: -0.09}, {X: 0.125, Y: 0.125, Z: 0.125}, {X: -0.06, Y: -0.06, Z: 0.1}}
	for _, R := range []float64{1, 1.5, 4} {
		for _, ct := range ctrs {
			for _, n := range resB {
				for _, r := range renderers {
					R, ct := R, ct.MulScalar(R)
					ajobs = append(ajobs, ajob{fmt.Sprintf("sphere R=%g centre %v", R, ct), func(p v3.Vec) float64 { return p.Sub(ct).Length() - R }, cube(2.5*R, 2.5*R, 2.5*R), n, r,
						func(h float64) float64 {
							if R-h <= 0 {
								return h
							}
							return h * h / (8 * (R - h)) * (1 + 1e-9)
						}, func(h float64) float64 { return math.Sqrt(3) * h }, func(p v3.Vec) v3.Vec { return p.Sub(ct) }, "sphere"})
				}
			}
		}
	}
	// spheres whose bounding box (and lattice) lies far from the origin: the lattice steps of the three axes are
	// rounded separately, so a position computed with another axis' step shows only here
	for _, ct := range []v3.Vec{{X: 10}, {X: 7.1}, {X: -3.3}, {Y: 7.1}, {Z: -3.3}, {X: 100.3, Y: 5, Z: -5}, {X: -1e3, Y: 1e3, Z: 0.1}, {X: 0.3, Y: 1e4, Z: -20.7}} {
		for _, R := range []float64{1, 0.37} {
			for _, n := range vlib.Pick(c, []int{7, 20, 50}, []int{7, 13, 20, 33, 50, 64}) {
				for _, r := range renderers {
					R, ct := R, ct
					bb := cube(2.5*R, 2.5*R, 2.5*R)
					bb.Min, bb.Max = bb.Min.Add(ct), bb.Max.Add(ct)
					ajobs = append(ajobs, ajob{fmt.Sprintf("sphere R=%g centre %v (box moved with it)", R, ct), func(p v3.Vec) float64 { return p.Sub(ct).Length() - R }, bb, n, r,
						func(h float64) float64 {
							if R-h <= 0 {
								return h
							}
							return h*h/(8*(R-h))*(1+1e-9) + 1e-9*ct.Length()
						}, func(h float64) float64 { return math.Sqrt(3) * h }, func(p v3.Vec) v3.Vec { return p.Sub(ct) }, "sphere-far-from-origin"})
				}
			}
		}
	}
	// very small spheres (cells of 1e-8 .. 1e-5): the vertex bound is relative to the cell, no absolute threshold
	// may capture a vertex
	for _, R := range []float64{3e-8, 1e-7, 1e-5} {
		for _, n := range []int{13, 20} {
			for _, r := range renderers {
				R := R
				ct := v3.Vec{X: 0.07 * R, Y: -0.05 * R, Z: 0.03 * R}
				ajobs = append(ajobs, ajob{fmt.Sprintf("sphere R=%g centre %v", R, ct), func(p v3.Vec) float64 { return p.Sub(ct).Length() - R }, cube(2.5*R, 2.5*R, 2.5*R), n, r,
					func(h float64) float64 { return h * h / (8 * (R - h)) * (1 + 1e-6) }, func(h float64) float64 { return math.Sqrt(3) * h }, func(p v3.Vec) v3.Vec { return p.Sub(ct) }, "tiny-sphere"})
			}
		}
	}
	// exact / 1-Lipschitz solids in 3 poses
	m3 := func(s sdf.SDF3, err error) sdf.SDF3 {
		if err != nil {
			panic(err)
		}
		return s
	}
	poses := []sdf.M44{sdf.Identity3d(), sdf.Rotate3d(v3.Vec{X: 1, Y: 1, Z: 1}.Normalize(), sdf.DtoR(30)), sdf.Translate3d(v3.Vec{X: 0.11, Y: -0.07, Z: 0.05}).Mul(sdf.RotateZ(sdf.DtoR(45)))}
	solids := []struct {
		name string
		s    sdf.SDF3
	}{
		{"box 2x1.5x1", m3(sdf.Box3D(v3.Vec{X: 2, Y: 1.5, Z: 1}, 0))}, {"rounded box", m3(sdf.Box3D(v3.Vec{X: 2, Y: 1.5, Z: 1}, 0.25))},
		{"cylinder", m3(sdf.Cylinder3D(2, 0.7, 0))}, {"cone", m3(sdf.Cone3D(2, 0.9, 0.3, 0.1))},
		{"union", sdf.Union3D(m3(sdf.Sphere3D(0.8)), sdf.Transform3D(m3(sdf.Box3D(v3.Vec{X: 1, Y: 1, Z: 1}, 0)), sdf.Translate3d(v3.Vec{X: 0.6})))},
		{"difference", sdf.Difference3D(m3(sdf.Box3D(v3.Vec{X: 2, Y: 2, Z: 1}, 0)), m3(sdf.Cylinder3D(3, 0.5, 0)))},
	}
	for _, so := range solids {
		for pi, ps := range poses {
			s := sdf.Transform3D(so.s, ps)
			for _, n := range resB {
				for _, r := range renderers {
					ajobs = append(ajobs, ajob{fmt.Sprintf("%s pose %d", so.name, pi), s.Evaluate, cube(3.2, 3.2, 3.2), n, r,
						func(h float64) float64 { return h * (1 + 1e-9) }, func(h float64) float64 { return math.Sqrt(3) * h * (1 + 1e-9) }, nil, "solid"})
				}
			}
		}
	}
	var triPts int64
	states += c.ParFor(len(ajobs), func(i int) {
		j := ajobs[i]
		s := boxed{j.f, j.bb}
		neutral := 1.0
		if j.r.name == "octree" {
			neutral = 0
		}
		l, err := lattice.Discover3(j.r.mk(j.n), j.bb, neutral)
		if ce, ok := err.(*lattice.CoverageError); ok {
			c.Violation(j.r.name+"|sampled-volume-does-not-cover-bounding-box|cell-never-visited", ce.Msg, map[string]any{"renderer": j.r.name, "unvisited_corner": ce.Corner})
			return
		}
		if err != nil {
			c.HarnessError("discover (%s, n=%d, %s): %v", j.name, j.n, j.r.name, err)
			return
		}
		nx, ny, nz := l.NC()
		if lo, hi := l.Corner(0, 0, 0), l.Corner(nx-1, ny-1, nz-1); lo.X > j.bb.Min.X || lo.Y > j.bb.Min.Y || lo.Z > j.bb.Min.Z || hi.X < j.bb.Max.X || hi.Y < j.bb.Max.Y || hi.Z < j.bb.Max.Z {
			c.Violation(j.r.name+"|sampled-volume-does-not-cover-bounding-box", fmt.Sprintf("meshCells=%d %s: cells span %v..%v but the bounding box is %v..%v", j.n, j.r.name, lo, hi, j.bb.Min, j.bb.Max),
				map[string]any{"meshCells": j.n, "renderer": j.r.name, "bb": j.bb})
		}
		tab := make([]float64, nx*ny*nz)
		for a := 0; a < nx; a++ {
			for b := 0; b < ny; b++ {
				for d := 0; d < nz; d++ {
					tab[(a*ny+b)*nz+d] = j.f(l.Corner(a, b, d))
				}
			}
		}
		ts := render.ToTriangles(s, j.r.mk(j.n))
		desc := map[string]any{"shape": j.name, "meshCells": j.n, "renderer": j.r.name, "bb": j.bb}
		key := j.r.name + "|" + j.class
		n := checkVertices(c, l, ts, func(a, b, d int) float64 { return tab[(a*ny+b)*nz+d] }, 2e-12, key, fmt.Sprintf("%s n=%d %s", j.name, j.n, j.r.name), desc)
		atomic.AddInt64(&nv, int64(n))
		cell := l.Cell()
		h := math.Max(cell.X, math.Max(cell.Y, cell.Z))
		bv := j.bound(h)
		for _, t := range ts {
			for _, p := range t {
				if fv := math.Abs(j.f(p)); fv > bv {
					c.Violation(key+"|vertex-off-surface", fmt.Sprintf("%s n=%d %s: |f(v)| = %g at %v exceeds the bound %g (h=%g)", j.name, j.n, j.r.name, fv, p, bv, h), desc)
					return
				}
			}
			if j.tri != nil {
				ctr := t[0].Add(t[1]).Add(t[2]).DivScalar(3)
				for _, q := range []v3.Vec{ctr, t[0].Add(t[1]).MulScalar(0.5), t[1].Add(t[2]).MulScalar(0.5), t[2].Add(t[0]).MulScalar(0.5)} {
					atomic.AddInt64(&triPts, 1)
					if fv := math.Abs(j.f(q)); fv > j.tri(h) {
						c.Violation(key+"|mesh-point-farther-than-a-cell-diagonal-from-surface", fmt.Sprintf("%s n=%d %s: |f| = %g at mesh point %v (cell diagonal %g)", j.name, j.n, j.r.name, fv, q, math.Sqrt(3)*h), desc)
						return
					}
				}
				if j.grad != nil {
					nrm := t[1].Sub(t[0]).Cross(t[2].Sub(t[0]))
					if nrm.Length() > 1e-12*h*h && nrm.Normalize().Dot(j.grad(ctr).Normalize()) <= 0 {
						c.Violation(key+"|normal-against-gradient", fmt.Sprintf("%s n=%d %s: triangle %v has normal %v against the field gradient", j.name, j.n, j.r.name, *t, nrm.Normalize()), desc)
						return
					}
				}
			}
		}
		if len(ts) > 0 {
			atomic.AddInt64(&nontrivial, 1)
		}
	})
	samples = append(samples, map[string]any{"planes": len(dirs) * len(offsets), "plane_resolutions": planeRes, "spheres": 3 * len(ctrs), "solids": len(solids) * len(poses), "resolutions": resB, "renderers": 2})

	// ---- histories with ONE renderer value: a big sphere, then a small one, then the big one again; the
	// lattice of every render must be the one a fresh renderer uses for that shape (added after seed C06-9:
	// a cell size memoised in the renderer value)
	for _, r := range renderers {
		for _, n := range []int{8, 13, 40} {
			rv := r.mk(n)
			for step, R := range []float64{2, 0.25, 2} {
				R := R
				f := func(p v3.Vec) float64 { return p.Length() - R }
				bb := sdf.Box3{Min: v3.Vec{X: -1.25 * R, Y: -1.25 * R, Z: -1.25 * R}, Max: v3.Vec{X: 1.25 * R, Y: 1.25 * R, Z: 1.25 * R}}
				neutral := 1.0
				if r.name == "octree" {
					neutral = 0
				}
				l, err := lattice.Discover3(r.mk(n), bb, neutral)
				if err != nil {
					c.HarnessError("discover (history, n=%d, %s): %v", n, r.name, err)
					continue
				}
				nx, ny, nz := l.NC()
				ts := render.ToTriangles(boxed{f, bb}, rv)
				states++
				desc := map[string]any{"history": "spheres R=2, 0.25, 2 rendered with one renderer value", "render": step + 1, "meshCells": n, "renderer": r.name}
				nvv := checkVertices(c, l, ts, func(a, b, d int) float64 { return f(l.Corner(a, b, d)) }, 2e-12, r.name+"|history-with-one-renderer-value", fmt.Sprintf("render %d of spheres R=2,0.25,2 with one %s renderer value, n=%d", step+1, r.name, n), desc)
				nv += int64(nvv)
				_, _, _ = nx, ny, nz
				if len(ts) == 0 {
					c.Violation(r.name+"|history-with-one-renderer-value|no-output", fmt.Sprintf("render %d (sphere R=%g) with a reused %s renderer value, n=%d: no triangles", step+1, R, r.name, n), desc)
				}
			}
		}
	}

	// ---- completeness + volume convergence (sphere, box) ----
	type cj struct {
		name string
		f    func(p v3.Vec) float64
		bb   sdf.Box3
		pts  func(diag float64) []v3.Vec
		vol  float64
		conv bool
	}
	fib := func(R float64, ct v3.Vec, n int) []v3.Vec {
		var o []v3.Vec
		ga := math.Pi * (3 - math.Sqrt(5))
		for i := 0; i < n; i++ {
			z := 1 - 2*(float64(i)+0.5)/float64(n)
			r := math.Sqrt(1 - z*z)
			o = append(o, ct.Add(v3.Vec{X: R * r * math.Cos(ga*float64(i)), Y: R * r * math.Sin(ga*float64(i)), Z: R * z}))
		}
		// the six poles (the places an undersized sampled volume loses first)
		for _, d := range []v3.Vec{{X: 1}, {X: -1}, {Y: 1}, {Y: -1}, {Z: 1}, {Z: -1}} {
			o = append(o, ct.Add(d.MulScalar(R)))
		}
		return o
	}
	boxPts := func(hx, hy, hz float64) func(diag float64) []v3.Vec {
		return func(diag float64) []v3.Vec {
			var o []v3.Vec
			hs := [3]float64{hx, hy, hz}
			for ax := 0; ax < 3; ax++ {
				u, w := (ax+1)%3, (ax+2)%3
				if hs[u] <= diag || hs[w] <= diag || hs[ax] < diag {
					continue
				}
				for _, sg := range []float64{-1, 1} {
					for a := -4; a <= 4; a++ {
						for b := -4; b <= 4; b++ {
							var q [3]float64
							q[ax] = sg * hs[ax]
							q[u] = float64(a) / 4 * (hs[u] - diag)
							q[w] = float64(b) / 4 * (hs[w] - diag)
							o = append(o, v3.Vec{X: q[0], Y: q[1], Z: q[2]})
						}
					}
				}
			}
			return o
		}
	}
	bx := m3(sdf.Box3D(v3.Vec{X: 2, Y: 2, Z: 2}, 0))
	ct0 := v3.Vec{X: 0.03, Y: -0.02, Z: 0.05}
	cjs := []cj{
		{"sphere R=1", func(p v3.Vec) float64 { return p.Length() - 1 }, cube(2.5, 2.5, 2.5), func(float64) []v3.Vec { return fib(1, v3.Vec{}, 400) }, 4.0 / 3 * math.Pi, true},
		{"sphere R=1 off-centre", func(p v3.Vec) float64 { return p.Sub(ct0).Length() - 1 }, cube(2.5, 2.5, 2.5), func(float64) []v3.Vec { return fib(1, ct0, 400) }, 4.0 / 3 * math.Pi, true},
		{"box 2x2x2", bx.Evaluate, cube(2.6, 2.6, 2.6), boxPts(1, 1, 1), 8, false},
		// shapes that fill their own (tight) bounding box: the surface reaches the last sampled layer
		{"box 2x2x2 in its own tight box", bx.Evaluate, bx.BoundingBox(), boxPts(1, 1, 1), 8, false},
		{"sphere R=1 in its own tight box", func(p v3.Vec) float64 { return p.Length() - 1 }, cube(2, 2, 2), func(float64) []v3.Vec { return fib(1, v3.Vec{}, 400) }, 4.0 / 3 * math.Pi, true},
		{"box 3x2x1 in its own tight box", m3(sdf.Box3D(v3.Vec{X: 3, Y: 2, Z: 1}, 0)).Evaluate, cube(3, 2, 1), boxPts(1.5, 1, 0.5), 6, false},
		// very small and very large models: nothing in the renderers may depend on an absolute length
		{"sphere R=0.005", func(p v3.Vec) float64 { return p.Length() - 0.005 }, cube(0.0125, 0.0125, 0.0125), func(float64) []v3.Vec { return fib(0.005, v3.Vec{}, 400) }, 4.0 / 3 * math.Pi * 0.005 * 0.005 * 0.005, true},
		{"sphere R=1e-4 off-centre", func(p v3.Vec) float64 { return p.Sub(ct0.MulScalar(1e-4)).Length() - 1e-4 }, cube(2.5e-4, 2.5e-4, 2.5e-4), func(float64) []v3.Vec { return fib(1e-4, ct0.MulScalar(1e-4), 400) }, 4.0 / 3 * math.Pi * 1e-12, true},
		{"sphere R=5000", func(p v3.Vec) float64 { return p.Length() - 5000 }, cube(12500, 12500, 12500), func(float64) []v3.Vec { return fib(5000, v3.Vec{}, 400) }, 4.0 / 3 * math.Pi * 125e9, true},
	}
	ladder := vlib.Pick(c, []int{8, 16, 32}, []int{8, 16, 32, 64})
	for _, j := range cjs {
		for _, r := range renderers {
			var errs []float64
			for _, n := range ladder {
				s := boxed{j.f, j.bb}
				ts := render.ToTriangles(s, r.mk(n))
				h := j.bb.Size().MaxComponent() / float64(n)
				diag := math.Sqrt(3) * h
				rp := mesh.Check3(ts, 1e-6*h)
				errs = append(errs, math.Abs(rp.Volume-j.vol)/j.vol)
				desc := map[string]any{"shape": j.name, "meshCells": n, "renderer": r.name}
				pts := j.pts(diag)
				var bad atomic.Int64
				c.ParFor(len(pts), func(pi int) {
					d := distToMesh(pts[pi], ts, diag)
					if d > diag*(1+1e-9) && bad.Add(1) == 1 {
						c.Violation(r.name+"|resolvable-surface-point-farther-than-a-cell-diagonal-from-mesh", fmt.Sprintf("%s n=%d %s: surface point %v is %g from the mesh (cell diagonal %g)", j.name, n, r.name, pts[pi], d, diag), desc)
					}
				})
				states++
				trans += int64(len(pts))
			}
			if j.conv {
				for k := 0; k+1 < len(errs); k++ {
					ratio := errs[k] / errs[k+1]
					c.Note("%s %s volume error n=%d: %.3e, n=%d: %.3e, ratio %.2f", j.name, r.name, ladder[k], errs[k], ladder[k+1], errs[k+1], ratio)
					if !(ratio >= 3) {
						c.Violation(r.name+"|volume-convergence-below-second-order", fmt.Sprintf("%s %s: volume error %g at n=%d and %g at n=%d (ratio %.2f < 3)", j.name, r.name, errs[k], ladder[k], errs[k+1], ladder[k+1], ratio),
							map[string]any{"shape": j.name, "renderer": r.name, "ladder": ladder, "errors": errs})
					}
				}
			}
		}
	}
	// very fine octree lattices (more than 2^9 and 2^10 cells per axis): completeness and volume of a sphere
	for _, n := range vlib.Pick(c, []int{520}, []int{520, 700, 1030}) {
		// the sphere fills its own tight box, so the surface reaches the highest lattice coordinates
		ctr := v3.Vec{}
		s := boxed{func(p v3.Vec) float64 { return p.Sub(ctr).Length() - 1 }, cube(2, 2, 2)}
		ts := render.ToTriangles(s, render.NewMarchingCubesOctree(n))
		h := 2.0 / float64(n)
		diag := math.Sqrt(3) * h
		rp := mesh.Check3(ts, 1e-6*h)
		desc := map[string]any{"shape": "sphere R=1", "meshCells": n, "renderer": "octree"}
		states++
		trans += int64(len(ts))
		if math.Abs(rp.Volume-4.0/3*math.Pi) > 1e-3 {
			c.Violation("octree|fine-lattice|volume", fmt.Sprintf("sphere R=1 at %d cells: mesh volume %.6f, sphere volume %.6f", n, rp.Volume, 4.0/3*math.Pi), desc)
		}
		pts := fib(1, ctr, 2000)
		var bad atomic.Int64
		c.ParFor(len(pts), func(pi int) {
			if d := distToMesh(pts[pi], ts, diag); d > diag*(1+1e-9) && bad.Add(1) == 1 {
				c.Violation("octree|fine-lattice|resolvable-surface-point-farther-than-a-cell-diagonal-from-mesh", fmt.Sprintf("sphere R=1 at %d cells: surface point %v is %g from the mesh (cell diagonal %g)", n, pts[pi], d, diag), desc)
			}
		})
	}
	samples = append(samples, map[string]any{"completeness": "402 sphere points incl. the 6 poles / 486 box-face points vs exact point-to-mesh distance", "ladder": ladder})
	trans += nv + triPts
	c.Guard("vertices checked", nv > 100000, fmt.Sprint(nv))
	c.Finish(vlib.Coverage{
		States: states, Transitions: trans, Evaluations: states, Nontrivial: nontrivial,
		Rule:       "states = tables / analytic scenes rendered through the real renderers; transitions = vertices and mesh sample points put through the oracles; non-trivial = renders with at least one triangle",
		Samples:    samples,
		Exhaustive: true,
		Bounds:     map[string]any{"tables": "ternary^8 + 256 signs x <=2 special corners (3 magnitudes), both renderers", "position_coded": fmt.Sprintf("%d lattices x 5 patterns x 2 renderers", len(pcs)), "analytic_jobs": len(ajobs)},
		Assumptions: []string{"vertex oracle: the vertex lies on an edge of the discovered lattice whose end values straddle zero, and the linearly interpolated field there is <= 2e-12 (the renderer's snapping epsilon) or the position equals v1/(v1-v2) within 1e-9 cell",
			"convergence is decided on a finite ladder (ratio >= 3 per doubling)", "completeness is checked for spheres and box faces (resolvable points only)"},
	})
}
