// C09 — rendering is deterministic across runs, schedules and CPU counts.
// Engine S: the real uniform marching-cubes pipeline (evaluation workers on the process-global channel,
// layer batches, Triangle3Buffer, writer goroutine) is executed under every schedule with <= 2
// preemptions for 1-3 workers, with yields inside Evaluate (so a worker can be preempted mid-batch),
// alone, through ToSTL, concurrently with a second render and in render histories; every execution
// must produce the triangle sequence / file bytes of the sequential reference.
package main

import (
	"crypto/sha256"
	"encoding/binary"
	"fmt"
	"math"
	"math/rand"
	"os"
	"path/filepath"
	"strings"

	"github.com/deadsy/sdfx/render"
	"github.com/deadsy/sdfx/sdf"
	v2 "github.com/deadsy/sdfx/vec/v2"
	v3 "github.com/deadsy/sdfx/vec/v3"
	"github.com/deadsy/sdfx/verifrt/vos"
	"github.com/deadsy/sdfx/verifrt/vsync"

	"github.com/hpinc/go3mf"

	"verif/lib/lattice"
	"verif/lib/vlib"
)

func cube(x, y, z float64) sdf.Box3 {
	return sdf.Box3{Min: v3.Vec{X: -x / 2, Y: -y / 2, Z: -z / 2}, Max: v3.Vec{X: x / 2, Y: y / 2, Z: z / 2}}
}

type scen struct {
	Kind    string `json:"kind"` // triangles, stl, two, history, octree, svg
	Lattice string `json:"lattice"`
	Workers int    `json:"workers"`
	Every   int    `json:"yield_every_nth_evaluation"`
	Policy  string `json:"scheduling_policy,omitempty"` // set in replay files of violations found under a fixed policy
	Bound   int    `json:"bound"`
	Prefix  []int  `json:"schedule_prefix,omitempty"`
	// PoliciesOnly: run under the default schedule and the three fixed policies, without exploration
	PoliciesOnly bool `json:"fixed_policies_only,omitempty"`
}

type latCfg struct {
	bb sdf.Box3
	n  int
}

var lats = map[string]latCfg{
	"2x8x8 n=8 (layer 100: one batch)":    {cube(2, 8, 8), 8},
	"2x9x9 n=9 (layer 121: two batches)":  {cube(2, 9, 9), 9},
	"1x14x13 n=14 (layer 225: 3 batches)": {cube(1, 14, 13), 14},
	"3x3x3 n=3 (layer 25)":                {cube(3, 3, 3), 3},
	"1x1x1 n=1 (layer 9)":                 {cube(1, 1, 1), 1},
}

var evalCount int

// fields builds two different position-coded fields over the lattice (A: ball, B: slab pattern).
func fields(l *lattice.Lat3, every int) (*lattice.Field3, *lattice.Field3) {
	nx, ny, nz := l.NC()
	mk := func(pat int) *lattice.Field3 {
		f := l.NewField3(2)
		N := float64(nx * ny * nz)
		cx, cy, cz := float64(nx-1)/2, float64(ny-1)/2, float64(nz-1)/2
		for a := 1; a < nx-1; a++ {
			for b := 1; b < ny-1; b++ {
				for d := 1; d < nz-1; d++ {
					code := float64((a*ny+b)*nz+d) / N
					sgn := 1.0
					if pat == 0 {
						r := math.Sqrt((float64(a)-cx)*(float64(a)-cx) + (float64(b)-cy)*(float64(b)-cy)/4 + (float64(d)-cz)*(float64(d)-cz)/4)
						if r < math.Max(1.1, math.Min(cy, cz)/2-0.4) {
							sgn = -1
						}
					} else if (b+d)%3 == 0 || (ny <= 3 && nz <= 3) {
						sgn = -1
					}
					f.Set(a, b, d, sgn*(1+code)/float64(1+pat))
				}
			}
		}
		if every > 0 {
			// the yield decision depends on the evaluated lattice point only (never on which thread
			// evaluates it or on how many evaluations happened before)
			f.HookIdx = func(lin int) {
				if lin%every == 0 {
					vsync.Yield()
				}
			}
		}
		return f
	}
	return mk(0), mk(1)
}

// seqRef is the sequential reference: the per-cell step applied to every cell of the discovered lattice
// in the renderer's order (x outermost), reading the field table directly.
func seqRef(l *lattice.Lat3, f *lattice.Field3) []*sdf.Triangle3 {
	nx, ny, nz := l.NC()
	var out []*sdf.Triangle3
	off := [8][3]int{{0, 0, 0}, {1, 0, 0}, {1, 1, 0}, {0, 1, 0}, {0, 0, 1}, {1, 0, 1}, {1, 1, 1}, {0, 1, 1}}
	for i := 0; i+1 < nx; i++ {
		for j := 0; j+1 < ny; j++ {
			for k := 0; k+1 < nz; k++ {
				var p [8]v3.Vec
				var v [8]float64
				for c, o := range off {
					p[c] = l.Corner(i+o[0], j+o[1], k+o[2])
					v[c] = f.At(i+o[0], j+o[1], k+o[2])
				}
				out = append(out, render.VerifMcToTriangles(p, v, 0)...)
			}
		}
	}
	return out
}

// geoKey identifies a triangle sequence up to 1e-6 (the renderer accumulates cell coordinates, the
// independent reference takes them from the lattice); schedule independence itself is compared bit
// for bit (exactKey).
func key3s(ts []*sdf.Triangle3) string { return geoKey(ts) + "/" + exactKey(ts) }

func geoKey(ts []*sdf.Triangle3) string {
	h := sha256.New()
	for _, t := range ts {
		for _, p := range t {
			fmt.Fprintf(h, "%.6f,%.6f,%.6f;", p.X, p.Y, p.Z)
		}
	}
	return fmt.Sprintf("%d:%x", len(ts), h.Sum(nil)[:8])
}

// exactKey identifies a triangle sequence bit for bit.
func exactKey(ts []*sdf.Triangle3) string {
	h := sha256.New()
	for _, t := range ts {
		for _, p := range t {
			var b [24]byte
			binary.LittleEndian.PutUint64(b[0:], math.Float64bits(p.X))
			binary.LittleEndian.PutUint64(b[8:], math.Float64bits(p.Y))
			binary.LittleEndian.PutUint64(b[16:], math.Float64bits(p.Z))
			h.Write(b[:])
		}
	}
	return fmt.Sprintf("%x", h.Sum(nil)[:8])
}

// dependsKey names what the output wrongly depends on.
func dependsKey(kind string) string {
	if strings.Contains(kind, "history") || strings.HasPrefix(kind, "reuse") || strings.HasSuffix(kind, "-two") {
		if strings.HasSuffix(kind, "-two") {
			return "output-depends-on-schedule"
		}
		return "output-depends-on-earlier-renders"
	}
	return "output-depends-on-schedule"
}

func key3(ts []*sdf.Triangle3) string {
	h := sha256.New()
	for _, t := range ts {
		fmt.Fprint(h, *t)
	}
	return fmt.Sprintf("%d:%x", len(ts), h.Sum(nil)[:8])
}

// boxedS is a shape evaluated inside a sampling box of the harness's choosing.
type boxedS struct {
	s  sdf.SDF3
	bb sdf.Box3
}

func (b boxedS) Evaluate(p v3.Vec) float64 { return b.s.Evaluate(p) }
func (b boxedS) BoundingBox() sdf.Box3     { return b.bb }

// scripted renderers for the file-sink scenarios
type scriptedLines struct{ first, batches int }

func (r scriptedLines) Render(_ sdf.SDF2, out sdf.Line2Writer) {
	k := r.first
	for b := 0; b < r.batches; b++ {
		var ls []*sdf.Line2
		for i := 0; i <= b; i++ {
			ls = append(ls, &sdf.Line2{{X: float64(k), Y: 0}, {X: float64(k), Y: 1 + 0.125*float64(b)}})
			k++
		}
		out.Write(ls)
	}
	out.Close()
}
func (scriptedLines) Info(sdf.SDF2) string { return "scripted" }

// scriptedLinesFlat writes total numbered segments in writes of per segments.
type scriptedLinesFlat struct{ total, per int }

func (r scriptedLinesFlat) Render(_ sdf.SDF2, out sdf.Line2Writer) {
	for k := 0; k < r.total; k += r.per {
		var ls []*sdf.Line2
		for i := k; i < k+r.per && i < r.total; i++ {
			ls = append(ls, &sdf.Line2{{X: float64(i % 40), Y: float64(i / 40)}, {X: float64(i%40) + 0.5, Y: float64(i/40) + 0.25}})
		}
		out.Write(ls)
	}
	out.Close()
}
func (scriptedLinesFlat) Info(sdf.SDF2) string { return "scripted" }

type collect2 struct{ to *[]*sdf.Line2 }

func (c collect2) Write(ls []*sdf.Line2) error { *c.to = append(*c.to, ls...); return nil }
func (c collect2) Close() error                { return nil }

type scriptedTris struct{ first, batches int }

func (r scriptedTris) Render(_ sdf.SDF3, out sdf.Triangle3Writer) {
	k := r.first
	for b := 0; b < r.batches; b++ {
		var ts []*sdf.Triangle3
		for i := 0; i <= b; i++ {
			f := float64(k)
			ts = append(ts, &sdf.Triangle3{{X: f}, {X: f, Y: 1}, {X: f, Z: 1 + 0.125*float64(b)}})
			k++
		}
		out.Write(ts)
	}
	out.Close()
}
func (scriptedTris) Info(sdf.SDF3) string { return "scripted" }

type dummy3 struct{}

func (dummy3) Evaluate(v3.Vec) float64 { return 1 }
func (dummy3) BoundingBox() sdf.Box3   { return sdf.Box3{Max: v3.Vec{X: 1, Y: 1, Z: 1}} }

var work = filepath.Join(vlib.VerifDir, ".work", "c09")

type circle struct{ r float64 }

func (c circle) Evaluate(p v2.Vec) float64 { return p.Length() - c.r }
func (c circle) BoundingBox() sdf.Box2 {
	return sdf.Box2{Min: v2.Vec{X: -c.r, Y: -c.r}, Max: v2.Vec{X: c.r, Y: c.r}}
}

type prepared struct {
	sc       scen
	body     func()
	obs      func() string
	exact    func() string // bit-exact part of the observation (triangle kinds)
	ref      string
	refExact string
	indep    string // independent sequential reference ("" when none)
}

func prepare(sc scen, j *vlib.Job) *prepared {
	lc := lats[sc.Lattice]
	p := &prepared{sc: sc}
	var out []string
	switch sc.Kind {
	case "triangles", "stl", "two", "history":
		mk := func() render.Render3 { return render.NewMarchingCubesUniform(lc.n) }
		var l *lattice.Lat3
		var err error
		vsync.RunOnce(nil, false, func() { vsync.SetNumCPU(1); l, err = lattice.Discover3(mk(), lc.bb, 1) })
		// the set of evaluated points must not depend on the schedule: probe again letting the most
		// recently enabled thread run first
		var l2 *lattice.Lat3
		vsync.RunPolicy(func(n int, _ bool) int { return n - 1 }, func() { vsync.SetNumCPU(2); l2, _ = lattice.Discover3(mk(), lc.bb, 1) })
		if err == nil && (l2 == nil || l2.NEvals != l.NEvals || len(l2.Eval) != len(l.Eval)) {
			n2 := -1
			if l2 != nil {
				n2 = l2.NEvals
			}
			j.Violation(sc.Kind+"|evaluated-points-depend-on-schedule", fmt.Sprintf("%s: a probe render evaluated %d points under the default schedule and %d when spawned threads run first", sc.Lattice, l.NEvals, n2), sc)
			if l2 != nil && l2.NEvals > l.NEvals {
				l = l2
			}
		}
		if err != nil {
			j.HarnessError("discover: %v", err)
			return nil
		}
		fa, fb := fields(l, sc.Every)
		ra, rb := geoKey(seqRef(l, fa)), geoKey(seqRef(l, fb))
		switch sc.Kind {
		case "triangles":
			p.indep = fmt.Sprint([]string{ra})
		case "two":
			p.indep = fmt.Sprint([]string{ra, rb})
		case "history":
			p.indep = fmt.Sprint([]string{ra, rb, ra})
		}
		key3 := func(ts []*sdf.Triangle3) string { return geoKey(ts) + "/" + exactKey(ts) }
		switch sc.Kind {
		case "triangles":
			p.body = func() {
				evalCount, out = 0, nil
				vsync.SetNumCPU(sc.Workers)
				out = append(out, key3(render.ToTriangles(fa, mk())))
			}
		case "stl":
			p.body = func() {
				evalCount, out = 0, nil
				vsync.SetNumCPU(sc.Workers)
				vos.Reset(nil)
				render.ToSTL(fa, "a.stl", mk())
				out = append(out, fmt.Sprintf("%x", sha256.Sum256(vos.Files["a.stl"].B)))
			}
		case "two":
			p.body = func() {
				evalCount = 0
				out = make([]string, 2)
				vsync.SetNumCPU(sc.Workers)
				var wg vsync.WaitGroup
				wg.Add(1)
				vsync.Go(func() {
					defer wg.Done()
					out[1] = key3(render.ToTriangles(fb, mk()))
				})
				out[0] = key3(render.ToTriangles(fa, mk()))
				wg.Wait()
			}
		case "history":
			p.body = func() {
				evalCount, out = 0, nil
				vsync.SetNumCPU(sc.Workers)
				out = append(out, key3(render.ToTriangles(fa, mk())))
				out = append(out, key3(render.ToTriangles(fb, mk())))
				out = append(out, key3(render.ToTriangles(fa, mk())))
			}
		}
	case "real-shapes":
		// real library shapes (not lookup fields) evaluated by the uniform renderer's workers: scratch space or
		// lazily built tables inside a shape show as data races on the instrumented fields, or as a mesh that
		// depends on the schedule.  The shape is built afresh in every execution (a first use that is concurrent).
		mkShape := func() sdf.SDF3 {
			a := sdf.Transform2D(sdf.Box2D(v2.Vec{X: 1, Y: 3}, 0), sdf.Translate2d(v2.Vec{X: 4.2, Y: 3}))
			b := sdf.Transform2D(circle{0.6}, sdf.Translate2d(v2.Vec{X: 6.1, Y: 3.4}))
			d := sdf.Transform2D(sdf.Box2D(v2.Vec{X: 0.5, Y: 0.5}, 0.1), sdf.Translate2d(v2.Vec{X: 5.2, Y: 4.6}))
			u := sdf.Union2D(a, sdf.Union2D(b, d))
			ex := sdf.Extrude3D(u, 1)
			rc := sdf.RotateCopy3D(sdf.Transform3D(sdf.Extrude3D(sdf.Union2D(b, d), 1), sdf.Translate3d(v3.Vec{X: -4, Y: -2})), 3)
			return sdf.Union3D(ex, sdf.Transform3D(rc, sdf.Translate3d(v3.Vec{X: 5, Y: 3, Z: 1.2})))
		}
		// 14 cells: layers of 15 x 15 lattice points, i.e. three evaluation batches in flight at once
		mk := func() render.Render3 { return render.NewMarchingCubesUniform(14) }
		p.body = func() {
			out = nil
			vsync.SetNumCPU(sc.Workers)
			out = append(out, key3s(render.ToTriangles(mkShape(), mk())))
		}
	case "bezier-twice":
		// two runs of a program that builds and renders a curve: the library's private random source (seeded with a
		// constant) is put back to its initial state before each build, as at the start of a process; a sampler
		// that draws from anything else (the process-random global source, the clock) gives two different files
		mkShape := func() sdf.SDF2 {
			bz := sdf.NewBezier()
			bz.Add(0, 0)
			bz.Add(1, 2).Mid()
			bz.Add(2, -2).Mid()
			bz.Add(3, 0)
			bz.Add(4, 3).Mid()
			bz.Add(5, -3).Mid()
			bz.Add(6, 0)
			bz.Add(6, -4)
			bz.Add(0, -4)
			bz.Close()
			pl, err := bz.Polygon()
			if err != nil {
				return circle{1}
			}
			s2, err := sdf.Polygon2D(pl.Vertices())
			if err != nil {
				return circle{1}
			}
			return s2
		}
		p.body = func() {
			out = nil
			for k := 0; k < 2; k++ {
				vos.Reset(nil)
				sdf.VerifSetRand(rand.NewSource(1))
				render.ToSVG(mkShape(), "b.svg", render.NewMarchingSquaresUniform(24))
				out = append(out, fmt.Sprintf("%x", sha256.Sum256(vos.Files["b.svg"].B)))
			}
			if out[0] != out[1] {
				out[1] = "second run renders the same curve differently: " + out[1]
			} else {
				out = out[:1]
			}
		}
	case "octree":
		mk := func() render.Render3 { return render.NewMarchingCubesOctree(6) }
		s, _ := sdf.Sphere3D(1)
		p.body = func() {
			out = nil
			out = append(out, key3(render.ToTriangles(s, mk())))
		}
	case "uniform-big-layer":
		// a thin slab whose YZ layers hold 103 x 103 = 10609 lattice points, i.e. 107 evaluation batches per layer - more
		// than the evaluation queue (100) plus the workers hold at once (round 9: batch buffers recycled in a ring that is
		// sized from those hidden numbers), under the fixed scheduling policies, which starve one worker
		sp, _ := sdf.Sphere3D(1)
		slab := boxedS{sp, sdf.Box3{Min: v3.Vec{X: -0.01, Y: -1.5, Z: -1.5}, Max: v3.Vec{X: 0.01, Y: 1.5, Z: 1.5}}}
		p.body = func() {
			out = nil
			vsync.SetNumCPU(sc.Workers)
			out = append(out, key3s(render.ToTriangles(slab, render.NewMarchingCubesUniform(102))))
		}
	case "octree-deep":
		// a long thin bar at 260 and 520 cells (round 8): octrees of 10 and 11 levels, whose top levels a renderer might
		// hand to goroutines of their own; the triangle sequence must not depend on the schedule
		bar, _ := sdf.Box3D(v3.Vec{X: 10, Y: 0.1, Z: 0.1}, 0)
		p.body = func() {
			out = nil
			vsync.SetNumCPU(sc.Workers)
			out = append(out, key3s(render.ToTriangles(bar, render.NewMarchingCubesOctree(260))))
			out = append(out, key3s(render.ToTriangles(bar, render.NewMarchingCubesOctree(520))))
		}
	case "octree-history", "reuse-octree", "reuse-uniform", "reuse-quadtree", "reuse-squares", "reuse-dc2d":
		// histories of different models: sphere, box, sphere.  "octree-history" uses a fresh renderer value for
		// every render (state kept by the package between renders); "reuse-*" passes ONE renderer value to all
		// three renders (state kept by the renderer value).  Every output must equal the output of the same model
		// rendered alone by a fresh renderer.
		s3a, _ := sdf.Sphere3D(1)
		s3b, _ := sdf.Box3D(v3.Vec{X: 3, Y: 1, Z: 0.5}, 0.125)
		s2a := circle{1}
		s2b := sdf.Box2D(v2.Vec{X: 5, Y: 1}, 0.125)
		three := strings.HasSuffix(sc.Kind, "octree") || sc.Kind == "octree-history" || sc.Kind == "reuse-uniform"
		mk3 := func() render.Render3 {
			if sc.Kind == "reuse-uniform" {
				return render.NewMarchingCubesUniform(3)
			}
			return render.NewMarchingCubesOctree(5)
		}
		mk2 := func() render.Render2 {
			switch sc.Kind {
			case "reuse-quadtree":
				return render.NewMarchingSquaresQuadtree(7)
			case "reuse-dc2d":
				return render.NewDualContouring2D(7)
			}
			return render.NewMarchingSquaresUniform(7)
		}
		one := func(which int, r3 render.Render3, r2 render.Render2) string {
			if three {
				if which == 0 {
					return key3(render.ToTriangles(s3a, r3))
				}
				return key3(render.ToTriangles(s3b, r3))
			}
			var ls []*sdf.Line2
			if which == 0 {
				ls = lattice.Collect2(s2a, r2)
			} else {
				ls = lattice.Collect2(s2b, r2)
			}
			h := sha256.New()
			for _, l := range ls {
				fmt.Fprint(h, *l)
			}
			return fmt.Sprintf("%d:%x", len(ls), h.Sum(nil)[:8])
		}
		var alone [2]string
		for w := 0; w < 2; w++ {
			w := w
			vsync.RunOnce(nil, false, func() { vsync.SetNumCPU(sc.Workers); alone[w] = one(w, mk3(), mk2()) })
		}
		p.indep = fmt.Sprint([]string{alone[0], alone[1], alone[0]})
		p.body = func() {
			out = nil
			vsync.SetNumCPU(sc.Workers)
			r3, r2 := mk3(), mk2()
			for _, w := range []int{0, 1, 0} {
				if sc.Kind == "octree-history" {
					r3, r2 = mk3(), mk2()
				}
				out = append(out, one(w, r3, r2))
			}
		}
	case "reuse-model-octree", "reuse-model-quadtree":
		// ONE model value holding a cache (Cache2D) rendered at several resolutions in turn, each time by a fresh
		// renderer: every output must equal the output of a fresh model rendered alone at that resolution (round 8: a
		// cache keyed at reduced precision hands the second lattice the values of near-coincident points of the first)
		mk2 := func() sdf.SDF2 {
			// far enough from the origin for neighbouring lattice points of different renders to share a float32
			if sc.Kind == "reuse-model-quadtree" {
				return sdf.Cache2D(sdf.Transform2D(circle{3}, sdf.Translate2d(v2.Vec{X: 50000, Y: 30000})))
			}
			return sdf.Cache2D(sdf.Transform2D(circle{1}, sdf.Translate2d(v2.Vec{X: -20000.3, Y: 30000.2})))
		}
		res := []int{20, 32, 24, 20}
		if sc.Kind == "reuse-model-quadtree" {
			res = []int{100, 300, 70}
		}
		one := func(m2 sdf.SDF2, n int) string {
			if sc.Kind == "reuse-model-octree" {
				return key3(render.ToTriangles(sdf.Extrude3D(m2, 1), render.NewMarchingCubesOctree(n))) // bit-exact
			}
			ls := lattice.Collect2(m2, render.NewMarchingSquaresQuadtree(n))
			h := sha256.New()
			for _, l := range ls {
				fmt.Fprint(h, *l)
			}
			return fmt.Sprintf("%d:%x", len(ls), h.Sum(nil)[:8])
		}
		var alone []string
		for _, n := range res {
			n := n
			vsync.RunOnce(nil, false, func() { vsync.SetNumCPU(sc.Workers); alone = append(alone, one(mk2(), n)) })
		}
		p.indep = fmt.Sprint(alone)
		p.body = func() {
			out = nil
			vsync.SetNumCPU(sc.Workers)
			m := mk2()
			for _, n := range res {
				out = append(out, one(m, n))
			}
		}
	case "stl-two", "stl-path-history", "svg-path-history":
		// STL / SVG sinks on the in-memory file system: two different renders concurrently (different paths),
		// and a longer render followed by a shorter one to the SAME path; every file must equal the file written
		// by the same render executed alone on a fresh path
		one := func(which int, path string) {
			if strings.HasPrefix(sc.Kind, "svg") {
				render.ToSVG(circle{1}, path, scriptedLines{first: 100 * which, batches: 4 - 2*which})
			} else {
				render.ToSTL(dummy3{}, path, scriptedTris{first: 100 * which, batches: 4 - 2*which})
			}
		}
		digest := func(path string) string {
			d := vos.Files[path]
			if d == nil {
				return "no file"
			}
			return fmt.Sprintf("%d:%x", len(d.B), sha256.Sum256(d.B))
		}
		var alone [2]string
		for w := 0; w < 2; w++ {
			w := w
			vsync.RunOnce(nil, false, func() { vos.Reset(nil); one(w, "alone") })
			alone[w] = digest("alone")
		}
		if sc.Kind == "stl-two" {
			p.indep = fmt.Sprint([]string{alone[0], alone[1]})
			p.body = func() {
				vos.Reset(nil)
				out = make([]string, 2)
				var wg vsync.WaitGroup
				wg.Add(1)
				vsync.Go(func() {
					defer wg.Done()
					one(1, "b")
				})
				one(0, "a")
				wg.Wait()
				out[0], out[1] = digest("a"), digest("b")
			}
		} else {
			p.indep = fmt.Sprint([]string{alone[0], alone[1], alone[0]})
			p.body = func() {
				vos.Reset(nil)
				out = nil
				for _, w := range []int{0, 1, 0} { // long, short, long on one path
					one(w, "same")
					out = append(out, digest("same"))
				}
			}
		}
	case "one-buffer-two-renders-3d", "one-buffer-two-renders-2d":
		// one buffered writer handed to two renders in turn (Render ends with Close, a flush) into one sink:
		// the delivered sequence must be the two renders' items in order under every schedule
		want := []int{}
		for k := 0; k < 3; k++ {
			want = append(want, k)
		}
		for k := 0; k < 6; k++ {
			want = append(want, 100+k)
		}
		p.indep = fmt.Sprint([]string{fmt.Sprint(want)})
		if strings.HasSuffix(sc.Kind, "3d") {
			p.body = func() {
				var tris []*sdf.Triangle3
				var wg vsync.WaitGroup
				ch := sdf.WriteTriangles(&wg, &tris)
				buf := sdf.NewTriangle3Buffer(ch)
				scriptedTris{first: 0, batches: 2}.Render(dummy3{}, buf)
				scriptedTris{first: 100, batches: 3}.Render(dummy3{}, buf)
				ch.Close()
				wg.Wait()
				got := []int{}
				for _, t := range tris {
					got = append(got, int(t[0].X))
				}
				out = []string{fmt.Sprint(got)}
			}
		} else {
			p.body = func() {
				got := []int{}
				var wg vsync.WaitGroup
				ch := vsync.MakeChan[[]*sdf.Line2]()
				wg.Add(1)
				vsync.Go(func() {
					defer wg.Done()
					for {
						ls, ok := ch.Recv2()
						if !ok {
							return
						}
						for _, l := range ls {
							got = append(got, int(l[0].X))
						}
					}
				})
				buf := sdf.NewLine2Buffer(ch)
				scriptedLines{first: 0, batches: 2}.Render(circle{1}, buf)
				scriptedLines{first: 100, batches: 3}.Render(circle{1}, buf)
				ch.Close()
				wg.Wait()
				out = []string{fmt.Sprint(got)}
			}
		}
	case "svg-long":
		// an SVG of many full batches: the bytes must not depend on how far the file writer lags behind
		digest := func(path string) string {
			d := vos.Files[path]
			if d == nil {
				return "no file"
			}
			return fmt.Sprintf("%d:%x", len(d.B), sha256.Sum256(d.B))
		}
		r := scriptedLinesFlat{total: 700, per: 50}
		var all []*sdf.Line2
		r.Render(circle{1}, collect2{&all})
		vsync.RunOnce(nil, false, func() { vos.Reset(nil); render.SaveSVG("ref.svg", "fill:none;stroke:black;stroke-width:0.1", all) })
		refd := digest("ref.svg")
		p.body = func() {
			vos.Reset(nil)
			render.ToSVG(circle{1}, "a.svg", r)
			out = []string{digest("a.svg")}
		}
		vsync.RunOnce(nil, false, p.body)
		p.indep = fmt.Sprint([]string{refd})
	case "dxf-two", "dxf-history", "3mf-two", "3mf-two-empty", "dxf-two-empty", "dxf-todxf-savedxf", "dxf-todxf-poly":
		// file sinks that go to the real file system (their libraries take a path): two different renders
		// concurrently, and A;B;A one after the other; every file must equal the one written by the same
		// render executed alone (3MF: decoded content, as the property says; DXF: bytes)
		os.MkdirAll(work, 0o755)
		base := filepath.Join(work, fmt.Sprintf("p%d", os.Getpid()))
		ext := sc.Kind[:3]
		s3a, _ := sdf.Sphere3D(1)
		one := func(which int, path string) {
			// scripted renderers (few synchronisation operations): 3 + 2*which batches of numbered items
			if which == 1 && sc.Kind == "dxf-todxf-savedxf" {
				render.SaveDXF(path, []*sdf.Line2{{{X: 0, Y: 0}, {X: 1, Y: 0}}, {{X: 1, Y: 0}, {X: 1, Y: 1}}, {{X: 1, Y: 1}, {X: 0, Y: 0}}})
			} else if which == 1 && sc.Kind == "dxf-todxf-poly" {
				pl := sdf.NewPolygon()
				pl.Add(0, 0)
				pl.Add(2, 0)
				pl.Add(1, 3)
				render.Poly(pl, path)
			} else if strings.HasSuffix(sc.Kind, "-empty") {
				// the first render produces nothing at all (round 9): no batch ever reaches the writer goroutine, and the
				// file must still be complete when the call returns
				if ext == "dxf" {
					render.ToDXF(circle{1}, path, scriptedLines{first: 100 * which, batches: 2 * which})
				} else {
					render.To3MF(s3a, path, scriptedTris{first: 100 * which, batches: 2 * which})
				}
			} else if ext == "dxf" {
				render.ToDXF(circle{1}, path, scriptedLines{first: 100 * which, batches: 2 + which})
			} else {
				render.To3MF(s3a, path, scriptedTris{first: 100 * which, batches: 2 + which})
			}
		}
		digest := func(path string) string {
			if ext == "3mf" {
				r, err := go3mf.OpenReader(path)
				if err != nil {
					return "unreadable: " + err.Error()
				}
				defer r.Close()
				var m go3mf.Model
				if err := r.Decode(&m); err != nil {
					return "undecodable: " + err.Error()
				}
				h := sha256.New()
				for _, o := range m.Resources.Objects {
					if o.Mesh != nil {
						fmt.Fprint(h, o.Mesh.Vertices.Vertex, o.Mesh.Triangles.Triangle)
					}
				}
				return fmt.Sprintf("%x", h.Sum(nil)[:8])
			}
			b, err := os.ReadFile(path)
			if err != nil {
				return "unreadable: " + err.Error()
			}
			return fmt.Sprintf("%x", sha256.Sum256(b))
		}
		// each render alone (one logical thread at a time, default schedule)
		var alone [2]string
		for w := 0; w < 2; w++ {
			w := w
			vsync.RunOnce(nil, false, func() { one(w, base+".alone."+ext) })
			alone[w] = digest(base + ".alone." + ext)
		}
		if sc.Kind == "dxf-history" {
			p.indep = fmt.Sprint([]string{alone[0], alone[1], alone[0]})
			p.body = func() {
				out = nil
				for i, w := range []int{0, 1, 0} {
					path := fmt.Sprintf("%s.h%d.%s", base, i, ext)
					os.Remove(path)
					one(w, path)
					out = append(out, digest(path))
				}
			}
		} else {
			p.indep = fmt.Sprint([]string{alone[0], alone[1]})
			p.body = func() {
				out = make([]string, 2)
				os.Remove(base + ".a." + ext)
				os.Remove(base + ".b." + ext)
				var wg vsync.WaitGroup
				wg.Add(1)
				vsync.Go(func() {
					defer wg.Done()
					one(1, base+".b."+ext)
				})
				one(0, base+".a."+ext)
				wg.Wait()
				out[0], out[1] = digest(base+".a."+ext), digest(base+".b."+ext)
			}
		}
	case "svg":
		p.body = func() {
			out = nil
			vos.Reset(nil)
			render.ToSVG(circle{1}, "a.svg", render.NewMarchingSquaresQuadtree(12))
			render.ToSVG(circle{1}, "b.svg", render.NewMarchingSquaresUniform(12))
			out = append(out, fmt.Sprintf("%x %x", sha256.Sum256(vos.Files["a.svg"].B), sha256.Sum256(vos.Files["b.svg"].B)))
		}
	}
	p.obs = func() string {
		g := make([]string, len(out))
		for i, o := range out {
			g[i] = strings.SplitN(o, "/", 2)[0]
		}
		return fmt.Sprint(g)
	}
	p.exact = func() string {
		var e []string
		for _, o := range out {
			if k := strings.SplitN(o, "/", 2); len(k) == 2 {
				e = append(e, k[1])
			}
		}
		return fmt.Sprint(e)
	}
	// sequential reference: one worker, default schedule, no yields matter (same values)
	w := sc.Workers
	sc1 := sc
	sc1.Workers = 1
	_ = w
	x := vsync.RunOnce(nil, false, func() {
		old := sc.Workers
		p.body()
		_ = old
	})
	if len(x.Faults) > 0 {
		kind := "fault"
		if len(x.Races) > 0 {
			kind = "data-race|" + x.Races[0]
		}
		j.Violation(sc.Kind+"|"+kind, fmt.Sprintf("%s %s W=%d (default schedule): %v", sc.Kind, sc.Lattice, sc.Workers, x.Faults), sc)
		return nil
	}
	p.refExact = p.exact()
	p.ref = p.obs()
	if p.indep != "" && p.indep != p.ref {
		// the default schedule already disagrees with the sequential reference: report against it
		p.ref = p.indep
	}
	return p
}

func main() {
	c := vlib.Start("C09")
	if c.Replay != "" {
		var sc scen
		if err := c.LoadReplay(&sc); err != nil {
			fmt.Fprintln(vlib.Out, "cannot load replay:", err)
			return
		}
		j := &vlib.Job{}
		p := prepare(sc, j)
		var x *vsync.Execution
		if sc.Policy != "" {
			step := 0
			pol := map[string]func(n int, cur bool) int{
				"last-enabled-first":   func(n int, _ bool) int { return n - 1 },
				"round-robin":          func(n int, _ bool) int { step++; return step % n },
				"alternate-first-last": func(n int, _ bool) int { step++; return (step % 2) * (n - 1) },
			}[sc.Policy]
			if pol == nil {
				fmt.Fprintln(vlib.Out, "unknown scheduling policy in the replay file:", sc.Policy)
				return
			}
			x = vsync.RunPolicy(pol, p.body)
		} else {
			x = vsync.RunOnce(sc.Prefix, true, p.body)
		}
		fmt.Fprintf(vlib.Out, "replay %+v\nreference %s\nobserved  %s\nfaults %v\n", sc, p.ref, p.obs(), x.Faults)
		return
	}
	var scens []scen
	b := vlib.Pick(c, 1, 2)
	L100, L121, L25 := "2x8x8 n=8 (layer 100: one batch)", "2x9x9 n=9 (layer 121: two batches)", "3x3x3 n=3 (layer 25)"
	T := "1x1x1 n=1 (layer 9)"
	for _, w := range []int{1, 2, 3} {
		scens = append(scens,
			scen{Kind: "triangles", Lattice: L100, Workers: w, Every: 37, Bound: b + 1},
			scen{Kind: "triangles", Lattice: T, Workers: w, Every: 2, Bound: b + 2},
			scen{Kind: "stl", Lattice: T, Workers: w, Every: 2, Bound: b + 1},
			scen{Kind: "history", Lattice: T, Workers: w, Every: 0, Bound: b})
	}
	scens = append(scens,
		scen{Kind: "triangles", Lattice: L121, Workers: 2, Every: 50, Bound: b + 1},
		scen{Kind: "triangles", Lattice: L121, Workers: 3, Every: 50, Bound: b},
		scen{Kind: "stl", Lattice: L121, Workers: 2, Every: 0, Bound: b + 1},
		scen{Kind: "two", Lattice: T, Workers: 1, Every: 0, Bound: 1},
		scen{Kind: "history", Lattice: L25, Workers: 2, Every: 0, Bound: 1},
		scen{Kind: "octree", Workers: 1, Bound: -1}, scen{Kind: "svg", Workers: 1, Bound: -1},
		scen{Kind: "octree-history", Workers: 1, Bound: -1}, scen{Kind: "reuse-octree", Workers: 1, Bound: -1}, scen{Kind: "reuse-uniform", Workers: 2, Bound: 1},
		scen{Kind: "uniform-big-layer", Workers: 2, Bound: 0, PoliciesOnly: true}, scen{Kind: "uniform-big-layer", Workers: 3, Bound: 0, PoliciesOnly: true},
		scen{Kind: "octree-deep", Workers: 2, Bound: 0, PoliciesOnly: true}, scen{Kind: "octree-deep", Workers: 4, Bound: 0, PoliciesOnly: true},
		scen{Kind: "reuse-model-octree", Workers: 1, Bound: 0, PoliciesOnly: true}, scen{Kind: "reuse-model-quadtree", Workers: 1, Bound: 0, PoliciesOnly: true},
		scen{Kind: "reuse-quadtree", Workers: 1, Bound: -1}, scen{Kind: "reuse-squares", Workers: 1, Bound: -1}, scen{Kind: "reuse-dc2d", Workers: 1, Bound: -1},
		scen{Kind: "stl-two", Workers: 1, Bound: -1}, scen{Kind: "stl-path-history", Workers: 1, Bound: -1}, scen{Kind: "svg-path-history", Workers: 1, Bound: -1},
		scen{Kind: "dxf-two", Workers: 1, Bound: -1}, scen{Kind: "dxf-history", Workers: 1, Bound: -1}, scen{Kind: "3mf-two", Workers: 1, Bound: -1}, scen{Kind: "3mf-two-empty", Workers: 1, Bound: -1}, scen{Kind: "dxf-two-empty", Workers: 1, Bound: -1},
		scen{Kind: "dxf-todxf-savedxf", Workers: 1, Bound: -1}, scen{Kind: "dxf-todxf-poly", Workers: 1, Bound: -1}, scen{Kind: "svg-long", Workers: 1, Bound: -1},
		scen{Kind: "one-buffer-two-renders-3d", Workers: 1, Bound: -1}, scen{Kind: "one-buffer-two-renders-2d", Workers: 1, Bound: -1},
		scen{Kind: "real-shapes", Workers: 2, Bound: 0, PoliciesOnly: true}, scen{Kind: "real-shapes", Workers: 3, Bound: 0, PoliciesOnly: true}, scen{Kind: "bezier-twice", Workers: 1, Bound: 0, PoliciesOnly: true})
	if c.Thorough() {
		scens = append(scens, scen{Kind: "triangles", Lattice: "1x14x13 n=14 (layer 225: 3 batches)", Workers: 3, Every: 100, Bound: 2},
			scen{Kind: "two", Lattice: T, Workers: 2, Every: 0, Bound: 2}, scen{Kind: "two", Lattice: L25, Workers: 1, Every: 0, Bound: 1}, scen{Kind: "stl", Lattice: L100, Workers: 3, Every: 37, Bound: 2})
	}
	if only := os.Getenv("VERIF_C09_ONLY"); only != "" { // debugging aid: restrict to the scenario kinds containing this text
		var keep []scen
		for _, sc := range scens {
			if strings.Contains(sc.Kind, only) {
				keep = append(keep, sc)
			}
		}
		scens = keep
	}
	// split every scenario into shards of its schedule tree
	const shards = 1
	type unit struct {
		s     int
		shard int
	}
	var units []unit
	for i := range scens {
		for k := 0; k < shards; k++ {
			units = append(units, unit{i, k})
		}
	}
	m := c.RunSharded(len(units), func(i int, j *vlib.Job) {
		u := units[i]
		sc := scens[u.s]
		p := prepare(sc, j)
		if p == nil {
			return
		}
		obsSet := map[string]bool{}
		// three fixed scheduling policies first (cheap, and far from the default schedule everywhere): the most
		// recently enabled thread first, round robin over the enabled threads, and alternating first / last
		policyViolation := false
		if u.shard == 0 {
			step := 0
			for pi, pol := range []func(n int, cur bool) int{
				func(n int, _ bool) int { return n - 1 },
				func(n int, _ bool) int { step++; return step % n },
				func(n int, _ bool) int { step++; return (step % 2) * (n - 1) },
			} {
				step = 0
				x := vsync.RunPolicy(pol, p.body)
				j.States++
				j.Transitions += int64(x.Steps)
				r := sc
				r.Policy = []string{"last-enabled-first", "round-robin", "alternate-first-last"}[pi]
				if len(x.Faults) > 0 {
					kind := "fault"
					if x.Deadlock {
						kind = "deadlock"
					}
					if len(x.Races) > 0 {
						kind = "data-race|" + x.Races[0]
					}
					j.Violation(sc.Kind+"|"+kind, fmt.Sprintf("%s %s W=%d under policy %s: %v", sc.Kind, sc.Lattice, sc.Workers, r.Policy, x.Faults), r)
					policyViolation = true
				} else if o := p.obs(); o != p.ref {
					policyViolation = true
					j.Violation(sc.Kind+"|"+dependsKey(sc.Kind), fmt.Sprintf("%s %s W=%d: scheduling policy %s produced %s, reference %s", sc.Kind, sc.Lattice, sc.Workers, r.Policy, o, p.ref), r)
				} else if e := p.exact(); e != p.refExact {
					policyViolation = true
					j.Violation(sc.Kind+"|"+dependsKey(sc.Kind), fmt.Sprintf("%s %s W=%d: scheduling policy %s produced vertex bits %s, the default schedule %s", sc.Kind, sc.Lattice, sc.Workers, r.Policy, e, p.refExact), r)
				}
			}
		}
		if policyViolation {
			// already decided for this scenario; the exploration below would only repeat it
			j.Count("scenarios-decided-by-a-fixed-policy", 1)
			return
		}
		if sc.PoliciesOnly {
			// long executions (hundreds of evaluations of a real shape): the default schedule and the three policies
			// are run, races are decided by the happens-before detector on each of them; no exploration
			j.Count("scenarios-run-under-the-fixed-policies-only", 1)
			return
		}
		st := vsync.ExploreAll(vsync.Options{Bound: sc.Bound, Stop: c.Expired, Shard: u.shard, NShards: shards, MaxExec: 300000, Prune: true, ShallowFirst: true, SymmetricSpawn: []string{"render.evalRoutines"}}, p.body, func(x *vsync.Execution, prefix []int) bool {
			o := p.obs()
			obsSet[o] = true
			rep := func() scen {
				r := sc
				r.Prefix = append([]int{}, x.Choices...)
				return r
			}
			if len(x.Faults) > 0 {
				kind := "fault"
				if x.Deadlock {
					kind = "deadlock"
				}
				if len(x.Races) > 0 {
					kind = "data-race|" + x.Races[0]
				}
				j.Violation(sc.Kind+"|"+kind, fmt.Sprintf("%s %s W=%d: %v", sc.Kind, sc.Lattice, sc.Workers, x.Faults), rep())
			} else if o != p.ref {
				j.Violation(sc.Kind+"|"+dependsKey(sc.Kind), fmt.Sprintf("%s %s W=%d: schedule %v produced %s, sequential reference %s", sc.Kind, sc.Lattice, sc.Workers, x.Choices, o, p.ref), rep())
			} else if e := p.exact(); e != p.refExact {
				j.Violation(sc.Kind+"|"+dependsKey(sc.Kind), fmt.Sprintf("%s %s W=%d: schedule %v produced vertex bits %s, the default schedule %s", sc.Kind, sc.Lattice, sc.Workers, x.Choices, e, p.refExact), rep())
			}
			return true
		})
		if st.NonDetermin != "" {
			j.HarnessError("%+v: %s", sc, st.NonDetermin)
		}
		j.States += st.Executions
		j.Transitions += st.Steps
		j.Count("executions", st.Executions)
		j.Count("executions-with-choice", st.WithChoice)
		j.Count("distinct-traces", int64(len(st.Distinct)))
		j.Count(fmt.Sprintf("exec|%s|%s|w=%d|bound=%d", sc.Kind, sc.Lattice, sc.Workers, sc.Bound), st.Executions)
		j.Max("observations|"+sc.Kind, int64(len(obsSet)))
		j.Max("choice-points", int64(st.MaxPoints))
		j.Count("pruned-executions", st.Pruned)
		j.Max("threads", int64(st.MaxThreads))
		if st.Capped {
			j.Capped = true
			j.Count("capped|"+sc.Kind, 1)
		}
		if u.shard == 0 {
			j.Samples = append(j.Samples, map[string]any{"scenario": sc, "reference_observation": p.ref})
		}
	})
	c.Guard(">= 1000 distinct schedules", m.Counters["distinct-traces"] >= 1000, fmt.Sprint(m.Counters["distinct-traces"]))
	c.Guard("worker threads participated (>= 4 threads in some execution)", m.Counters["max:threads"] >= 4, fmt.Sprint(m.Counters["max:threads"]))
	c.Finish(vlib.Coverage{
		States: m.States, Transitions: m.Transitions, Evaluations: m.States, Nontrivial: m.Counters["distinct-traces"],
		Rule:        "states = complete executions of the real render pipeline, one per explored schedule; transitions = scheduler steps; non-trivial = distinct operation traces",
		Samples:     m.Samples,
		Exhaustive:  true,
		Bounds:      map[string]any{"preemption_bound": b, "workers": "1,2,3", "scenarios": len(scens), "preemption_bounds_per_scenario": "1-3 (listed per scenario in the samples); octree and svg scenarios unbounded", "yield_points": "inside the field's Evaluate at lattice points whose linear index is a multiple of 37 / 50 / 2 (100 in one thorough scenario)", "schedule_tree_shards": shards},
		Extra:       map[string]any{"counters": m.Counters},
		Assumptions: []string{"interleavings at synchronisation operations and at the placed yields inside Evaluate; weak-memory effects are not modelled", "GOMAXPROCS itself is not varied here (the worker count is); DXF and 3MF byte determinism is not explored under the scheduler (their writers run in the single writer goroutine, as ToSVG/ToSTL which are explored)"},
	})
}
