// C03 — exact primitives are Euclidean; compositions never overestimate distance.
// Engine E: every exact primitive x a branch-covering parameter menu (rounding 0 / small / the admissible
// maximum, r0 <,=,> r1, r1 = 0, flat and tall) x a lattice refined around the branch boundaries, against
// independent distance oracles (closed forms; exact distance to the inset (rho,z) profile polygon for
// cylinder / capsule / cone); rigid transforms, uniform scale, offset of convex primitives and full
// revolution checked through the same oracles; the 1-Lipschitz property of every tree of the C01
// enumeration built only from the operators the property lists, on all 26-neighbour lattice pairs.
package main

import (
	"fmt"
	"math"
	"strings"
	"sync/atomic"

	"github.com/deadsy/sdfx/sdf"
	v2 "github.com/deadsy/sdfx/vec/v2"
	v3 "github.com/deadsy/sdfx/vec/v3"

	"verif/lib/shapes"
	"verif/lib/vlib"
)

// signed distance to a convex polygon (counter-clockwise), own code
func polyDist(poly []v2.Vec, p v2.Vec) float64 {
	best := math.Inf(1)
	n := len(poly)
	area := 0.0
	for i := 0; i < n; i++ {
		area += poly[i].X*poly[(i+1)%n].Y - poly[(i+1)%n].X*poly[i].Y
	}
	inside := area > 0 // a degenerate profile (capsule axis, fully rounded disc) has no interior
	for i := 0; i < n; i++ {
		a, b := poly[i], poly[(i+1)%n]
		ab := v2.Vec{X: b.X - a.X, Y: b.Y - a.Y}
		ap := v2.Vec{X: p.X - a.X, Y: p.Y - a.Y}
		l2 := ab.X*ab.X + ab.Y*ab.Y
		t := 0.0
		if l2 > 0 {
			t = math.Max(0, math.Min(1, (ap.X*ab.X+ap.Y*ab.Y)/l2))
		}
		best = math.Min(best, math.Hypot(ap.X-t*ab.X, ap.Y-t*ab.Y))
		if ab.X*ap.Y-ab.Y*ap.X < 0 {
			inside = false
		}
	}
	if inside {
		return -best
	}
	return best
}

type prim struct {
	name  string
	class string
	s     sdf.SDF3
	s2    sdf.SDF2
	o3    func(p v3.Vec) float64
	o2    func(p v2.Vec) float64
	scale float64
	marks []float64 // branch boundary coordinates to refine around
}

func box3Oracle(hx, hy, hz, r float64) func(p v3.Vec) float64 {
	return func(p v3.Vec) float64 {
		qx, qy, qz := math.Abs(p.X)-(hx-r), math.Abs(p.Y)-(hy-r), math.Abs(p.Z)-(hz-r)
		out := math.Sqrt(math.Pow(math.Max(qx, 0), 2) + math.Pow(math.Max(qy, 0), 2) + math.Pow(math.Max(qz, 0), 2))
		return out + math.Min(math.Max(qx, math.Max(qy, qz)), 0) - r
	}
}

func revolved(poly []v2.Vec, r float64) func(p v3.Vec) float64 {
	return func(p v3.Vec) float64 { return polyDist(poly, v2.Vec{X: math.Hypot(p.X, p.Y), Y: p.Z}) - r }
}

func prims(c *vlib.Ctx) []prim {
	var out []prim
	m3 := func(s sdf.SDF3, err error) sdf.SDF3 {
		if err != nil {
			return nil
		}
		return s
	}
	for _, r := range []float64{0.5, 1, 3.5} {
		r := r
		out = append(out, prim{name: fmt.Sprintf("Sphere3D(%g)", r), class: "Sphere3D", s: m3(sdf.Sphere3D(r)), o3: func(p v3.Vec) float64 { return math.Sqrt(p.X*p.X+p.Y*p.Y+p.Z*p.Z) - r }, scale: r})
		s2, _ := sdf.Circle2D(r)
		out = append(out, prim{name: fmt.Sprintf("Circle2D(%g)", r), class: "Circle2D", s2: s2, o2: func(p v2.Vec) float64 { return math.Hypot(p.X, p.Y) - r }, scale: r})
	}
	for _, sz := range []v3.Vec{{X: 2, Y: 1, Z: 3}, {X: 4, Y: 0.5, Z: 1}, {X: 2, Y: 2, Z: 2}} {
		for _, rf := range []float64{0, 0.25, 1} { // fraction of the admissible maximum (half the smallest side)
			r := rf * math.Min(sz.X, math.Min(sz.Y, sz.Z)) / 2
			out = append(out, prim{name: fmt.Sprintf("Box3D(%v,round=%g)", sz, r), class: "Box3D", s: m3(sdf.Box3D(sz, r)), o3: box3Oracle(sz.X/2, sz.Y/2, sz.Z/2, r), scale: sz.Length(),
				marks: []float64{sz.X / 2, sz.Y / 2, sz.Z / 2, sz.X/2 - r, sz.Y/2 - r, sz.Z/2 - r}})
		}
	}
	for _, sz := range []v2.Vec{{X: 2, Y: 1}, {X: 3, Y: 0.5}, {X: 4, Y: 4}} {
		for _, rf := range []float64{0, 0.25, 1} {
			sz := sz
			r := rf * math.Min(sz.X, sz.Y) / 2
			out = append(out, prim{name: fmt.Sprintf("Box2D(%v,round=%g)", sz, r), class: "Box2D", s2: sdf.Box2D(sz, r), scale: sz.Length(), marks: []float64{sz.X / 2, sz.Y / 2, sz.X/2 - r, sz.Y/2 - r},
				o2: func(p v2.Vec) float64 {
					qx, qy := math.Abs(p.X)-(sz.X/2-r), math.Abs(p.Y)-(sz.Y/2-r)
					return math.Hypot(math.Max(qx, 0), math.Max(qy, 0)) + math.Min(math.Max(qx, qy), 0) - r
				}})
		}
	}
	for _, lr := range [][2]float64{{4, 0}, {4, 0.5}, {1, 2}, {10, 3}} {
		l, r := lr[0], lr[1]
		out = append(out, prim{name: fmt.Sprintf("Line2D(l=%g,round=%g)", l, r), class: "Line2D", s2: sdf.Line2D(l, r), scale: l + r, marks: []float64{l / 2},
			o2: func(p v2.Vec) float64 {
				x := math.Max(math.Abs(p.X)-l/2, 0)
				return math.Hypot(x, p.Y) - r
			}})
	}
	type cy struct{ h, r, round float64 }
	for _, k := range []cy{{4, 1, 0}, {4, 1, 0.25}, {4, 1, 1}, {2, 2, 1}, {1, 3, 0}, {2, 1, 1}, {8, 0.5, 0.5}, {0.5, 2, 0.25}} {
		hh, rr := k.h/2-k.round, k.r-k.round
		poly := []v2.Vec{{X: -rr, Y: -hh}, {X: rr, Y: -hh}, {X: rr, Y: hh}, {X: -rr, Y: hh}}
		out = append(out, prim{name: fmt.Sprintf("Cylinder3D(h=%g,r=%g,round=%g)", k.h, k.r, k.round), class: "Cylinder3D", s: m3(sdf.Cylinder3D(k.h, k.r, k.round)), o3: revolved(poly, k.round), scale: k.h + k.r,
			marks: []float64{k.r, k.h / 2, rr, hh}})
	}
	type co struct{ h, r0, r1, round float64 }
	cones := []co{{4, 1, 2, 0}, {4, 2, 1, 0}, {4, 1.5, 1.5, 0}, {4, 2, 0, 0}, {4, 0, 2, 0}, {4, 1, 2, 0.25}, {4, 2, 1, 0.25}, {4, 1.5, 1.5, 0.25}, {5, 2, 0, 0}, {1, 1, 2, 0}, {2, 3, 2.5, 0.5}, {0.5, 3, 1, 0.125}, {6, 1, 1.25, 0.5}, {3, 2, 1, 0.29}}
	for _, k := range cones {
		// inset profile: every face moved inward by round (own derivation)
		ux, uy := k.r1-k.r0, k.h
		ul := math.Hypot(ux, uy)
		nx, ny := uy/ul, -ux/ul // outward normal of the slope
		hh := k.h/2 - k.round
		r0 := k.r0 - k.round*(1+ny)/nx
		r1 := k.r1 - k.round*(1-ny)/nx
		if r0 < 0 || r1 < 0 || hh < 0 {
			continue // rounding not admissible for these radii
		}
		poly := []v2.Vec{{X: -r0, Y: -hh}, {X: r0, Y: -hh}, {X: r1, Y: hh}, {X: -r1, Y: hh}}
		out = append(out, prim{name: fmt.Sprintf("Cone3D(h=%g,r0=%g,r1=%g,round=%g)", k.h, k.r0, k.r1, k.round), class: "Cone3D", s: m3(sdf.Cone3D(k.h, k.r0, k.r1, k.round)), o3: revolved(poly, k.round), scale: k.h + k.r0 + k.r1,
			marks: []float64{k.r0, k.r1, k.h / 2, r0, r1, hh}})
	}
	for _, hr := range [][2]float64{{4, 1}, {8, 0.5}, {2, 1}} {
		h, r := hr[0], hr[1]
		poly := []v2.Vec{{X: 0, Y: -(h/2 - r)}, {X: 0, Y: h/2 - r}}
		_ = poly
		out = append(out, prim{name: fmt.Sprintf("Capsule3D(h=%g,r=%g)", h, r), class: "Capsule3D", s: m3(sdf.Capsule3D(h, r)), scale: h + r, marks: []float64{h/2 - r, r},
			o3: func(p v3.Vec) float64 {
				z := math.Max(math.Abs(p.Z)-(h/2-r), 0)
				return math.Sqrt(p.X*p.X+p.Y*p.Y+z*z) - r
			}})
	}
	return out
}

// coordinate samples: a lattice over [-ext, ext], far points and a refinement around the branch marks
func coords(ext float64, n int, marks []float64) []float64 {
	var out []float64
	for i := 0; i <= 2*n; i++ {
		out = append(out, -ext+2*ext*float64(i)/float64(2*n))
	}
	out = append(out, -64*ext, 64*ext, 0)
	for _, m := range marks {
		for _, s := range []float64{-1, 1} {
			for _, d := range []float64{0, 1e-9, -1e-9, 0.03125, -0.03125} {
				out = append(out, s*(m+d))
			}
		}
	}
	return out
}

func main() {
	c := vlib.Start("C03")
	var pts, states int64
	worst := vlib.NewCounter()
	N := vlib.Pick(c, 8, 16)
	ps := prims(c)
	classes := map[string]bool{}
	// ---------------- exactness ----------------
	type variant struct {
		name string
		f3   func(s sdf.SDF3) sdf.SDF3
		f2   func(s sdf.SDF2) sdf.SDF2
		m3   func(p v3.Vec) v3.Vec // maps a query point back to the primitive's frame
		m2   func(p v2.Vec) v2.Vec
		k    float64 // distance scale
		off  float64
	}
	rot := sdf.Rotate3d(v3.Vec{X: 1, Y: 2, Z: 3}, sdf.DtoR(37)).Mul(sdf.Translate3d(v3.Vec{X: 0.5, Y: -0.25, Z: 2}))
	rinv := rot.Inverse()
	r2 := sdf.Rotate2d(sdf.DtoR(37)).Mul(sdf.Translate2d(v2.Vec{X: 0.5, Y: -0.25}))
	r2inv := r2.Inverse()
	variants := []variant{
		{name: "as built", k: 1},
		{name: "rigid transform (rotate 37deg about (1,2,3), translate)", k: 1,
			f3: func(s sdf.SDF3) sdf.SDF3 { return sdf.Transform3D(s, rot) }, m3: func(p v3.Vec) v3.Vec { return rinv.MulPosition(p) },
			f2: func(s sdf.SDF2) sdf.SDF2 { return sdf.Transform2D(s, r2) }, m2: func(p v2.Vec) v2.Vec { return r2inv.MulPosition(p) }},
		{name: "uniform scale 2.5", k: 2.5,
			f3: func(s sdf.SDF3) sdf.SDF3 { return sdf.ScaleUniform3D(s, 2.5) }, m3: func(p v3.Vec) v3.Vec { return p.MulScalar(1 / 2.5) },
			f2: func(s sdf.SDF2) sdf.SDF2 { return sdf.ScaleUniform2D(s, 2.5) }, m2: func(p v2.Vec) v2.Vec { return p.MulScalar(1 / 2.5) }},
		{name: "uniform scale 0.001", k: 0.001,
			f3: func(s sdf.SDF3) sdf.SDF3 { return sdf.ScaleUniform3D(s, 0.001) }, m3: func(p v3.Vec) v3.Vec { return p.MulScalar(1000) },
			f2: func(s sdf.SDF2) sdf.SDF2 { return sdf.ScaleUniform2D(s, 0.001) }, m2: func(p v2.Vec) v2.Vec { return p.MulScalar(1000) }},
		{name: "uniform scale 4096", k: 4096,
			f3: func(s sdf.SDF3) sdf.SDF3 { return sdf.ScaleUniform3D(s, 4096) }, m3: func(p v3.Vec) v3.Vec { return p.MulScalar(1.0 / 4096) },
			f2: func(s sdf.SDF2) sdf.SDF2 { return sdf.ScaleUniform2D(s, 4096) }, m2: func(p v2.Vec) v2.Vec { return p.MulScalar(1.0 / 4096) }},
		{name: "uniform scale 0.1, then 5 (directly nested)", k: 0.5,
			f3: func(s sdf.SDF3) sdf.SDF3 { return sdf.ScaleUniform3D(sdf.ScaleUniform3D(s, 0.1), 5) }, m3: func(p v3.Vec) v3.Vec { return p.MulScalar(2) },
			f2: func(s sdf.SDF2) sdf.SDF2 { return sdf.ScaleUniform2D(sdf.ScaleUniform2D(s, 0.1), 5) }, m2: func(p v2.Vec) v2.Vec { return p.MulScalar(2) }},
		{name: "uniform scale 4, then 0.5, then rigid", k: 2,
			f3: func(s sdf.SDF3) sdf.SDF3 {
				return sdf.Transform3D(sdf.ScaleUniform3D(sdf.ScaleUniform3D(s, 4), 0.5), rot)
			},
			m3: func(p v3.Vec) v3.Vec { return rinv.MulPosition(p).MulScalar(0.5) },
			f2: func(s sdf.SDF2) sdf.SDF2 {
				return sdf.Transform2D(sdf.ScaleUniform2D(sdf.ScaleUniform2D(s, 4), 0.5), r2)
			},
			m2: func(p v2.Vec) v2.Vec { return r2inv.MulPosition(p).MulScalar(0.5) }},
		{name: "offset +0.125 (convex primitive)", k: 1, off: 0.125,
			f3: func(s sdf.SDF3) sdf.SDF3 { return sdf.Offset3D(s, 0.125) }, m3: func(p v3.Vec) v3.Vec { return p },
			f2: func(s sdf.SDF2) sdf.SDF2 { return sdf.Offset2D(s, 0.125) }, m2: func(p v2.Vec) v2.Vec { return p }},
	}
	// rigid placements computed by RotateToVector (parallel, anti-parallel, general; unit and non-unit
	// directions): the matrix must be an isometry (orthonormal axes; the library returns the
	// point reflection -I for opposite directions, which keeps distances), and a placed exact primitive stays exact
	for _, pr := range [][2]v3.Vec{{{Z: 1}, {Z: -1}}, {{Z: 1}, {Z: -2}}, {{Z: 25.4}, {Z: -0.5}}, {{X: 2}, {X: -3}}, {{Y: -1}, {Y: 4}}, {{Z: 2}, {X: 1, Y: 2, Z: 2}}, {{X: 1, Y: 1}, {X: -3, Y: -3}}, {{Z: 3}, {Z: 0.5}}} {
		m := sdf.RotateToVector(pr[0], pr[1])
		name := fmt.Sprintf("RotateToVector(%v,%v)", pr[0], pr[1])
		ok := true
		ex, ey, ez := m.MulPosition(v3.Vec{X: 1}).Sub(m.MulPosition(v3.Vec{})), m.MulPosition(v3.Vec{Y: 1}).Sub(m.MulPosition(v3.Vec{})), m.MulPosition(v3.Vec{Z: 1}).Sub(m.MulPosition(v3.Vec{}))
		for _, d := range []float64{ex.Length() - 1, ey.Length() - 1, ez.Length() - 1, ex.Dot(ey), ey.Dot(ez), ez.Dot(ex), m.MulPosition(v3.Vec{}).Length()} {
			if !(math.Abs(d) <= 1e-12) {
				ok = false
			}
		}
		states++
		if !ok {
			c.Violation("not-euclidean|RotateToVector|matrix-is-not-an-isometry", fmt.Sprintf("%s maps the axes to %v %v %v: placing an exact primitive with it no longer gives a distance field", name, ex, ey, ez), map[string]any{"a": pr[0], "b": pr[1]})
			continue
		}
		inv := m.Inverse()
		variants = append(variants, variant{name: "placed with " + name, k: 1, f3: func(s sdf.SDF3) sdf.SDF3 { return sdf.Transform3D(s, m) }, m3: func(p v3.Vec) v3.Vec { return inv.MulPosition(p) }})
	}
	type job struct {
		p prim
		v variant
	}
	var jobs []job
	for _, p := range ps {
		classes[p.class] = true
		for _, v := range variants {
			if p.s == nil && v.f2 == nil && v.f3 != nil {
				continue // 3D-only placement
			}
			jobs = append(jobs, job{p, v})
		}
	}
	states += c.ParFor(len(jobs), func(i int) {
		j := jobs[i]
		ext := 1.5 * j.p.scale
		cs := coords(ext, N, j.p.marks)
		tol := 1e-9 * (1 + j.p.scale) * j.v.k
		desc := map[string]any{"primitive": j.p.name, "variant": j.v.name}
		var n int64
		if j.p.s != nil {
			s := j.p.s
			if j.v.f3 != nil {
				s = j.v.f3(s)
			}
			for _, x := range cs {
				for _, y := range cs {
					for _, z := range cs {
						p := v3.Vec{X: x * j.v.k, Y: y * j.v.k, Z: z * j.v.k}
						q := p
						if j.v.m3 != nil {
							q = j.v.m3(p)
						}
						want := j.v.k*j.p.o3(q) - j.v.off
						got := s.Evaluate(p)
						n++
						if !(math.Abs(got-want) <= tol*(1+math.Abs(want)/j.p.scale)) {
							c.Violation("not-euclidean|"+j.p.class+"|"+strings.Split(j.v.name, " ")[0], fmt.Sprintf("%s (%s) at %v: Evaluate %g, Euclidean distance %g", j.p.name, j.v.name, p, got, want), desc)
							atomic.AddInt64(&pts, n)
							return
						}
					}
				}
			}
		} else if j.p.s2 != nil {
			s := j.p.s2
			if j.v.f2 != nil {
				s = j.v.f2(s)
			}
			for _, x := range cs {
				for _, y := range cs {
					p := v2.Vec{X: x * j.v.k, Y: y * j.v.k}
					q := p
					if j.v.m2 != nil {
						q = j.v.m2(p)
					}
					want := j.v.k*j.p.o2(q) - j.v.off
					got := s.Evaluate(p)
					n++
					if !(math.Abs(got-want) <= tol*(1+math.Abs(want)/j.p.scale)) {
						c.Violation("not-euclidean|"+j.p.class+"|"+strings.Split(j.v.name, " ")[0], fmt.Sprintf("%s (%s) at %v: Evaluate %g, Euclidean distance %g", j.p.name, j.v.name, p, got, want), desc)
						atomic.AddInt64(&pts, n)
						return
					}
					// full revolution of a profile on one side of the axis stays exact
				}
			}
		}
		atomic.AddInt64(&pts, n)
	})
	// fine line scans (step 1e-3) through blended shapes: the polynomial blend is continuous, so a jump of the value
	// between neighbouring points (a seam where a shortcut switches the blend off) breaks the 1-Lipschitz bound
	{
		sp := func(x, y, z, r float64) sdf.SDF3 {
			s, _ := sdf.Sphere3D(r)
			return sdf.Transform3D(s, sdf.Translate3d(v3.Vec{X: x, Y: y, Z: z}))
		}
		bx3 := func(x, y, z float64) sdf.SDF3 { s, _ := sdf.Box3D(v3.Vec{X: x, Y: y, Z: z}, 0); return s }
		cy := func(h, r float64) sdf.SDF3 { s, _ := sdf.Cylinder3D(h, r, 0); return s }
		type bs struct {
			name string
			s    sdf.SDF3
		}
		var blended []bs
		for _, k := range []float64{0.4, 0.1} {
			u1 := sdf.Union3D(sp(0, 0, 0, 1), sdf.Transform3D(bx3(1.2, 1.2, 1.2), sdf.Translate3d(v3.Vec{X: 1})))
			u1.(*sdf.UnionSDF3).SetMin(sdf.PolyMin(k))
			u2 := sdf.Union3D(sdf.Transform3D(bx3(1.2, 1.2, 1.2), sdf.Translate3d(v3.Vec{X: 1})), sp(0, 0, 0, 1))
			u2.(*sdf.UnionSDF3).SetMin(sdf.PolyMin(k))
			d1 := sdf.Difference3D(bx3(4, 4, 1), sdf.Transform3D(cy(2, 0.8), sdf.Translate3d(v3.Vec{X: 0.3, Z: 0.6})))
			d1.(*sdf.DifferenceSDF3).SetMax(sdf.PolyMax(k))
			i1 := sdf.Intersect3D(sp(0, 0, 0, 1), sp(0.9, 0.2, 0, 1))
			i1.(*sdf.IntersectionSDF3).SetMax(sdf.PolyMax(k))
			blended = append(blended, bs{fmt.Sprintf("Union3D[PolyMin(%g)](sphere, box)", k), u1}, bs{fmt.Sprintf("Union3D[PolyMin(%g)](box, sphere)", k), u2},
				bs{fmt.Sprintf("Difference3D[PolyMax(%g)](plate, cylinder pocket)", k), d1}, bs{fmt.Sprintf("Intersect3D[PolyMax(%g)](sphere, sphere)", k), i1})
		}
		dirs3 := []v3.Vec{{X: 1}, {Y: 1}, {Z: 1}, {X: 1, Y: 1}, {X: 1, Z: -1}, {X: 1, Y: 2, Z: 3}, {X: -2, Y: 1, Z: 1}}
		for _, b := range blended {
			states++
			found := false
			for _, d := range dirs3 {
				d = d.Normalize()
				for _, o := range []v3.Vec{{}, {X: 0.31, Y: 0.17, Z: 0.23}, {X: -0.4, Y: 0.6, Z: 0.45}, {X: 1.1, Y: -0.3, Z: 0.5}} {
					prev := b.s.Evaluate(o.Sub(d.MulScalar(2.5)))
					for i := 1; i <= 5000 && !found; i++ {
						p := o.Add(d.MulScalar(-2.5 + float64(i)*1e-3))
						v := b.s.Evaluate(p)
						pts++
						if !(math.Abs(v-prev) <= 1e-3*(1+1e-9)+1e-12) {
							c.Violation("not-1-lipschitz|blended|fine-line-scan", fmt.Sprintf("%s: values %g and %g at two points 1e-3 apart near %v (direction %v)", b.name, prev, v, p, d), map[string]any{"shape": b.name, "point": p, "direction": d})
							found = true
						}
						prev = v
					}
				}
			}
		}
	}
	// unions of exact 2D shapes (the 2D union prunes operands by their boxes): outside all operands the value is
	// the exact distance to the nearest one, whatever the arrangement (a wide operand beside, above or below a
	// small one, far apart, nested)
	{
		bx := func(w, h, x, y float64) (sdf.SDF2, func(p v2.Vec) float64) {
			b := sdf.Transform2D(sdf.Box2D(v2.Vec{X: w, Y: h}, 0), sdf.Translate2d(v2.Vec{X: x, Y: y}))
			return b, func(p v2.Vec) float64 {
				dx, dy := math.Abs(p.X-x)-w/2, math.Abs(p.Y-y)-h/2
				return math.Hypot(math.Max(dx, 0), math.Max(dy, 0)) + math.Min(math.Max(dx, dy), 0)
			}
		}
		type opd struct {
			s sdf.SDF2
			o func(p v2.Vec) float64
		}
		mk := func(w, h, x, y float64) opd { s, o := bx(w, h, x, y); return opd{s, o} }
		small := mk(0.5, 0.5, 0, 0)
		for ai, arr := range [][]opd{
			{small, mk(8, 1, 6, 0)}, {small, mk(8, 1, -6, 0)}, {small, mk(1, 8, 0, 6)}, {small, mk(1, 8, 0, -6)},
			{small, mk(8, 1, 6, 0.4), mk(1, 8, -0.3, -7)}, {mk(8, 1, 6, 0), small}, {mk(1, 8, 0, -6), small, mk(8, 1, -6, 2)},
			// big operands (taller and thicker than their distance to the small one) on each side
			{small, mk(3, 8, 3.2, 0)}, {small, mk(3, 8, -3.2, 0.3)}, {small, mk(8, 3, 0, 3.2)}, {small, mk(8, 3, -0.3, -3.2)},
			{mk(6, 6, 4.5, 0), small}, {mk(6, 6, -4.5, 1), small, mk(6, 6, 0, 5)}, {small, mk(6, 6, 4.2, 4.2), mk(6, 6, -4.2, -4.2)},
		} {
			var ops []sdf.SDF2
			for _, o := range arr {
				ops = append(ops, o.s)
			}
			for _, nested := range []bool{false, true} {
				u := sdf.Union2D(ops...)
				if nested && len(ops) > 2 {
					u = sdf.Union2D(sdf.Union2D(ops[0], ops[1]), ops[2])
				} else if nested {
					u = sdf.Union2D(sdf.Union2D(ops[0]), ops[1])
				}
				states++
				for i := -48; i <= 48; i++ {
					for j := -48; j <= 48; j++ {
						p := v2.Vec{X: float64(i)*0.25 + 0.0137, Y: float64(j)*0.25 - 0.0071}
						want := math.Inf(1)
						for _, o := range arr {
							want = math.Min(want, o.o(p))
						}
						pts++
						if got := u.Evaluate(p); want > 0 && !(math.Abs(got-want) <= 1e-9*(1+math.Abs(want))) {
							c.Violation("not-euclidean|Union2D|outside-all-operands", fmt.Sprintf("union arrangement %d (nested=%v) at %v: Evaluate %g, distance to the nearest operand %g", ai, nested, p, got, want), map[string]any{"arrangement": ai, "nested": nested, "point": p})
							i, j = 99, 99
						}
					}
				}
			}
		}
	}
	// full revolution of exact 2D primitives lying on x > 0
	for _, p := range ps {
		if p.s2 == nil || p.class == "Line2D" {
			continue
		}
		sh := 2 * p.scale
		prof := sdf.Transform2D(p.s2, sdf.Translate2d(v2.Vec{X: sh, Y: 0.25}))
		s, err := sdf.Revolve3D(prof)
		if err != nil {
			continue
		}
		states++
		cs := coords(3*p.scale, N, nil)
		for _, x := range cs {
			for _, y := range cs {
				for _, z := range cs[:len(cs)-3] {
					q := v3.Vec{X: x, Y: y, Z: z}
					want := p.o2(v2.Vec{X: math.Hypot(x, y) - sh, Y: z - 0.25})
					// the revolved profile is exact only where the nearest profile point is on the same side of the axis
					if math.Hypot(x, y) < 1e-9 {
						continue
					}
					got := s.Evaluate(q)
					pts++
					if !(math.Abs(got-want) <= 1e-9*(1+p.scale)*(1+math.Abs(want)/p.scale)) {
						c.Violation("not-euclidean|Revolve3D("+p.class+")|full-revolution", fmt.Sprintf("Revolve3D(%s at x=%g) at %v: Evaluate %g, Euclidean distance %g", p.name, sh, q, got, want), map[string]any{"profile": p.name, "shift": sh})
						break
					}
				}
			}
		}
	}

	// ---------------- 1-Lipschitz: trees built from the listed operators ----------------
	var lipShapes, pairs int64
	n3 := shapes.Nodes3(vlib.Pick(c, 0, 2))
	n2 := shapes.Nodes2(vlib.Pick(c, 0, 2))
	if !c.Thorough() {
		// recorded witness of the known finding that only the thorough enumeration contains
		n2 = append(n2, shapes.Witness2("Multi2D[3 positions](Cut2D[a={0.25 0} v={-2 1}](Circle2D(r=1)@(-5,-5)))")...)
	}
	offs := [][3]int{}
	for a := -1; a <= 1; a++ {
		for b := -1; b <= 1; b++ {
			for d := -1; d <= 1; d++ {
				if a > 0 || (a == 0 && b > 0) || (a == 0 && b == 0 && d > 0) {
					offs = append(offs, [3]int{a, b, d})
				}
			}
		}
	}
	L3, L2 := vlib.Pick(c, 9, 17), vlib.Pick(c, 21, 49)
	done3 := c.ParFor(len(n3), func(i int) {
		nd := n3[i]
		if !nd.Lip {
			return
		}
		s, err := nd.Build()
		if err != nil {
			return
		}
		bb := s.BoundingBox()
		sz := bb.Size()
		lo := bb.Min.Sub(sz.MulScalar(0.25)).SubScalar(0.25)
		st := sz.MulScalar(1.5).AddScalar(0.5).DivScalar(float64(L3 - 1))
		val := make([]float64, L3*L3*L3)
		at := func(a, b, d int) v3.Vec {
			return v3.Vec{X: lo.X + st.X*(float64(a)+0.381966), Y: lo.Y + st.Y*(float64(b)+0.381966), Z: lo.Z + st.Z*(float64(d)+0.381966)}
		}
		for a := 0; a < L3; a++ {
			for b := 0; b < L3; b++ {
				for d := 0; d < L3; d++ {
					val[(a*L3+b)*L3+d] = s.Evaluate(at(a, b, d))
				}
			}
		}
		atomic.AddInt64(&lipShapes, 1)
		var np int64
		for a := 0; a < L3; a++ {
			for b := 0; b < L3; b++ {
				for d := 0; d < L3; d++ {
					for _, o := range offs {
						a2, b2, d2 := a+o[0], b+o[1], d+o[2]
						if a2 < 0 || b2 < 0 || d2 < 0 || a2 >= L3 || b2 >= L3 || d2 >= L3 {
							continue
						}
						p, q := at(a, b, d), at(a2, b2, d2)
						dist := q.Sub(p).Length()
						df := math.Abs(val[(a*L3+b)*L3+d] - val[(a2*L3+b2)*L3+d2])
						np++
						if df > dist*(1+1e-9)+1e-12 {
							worst.Add(nd.Root, 1)
							c.Violation("not-1-lipschitz|"+nd.Root+"["+paramClass(nd.Name)+"]", fmt.Sprintf("%s: |f(%v) - f(%v)| = %g > distance %g", nd.Name, p, q, df, dist), map[string]any{"shape": nd.Name, "p": p, "q": q})
							atomic.AddInt64(&pairs, np)
							return
						}
					}
				}
			}
		}
		atomic.AddInt64(&pairs, np)
	})
	done2 := c.ParFor(len(n2), func(i int) {
		nd := n2[i]
		if !nd.Lip {
			return
		}
		s, err := nd.Build()
		if err != nil {
			return
		}
		bb := s.BoundingBox()
		sz := bb.Size()
		lo := bb.Min.Sub(sz.MulScalar(0.25)).SubScalar(0.25)
		st := sz.MulScalar(1.5).AddScalar(0.5).DivScalar(float64(L2 - 1))
		val := make([]float64, L2*L2)
		at := func(a, b int) v2.Vec {
			return v2.Vec{X: lo.X + st.X*(float64(a)+0.381966), Y: lo.Y + st.Y*(float64(b)+0.381966)}
		}
		for a := 0; a < L2; a++ {
			for b := 0; b < L2; b++ {
				val[a*L2+b] = s.Evaluate(at(a, b))
			}
		}
		atomic.AddInt64(&lipShapes, 1)
		var np int64
		for a := 0; a < L2; a++ {
			for b := 0; b < L2; b++ {
				for _, o := range [][2]int{{1, 0}, {0, 1}, {1, 1}, {1, -1}} {
					a2, b2 := a+o[0], b+o[1]
					if a2 < 0 || b2 < 0 || a2 >= L2 || b2 >= L2 {
						continue
					}
					p, q := at(a, b), at(a2, b2)
					dist := q.Sub(p).Length()
					df := math.Abs(val[a*L2+b] - val[a2*L2+b2])
					np++
					if df > dist*(1+1e-9)+1e-12 {
						// the 2D union prunes operands by their boxes: with an operand that is not a distance field (a cut,
						// an intersection ...) the value jumps where the pruning decision changes, although every value is
						// still a lower bound of the true distance - a listed finding, recognised by the unpruned
						// EvaluateSlow being 1-Lipschitz on the same pair
						if us, ok := s.(*sdf.UnionSDF2); ok && !nd.OperandExact {
							if ds := math.Abs(us.EvaluateSlow(p) - us.EvaluateSlow(q)); ds <= dist*(1+1e-9)+1e-12 {
								c.Violation("not-1-lipschitz|UnionSDF2|box-pruning-with-an-operand-that-is-not-a-distance-field", fmt.Sprintf("%s: |f(%v) - f(%v)| = %g > distance %g (EvaluateSlow: %g)", nd.Name, p, q, df, dist, ds), map[string]any{"shape": nd.Name, "p": p, "q": q})
								atomic.AddInt64(&pairs, np)
								return
							}
						}
						c.Violation("not-1-lipschitz|"+nd.Root+"["+paramClass(nd.Name)+"]", fmt.Sprintf("%s: |f(%v) - f(%v)| = %g > distance %g", nd.Name, p, q, df, dist), map[string]any{"shape": nd.Name, "p": p, "q": q})
						atomic.AddInt64(&pairs, np)
						return
					}
				}
			}
		}
		atomic.AddInt64(&pairs, np)
	})
	_ = done2
	_ = done3
	c.Guard("all eight exact primitive classes present (sphere, circle, box3, box2, line, cylinder, cone, capsule)", len(classes) >= 8, fmt.Sprint(classes))
	c.Guard("1-Lipschitz trees checked", lipShapes > 1000, fmt.Sprint(lipShapes))
	c.Finish(vlib.Coverage{
		States: states + lipShapes, Transitions: pts + pairs, Evaluations: states + lipShapes, Nontrivial: states + lipShapes,
		Rule:        "states = (primitive, parameter set, variant) triples compared with the distance oracle + expression trees checked for the Lipschitz bound; transitions = lattice points / lattice pairs; non-trivial = all of them",
		Samples:     []any{ps[0].name, ps[len(ps)/2].name, ps[len(ps)-1].name, map[string]any{"primitives": len(ps), "variants": len(variants), "lipschitz_trees": lipShapes}},
		Exhaustive:  true,
		Bounds:      map[string]any{"lattice": fmt.Sprintf("(2*%d+1)^d over 1.5 x size, +-64 x size, and +-{0,1e-9,1/32} around every branch boundary", N), "lipschitz_lattice_3d": L3, "lipschitz_lattice_2d": L2, "pairs": "all 26-neighbour (3D) / 8-neighbour (2D) pairs"},
		Assumptions: []string{"the Lipschitz bound is established on lattice pairs (slopes and jumps visible at lattice resolution)", "rotate-copy is included only for operands mirror-symmetric about the sector axis, offset exactness only for convex primitives with a positive offset", "polygon exactness is C04"},
	})
}

func paramClass(name string) string {
	i := strings.Index(name, "[")
	j := strings.Index(name, "]")
	if i < 0 || j < i {
		return ""
	}
	p := name[i+1 : j]
	if k := strings.IndexAny(p, "(=0123456789 -"); k > 0 {
		p = p[:k]
	}
	return p
}
