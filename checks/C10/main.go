// C10 — shapes may be evaluated concurrently.
// Engine S: every leaf shape (all primitives, all obj parts), every depth-1 wrapper over the
// representative operands (cache, voxel, arrays, rotate-copy/union, text, unions of 2 / 9 / 17 operands...)
// is evaluated from 2-3 logical threads on colliding points under the controlled scheduler.  The sources
// are rewritten so that every access to shared mutable state (package-level variables, receiver and
// parameter fields that are written anywhere outside constructors) emits a read/write event; a pair of
// events on the same location that is not ordered by happens-before (vector clocks over the lock,
// channel, wait-group, once and go edges) is a data race.  Values must equal the sequential ones.  A
// reflective deep hash of the shape's reachable state around Evaluate guards the instrumentation
// ("mutation the instrumentation cannot see" is a harness error, never silence).
package main

import (
	"bytes"
	"fmt"
	"hash/fnv"
	"math"
	"os"
	"os/exec"
	"reflect"
	"regexp"
	"strings"
	"unsafe"

	"github.com/deadsy/sdfx/render"
	"github.com/deadsy/sdfx/sdf"
	v2 "github.com/deadsy/sdfx/vec/v2"
	v3 "github.com/deadsy/sdfx/vec/v3"
	"github.com/deadsy/sdfx/verifrt/vatomic"
	"github.com/deadsy/sdfx/verifrt/vsync"

	"verif/lib/c10sub"
	"verif/lib/vlib"
)

// deepHash hashes everything reachable from v (unexported fields included).
func deepHash(v any) uint64 {
	h := fnv.New64a()
	seen := map[uintptr]bool{}
	var walk func(x reflect.Value, depth int)
	walk = func(x reflect.Value, depth int) {
		if depth > 60 {
			return
		}
		switch x.Kind() {
		case reflect.Ptr, reflect.Interface:
			if x.IsNil() {
				h.Write([]byte{0})
				return
			}
			if x.Kind() == reflect.Ptr {
				p := x.Pointer()
				if seen[p] {
					return
				}
				seen[p] = true
			}
			walk(x.Elem(), depth+1)
		case reflect.Struct:
			for i := 0; i < x.NumField(); i++ {
				f := x.Field(i)
				if !f.CanInterface() && f.CanAddr() {
					f = reflect.NewAt(f.Type(), unsafe.Pointer(f.UnsafeAddr())).Elem()
				}
				walk(f, depth+1)
			}
		case reflect.Slice:
			if x.IsNil() {
				h.Write([]byte{1})
				return
			}
			fmt.Fprintf(h, "len%d", x.Len())
			for i := 0; i < x.Len(); i++ {
				walk(x.Index(i), depth+1)
			}
		case reflect.Array:
			for i := 0; i < x.Len(); i++ {
				walk(x.Index(i), depth+1)
			}
		case reflect.Map:
			fmt.Fprintf(h, "map%d", x.Len())
			// order-independent: sum of entry hashes
			var sum uint64
			it := x.MapRange()
			for it.Next() {
				hh := fnv.New64a()
				fmt.Fprintf(hh, "%v=%v", valueString(it.Key()), valueString(it.Value()))
				sum += hh.Sum64()
			}
			fmt.Fprintf(h, "%d", sum)
		case reflect.Func, reflect.Chan, reflect.UnsafePointer:
			// not state
		case reflect.Float64, reflect.Float32:
			fmt.Fprintf(h, "%x", math.Float64bits(x.Float()))
		case reflect.Int, reflect.Int8, reflect.Int16, reflect.Int32, reflect.Int64:
			fmt.Fprintf(h, "%d", x.Int())
		case reflect.Uint, reflect.Uint8, reflect.Uint16, reflect.Uint32, reflect.Uint64, reflect.Uintptr:
			fmt.Fprintf(h, "%d", x.Uint())
		case reflect.Bool:
			fmt.Fprintf(h, "%v", x.Bool())
		case reflect.String:
			h.Write([]byte(x.String()))
		}
	}
	rv := reflect.ValueOf(v)
	walk(rv, 0)
	return h.Sum64()
}

func valueString(v reflect.Value) string {
	if v.CanInterface() {
		return fmt.Sprint(v.Interface())
	}
	switch v.Kind() {
	case reflect.Float64, reflect.Float32:
		return fmt.Sprint(v.Float())
	case reflect.Int, reflect.Int64, reflect.Int32:
		return fmt.Sprint(v.Int())
	}
	return v.Type().String()
}

type scen struct {
	Kind    string `json:"kind"` // evaluate, render, dcache3, dcache2
	Subject string `json:"subject"`
	Threads int    `json:"threads"`
	Prefix  []int  `json:"schedule_prefix,omitempty"`
}

func main() {
	c := vlib.Start("C10")
	subs := c10sub.Subjects(c.Thorough())
	thorough := c.Thorough()
	type unit struct {
		kind    string
		sub     int
		threads int
	}
	var units []unit
	for i := range subs {
		units = append(units, unit{"evaluate", i, 2})
		if i%7 == 0 || (thorough && i%2 == 0) {
			units = append(units, unit{"evaluate", i, 3})
		}
	}
	units = append(units, unit{"render", 0, 2}, unit{"render", 1, 2}, unit{"render", 2, 2}, unit{"render", 3, 3}, unit{"dcache3", 0, 2}, unit{"dcache2", 0, 2})
	// a cache with a long single-threaded history before the concurrent calls (round 8): sub = lookups already made
	// the atomic model of the rewriter exercised on its own (round 9): counters incremented by Add and by a
	// compare-and-swap loop from two threads, every interleaving
	units = append(units, unit{"atomic-selfcheck", 0, 2})
	for _, h := range vlib.Pick(c, []int{1022, 4094}, []int{254, 1022, 4094, 16382}) {
		units = append(units, unit{"cache-history", h, 2})
	}
	chunk := 24
	nch := (len(units) + chunk - 1) / chunk
	m := c.RunSharded(nch, func(job int, j *vlib.Job) {
		for ui := job * chunk; ui < (job+1)*chunk && ui < len(units); ui++ {
			u := units[ui]
			var body func()
			var seqv, conc [][]float64
			var name string
			var built any
			var hashBefore, hashAfter uint64
			mismatch := ""
			switch u.kind {
			case "evaluate":
				sb := subs[u.sub]
				name = sb.Name
				body = func() {
					conc = make([][]float64, u.threads)
					seqv = nil
					mismatch = ""
					var wg vsync.WaitGroup
					if sb.Dim == 2 {
						s, err := sb.B2()
						if err != nil || s == nil {
							mismatch = "build"
							return
						}
						built = s
						ps := c10sub.Pts2(s.BoundingBox(), thorough)
						hashBefore = deepHash(s)
						var sv []float64
						for _, p := range ps {
							sv = append(sv, s.Evaluate(p))
						}
						hashAfter = deepHash(s)
						seqv = [][]float64{sv}
						// the threads get an instance that has never been evaluated (state built lazily on first use
						// must be built correctly when the first uses are concurrent)
						if s2, err := sb.B2(); err == nil && s2 != nil {
							s = s2
						}
						for t := 0; t < u.threads; t++ {
							t := t
							wg.Add(1)
							vsync.Go(func() {
								defer wg.Done()
								for r := 0; r < 2; r++ {
									for _, p := range ps {
										conc[t] = append(conc[t], s.Evaluate(p))
										vsync.Yield()
									}
								}
							})
						}
					} else {
						s, err := sb.B3()
						if err != nil || s == nil {
							mismatch = "build"
							return
						}
						built = s
						ps := c10sub.Pts3(s.BoundingBox(), thorough)
						hashBefore = deepHash(s)
						var sv []float64
						for _, p := range ps {
							sv = append(sv, s.Evaluate(p))
						}
						hashAfter = deepHash(s)
						seqv = [][]float64{sv}
						if s3, err := sb.B3(); err == nil && s3 != nil {
							s = s3
						}
						for t := 0; t < u.threads; t++ {
							t := t
							wg.Add(1)
							vsync.Go(func() {
								defer wg.Done()
								for r := 0; r < 2; r++ {
									for _, p := range ps {
										conc[t] = append(conc[t], s.Evaluate(p))
										vsync.Yield()
									}
								}
							})
						}
					}
					wg.Wait()
					for t := range conc {
						for i, v := range conc[t] {
							w := seqv[0][i%len(seqv[0])]
							if math.Float64bits(v) != math.Float64bits(w) && !(math.IsNaN(v) && math.IsNaN(w)) {
								mismatch = fmt.Sprintf("thread %d evaluation %d returned %v, sequential value %v", t, i, v, w)
							}
						}
					}
				}
			case "render":
				name = []string{"uniform render of Extrude3D(Cache2D(Circle2D))", "uniform render of Extrude3D(Circle2D)", "uniform render of Sphere3D, layers of exactly 100 samples (one full batch)", "uniform render of Sphere3D, layers of exactly 100 samples, 3 workers"}[u.sub]
				if u.sub >= 2 {
					// the fan-out must hand back the values of sequential evaluation: every vertex of the mesh lies
					// within a cell of the surface and the mesh is not empty (a layer handed back before its
					// workers finished holds zeros or stale values)
					body = func() {
						mismatch = ""
						vsync.SetNumCPU(u.threads)
						sp, _ := sdf.Sphere3D(1)
						ts := render.ToTriangles(sp, render.NewMarchingCubesUniform(8))
						if len(ts) == 0 {
							mismatch = "the parallel render returned no triangles for a sphere"
						}
						h := 2.0 / 8 * 1.05
						for _, t := range ts {
							for _, p := range t {
								if d := math.Abs(sp.Evaluate(p)); d > h {
									mismatch = fmt.Sprintf("vertex %v of the parallel render is %g from the surface (cell %g): values differ from sequential evaluation", p, d, h)
								}
							}
						}
					}
					break
				}
				body = func() {
					mismatch = ""
					vsync.SetNumCPU(2)
					c2, _ := sdf.Circle2D(1)
					var prof sdf.SDF2 = c2
					if u.sub == 0 {
						prof = sdf.Cache2D(c2)
					}
					render.ToTriangles(sdf.Extrude3D(prof, 1), render.NewMarchingCubesUniform(3))
				}
			case "atomic-selfcheck":
				name = "rt/vatomic: Add and a CompareAndSwap loop from two threads"
				body = func() {
					mismatch = ""
					var a vatomic.Int32
					var b int64
					var wg vsync.WaitGroup
					for t := 0; t < u.threads; t++ {
						wg.Add(1)
						vsync.Go(func() {
							defer wg.Done()
							a.Add(1)
							for {
								o := vatomic.LoadInt64(&b)
								if vatomic.CompareAndSwapInt64(&b, o, o+2) {
									break
								}
							}
						})
					}
					wg.Wait()
					if a.Load() != int32(u.threads) || vatomic.LoadInt64(&b) != int64(2*u.threads) {
						mismatch = fmt.Sprintf("counters %d and %d after %d threads", a.Load(), vatomic.LoadInt64(&b), u.threads)
					}
				}
			case "cache-history":
				name = fmt.Sprintf("Cache2D after %d sequential lookups of distinct points", u.sub)
				body = func() {
					mismatch = ""
					c2, _ := sdf.Circle2D(1)
					cs := sdf.Cache2D(c2)
					for i := 0; i < u.sub; i++ {
						cs.Evaluate(v2.Vec{X: float64(i) / 64, Y: -3})
					}
					var wg vsync.WaitGroup
					for t := 0; t < u.threads; t++ {
						t := t
						wg.Add(1)
						vsync.Go(func() {
							defer wg.Done()
							for i := 0; i < 3; i++ {
								p := v2.Vec{X: float64(i) / 4, Y: float64(t + 1)} // distinct points: misses
								if i == 2 {
									p = v2.Vec{X: 0.5, Y: 0.25} // the same point in every thread
								}
								if g, w := cs.Evaluate(p), c2.Evaluate(p); g != w {
									mismatch = fmt.Sprintf("cached shape returned %v at %v, the shape itself %v", g, p, w)
								}
							}
						})
					}
					wg.Wait()
				}
			case "dcache3", "dcache2":
				name = "renderer distance cache " + u.kind
				body = func() {
					mismatch = ""
					var wg vsync.WaitGroup
					if u.kind == "dcache3" {
						s, _ := sdf.Sphere3D(1)
						ev := render.VerifDcache3(s, v3.Vec{X: -1, Y: -1, Z: -1}, 0.25, 4)
						for t := 0; t < 2; t++ {
							wg.Add(1)
							vsync.Go(func() {
								defer wg.Done()
								for i := 0; i < 4; i++ {
									if g, w := ev(i, i%2, 1), s.Evaluate(v3.Vec{X: -1 + 0.25*float64(i), Y: -1 + 0.25*float64(i%2), Z: -0.75}); g != w {
										mismatch = fmt.Sprintf("dcache3 returned %v, shape %v", g, w)
									}
								}
							})
						}
					} else {
						s, _ := sdf.Circle2D(1)
						ev := render.VerifDcache2(s, v2.Vec{X: -1, Y: -1}, 0.25, 4)
						for t := 0; t < 2; t++ {
							wg.Add(1)
							vsync.Go(func() {
								defer wg.Done()
								for i := 0; i < 4; i++ {
									if g, w := ev(i, i%2), s.Evaluate(v2.Vec{X: -1 + 0.25*float64(i), Y: -1 + 0.25*float64(i%2)}); g != w {
										mismatch = fmt.Sprintf("dcache2 returned %v, shape %v", g, w)
									}
								}
							})
						}
					}
					wg.Wait()
				}
			}
			sc := scen{Kind: u.kind, Subject: name, Threads: u.threads}
			typ := ""
			// a data race is detected from the happens-before order of one execution; schedules matter only
			// for shapes that synchronise or mutate: those are explored with 2 preemptions below
			bound := 0
			if u.kind != "evaluate" {
				bound = 1
			}
			if u.kind == "render" && u.sub >= 2 && !thorough {
				bound = 0 // 10 layers x 100 evaluations per execution: the quick tier takes the forced switches only
			}
			var writes, reads, lockOps int
			st := vsync.ExploreAll(vsync.Options{Bound: bound, Stop: c.Expired, MaxExec: 2000, Prune: true, SymmetricSpawn: []string{"render.evalRoutines"}}, body, func(x *vsync.Execution, prefix []int) bool {
				if built != nil {
					typ = strings.TrimPrefix(reflect.TypeOf(built).String(), "*")
				}
				writes, reads, lockOps = x.Writes, x.Reads, x.LockOps
				r := sc
				r.Prefix = append([]int{}, x.Choices...)
				if len(x.Races) > 0 {
					j.Violation("data-race|"+x.Races[0], fmt.Sprintf("%s (%s): %v", name, typ, x.Faults), r)
					return false
				}
				if len(x.Faults) > 0 {
					j.Violation("fault|"+typ, fmt.Sprintf("%s: %v", name, x.Faults), r)
					return false
				}
				if mismatch != "" && mismatch != "build" {
					j.Violation("value-differs-under-concurrency|"+typ, fmt.Sprintf("%s: %s", name, mismatch), r)
					return false
				}
				return true
			})
			if st.NonDetermin != "" {
				j.HarnessError("%s: %s", name, st.NonDetermin)
			}
			if st.Capped {
				j.Capped = true
				j.Count("capped-explorations", 1)
			}
			if mismatch == "build" {
				j.Count("rejected-by-constructor", 1)
				continue
			}
			if u.kind == "evaluate" && hashBefore != hashAfter {
				j.Count("types-whose-Evaluate-mutates-state", 1)
				if lockOps == 0 {
					// the evaluating threads never synchronise, yet Evaluate mutates state reachable from the
					// shared shape: concurrent calls race on it whatever the schedule
					j.Violation("data-race|Evaluate-mutates-shared-state-without-synchronisation|"+typ, fmt.Sprintf("%s (%s): a sequential Evaluate pass changed the shape's reachable state and no lock is taken", name, typ), sc)
				} else if writes == 0 {
					j.HarnessError("%s (%s): Evaluate changed the shape's reachable state but the instrumentation saw no write", name, typ)
				}
				// a mutating shape: explore its interleavings too
				st2 := vsync.ExploreAll(vsync.Options{Bound: 2, Stop: c.Expired, MaxExec: 200000, Prune: true}, body, func(x *vsync.Execution, prefix []int) bool {
					r := sc
					r.Prefix = append([]int{}, x.Choices...)
					if len(x.Races) > 0 {
						j.Violation("data-race|"+x.Races[0], fmt.Sprintf("%s (%s): %v", name, typ, x.Faults), r)
						return false
					}
					if len(x.Faults) > 0 {
						j.Violation("fault|"+typ, fmt.Sprintf("%s: %v", name, x.Faults), r)
						return false
					}
					if mismatch != "" && mismatch != "build" {
						j.Violation("value-differs-under-concurrency|"+typ, fmt.Sprintf("%s: %s", name, mismatch), r)
						return false
					}
					return true
				})
				if st2.Capped {
					j.Capped = true
					j.Count("capped-explorations", 1)
				}
				j.States += st2.Executions
				j.Transitions += st2.Steps
			}
			j.States += st.Executions
			j.Transitions += st.Steps + int64(writes+reads)
			j.Count("executions", st.Executions)
			j.Count("subjects", 1)
			j.Count("type|"+typ, 1)
			if ui%40 == 0 {
				j.Samples = append(j.Samples, sc)
			}
		}
	})
	raceSubjects, raceReports := racePass(c, len(subs))
	types := 0
	for k := range m.Counters {
		if strings.HasPrefix(k, "type|") {
			types++
		}
	}
	c.Guard("distinct concrete shape types exercised >= 40", types >= 40, fmt.Sprint(types))
	c.Finish(vlib.Coverage{
		States: m.States, Transitions: m.Transitions, Evaluations: m.States, Nontrivial: m.Counters["subjects"],
		Rule:       "states = executions (explored schedules) of 2-3 logical threads evaluating one shape on colliding points; transitions = scheduler steps + instrumented memory access events; non-trivial = distinct shapes",
		Samples:    m.Samples,
		Exhaustive: true,
		Bounds:     map[string]any{"subjects": len(subs), "threads": "2 (every 7th shape also 3)", "points": 4, "rounds": 2, "preemption_bound": "0 for shapes that neither synchronise nor mutate (one execution decides a happens-before race), 2 for shapes whose Evaluate mutates state, 1 for the renderer scenarios", "max_executions_per_exploration": "2000 / 200000 (a cap that is hit is reported as exhaustive:false)", "renderer_scenarios": "uniform render of an extruded cached / plain profile with 2 workers, dcache2/3 from two threads"},
		Extra: map[string]any{"counters": m.Counters, "concrete_types": types,
			"auxiliary_free_running_race_detector_pass": map[string]any{"subjects_run": raceSubjects, "race_reports": raceReports, "threads": 4, "note": "same subjects, real goroutines, binary built with -race from the plain tree; not an enumeration of schedules"}},
		Assumptions: []string{"a data race is a pair of instrumented accesses to the same location, at least one a write, unordered by happens-before; instrumented = package-level variables and receiver/parameter fields of sdf, render and obj that are written outside constructors",
			"state reachable only through dependencies (rtreego, freetype) is covered by the deep-hash guard, not by access events", "weak-memory effects are not modelled"},
	})
}

// racePass runs the auxiliary free-running pass: the binary built with -race from the plain tree
// (checks/C10/racepass) evaluates the same subjects on real goroutines.  Every "WARNING: DATA RACE"
// report is attributed to the subject announced before it and to the first sdfx frame of its stacks.
func racePass(c *vlib.Ctx, nsub int) (int, int) {
	bin := os.Getenv("VERIF_RACEPASS_BIN")
	if bin == "" {
		c.HarnessError("auxiliary race-detector binary was not built (VERIF_RACEPASS_BIN unset)")
		return 0, 0
	}
	cmd := exec.Command(bin, c.Tier)
	cmd.Env = append(os.Environ(), "GORACE=halt_on_error=0 exitcode=0", "VERIF_WORKER=")
	var stderr bytes.Buffer
	cmd.Stderr = &stderr
	err := cmd.Run()
	out := stderr.String()
	if err != nil {
		tail := out
		if len(tail) > 1500 {
			tail = tail[len(tail)-1500:]
		}
		c.Violation("fault|free-running-concurrent-Evaluate", fmt.Sprintf("the free-running pass died: %v: %s", err, tail), map[string]any{"kind": "racepass"})
		return 0, 0
	}
	if !strings.Contains(out, "@@DONE") {
		c.HarnessError("auxiliary race-detector pass did not finish")
	}
	subject, run, reports := "", 0, 0
	frame := regexp.MustCompile(`github\.com/deadsy/sdfx/([a-z0-9/]+)\.((?:\(\*?[A-Za-z0-9_]+\)\.)?[A-Za-z0-9_]+)`)
	lines := strings.Split(out, "\n")
	for i := 0; i < len(lines); i++ {
		l := lines[i]
		if strings.HasPrefix(l, "@@SUBJECT ") {
			subject = strings.SplitN(l, " ", 3)[2]
			run++
			continue
		}
		if !strings.HasPrefix(l, "WARNING: DATA RACE") {
			continue
		}
		reports++
		site := "?"
		var block []string
		for k := i + 1; k < len(lines) && !strings.HasPrefix(lines[k], "=================="); k++ {
			block = append(block, lines[k])
			if site == "?" {
				if m := frame.FindStringSubmatch(lines[k]); m != nil && !strings.HasPrefix(m[1], "verifrt") {
					site = m[1] + "." + m[2]
				}
			}
		}
		if len(block) > 40 {
			block = block[:40]
		}
		c.Violation("data-race|race-detector|"+site, fmt.Sprintf("%s: the Go race detector reports a data race between concurrent Evaluate calls at %s", subject, site),
			map[string]any{"kind": "racepass", "subject": subject, "report": block})
	}
	return run, reports
}
