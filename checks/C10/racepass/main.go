// C10 auxiliary pass: the same subjects as the scheduler harness, evaluated by real goroutines in a
// binary built with the Go race detector (plain tree + export shims, no rewriting).  Every subject is
// announced on stderr before it runs, so the race reports that follow can be attributed.  The pass is
// free-running: it does not enumerate schedules.  It exists because a cooperative scheduler blinds the
// race detector and source instrumentation cannot see accesses inside dependencies or through aliases
// it does not track; a report here is a real data race (the detector has no false positives).
package main

import (
	"fmt"
	"os"
	"runtime"
	"sync"

	"github.com/deadsy/sdfx/render"
	"github.com/deadsy/sdfx/sdf"
	v2 "github.com/deadsy/sdfx/vec/v2"
	v3 "github.com/deadsy/sdfx/vec/v3"

	"verif/lib/c10sub"
)

const threads = 4

func main() {
	thorough := len(os.Args) > 1 && os.Args[1] == "thorough"
	if null, err := os.OpenFile(os.DevNull, os.O_WRONLY, 0); err == nil {
		os.Stdout = null
	}
	subs := c10sub.Subjects(thorough)
	for i, sb := range subs {
		fmt.Fprintf(os.Stderr, "@@SUBJECT %d %s\n", i, sb.Name)
		var wg sync.WaitGroup
		if sb.Dim == 2 {
			s, err := sb.B2()
			if err != nil || s == nil {
				continue
			}
			ps := c10sub.Pts2(s.BoundingBox(), thorough)
			for t := 0; t < threads; t++ {
				wg.Add(1)
				go func(t int) {
					defer wg.Done()
					for r := 0; r < 3; r++ {
						for k := range ps {
							s.Evaluate(ps[(k+t)%len(ps)])
						}
						runtime.Gosched()
					}
				}(t)
			}
		} else {
			s, err := sb.B3()
			if err != nil || s == nil {
				continue
			}
			ps := c10sub.Pts3(s.BoundingBox(), thorough)
			for t := 0; t < threads; t++ {
				wg.Add(1)
				go func(t int) {
					defer wg.Done()
					for r := 0; r < 3; r++ {
						for k := range ps {
							s.Evaluate(ps[(k+t)%len(ps)])
						}
						runtime.Gosched()
					}
				}(t)
			}
		}
		wg.Wait()
	}
	// the library's own fan-out: uniform marching cubes with one worker per CPU over shapes with state
	c2, _ := sdf.Circle2D(1)
	sph, _ := sdf.Sphere3D(1)
	f, ferr := sdf.LoadFont("/repo/files/cmr10.ttf")
	scenes := []struct {
		name string
		s    sdf.SDF3
	}{
		{"Extrude3D(Cache2D(Circle2D))", sdf.Extrude3D(sdf.Cache2D(c2), 1)},
		{"NewVoxelSDF3(Sphere3D)", sdf.NewVoxelSDF3(sph, 8, nil)},
		{"Union3D(17 spheres)", func() sdf.SDF3 {
			var ops []sdf.SDF3
			for i := 0; i < 17; i++ {
				ops = append(ops, sdf.Transform3D(sph, sdf.Translate3d(v3.Vec{X: float64(i) * 0.5})))
			}
			return sdf.Union3D(ops...)
		}()},
	}
	if ferr == nil {
		if t2, err := sdf.Text2D(f, sdf.NewText("ab"), 4); err == nil {
			scenes = append(scenes, struct {
				name string
				s    sdf.SDF3
			}{"Extrude3D(Text2D)", sdf.Extrude3D(t2, 1)})
		}
	}
	// layers of exactly 100 samples: one full evaluation batch and nothing left over
	fmt.Fprintf(os.Stderr, "@@SUBJECT %d uniform render of Sphere3D at 8 cells (layers of exactly 100 samples)\n", len(subs)+len(scenes))
	for r := 0; r < 3; r++ {
		render.ToTriangles(sph, render.NewMarchingCubesUniform(8))
	}
	for i, sc := range scenes {
		fmt.Fprintf(os.Stderr, "@@SUBJECT %d uniform render of %s\n", len(subs)+i, sc.name)
		render.ToTriangles(sc.s, render.NewMarchingCubesUniform(12))
		fmt.Fprintf(os.Stderr, "@@SUBJECT %d octree render of %s\n", len(subs)+i, sc.name)
		render.ToTriangles(sc.s, render.NewMarchingCubesOctree(12))
	}
	_ = v2.Vec{}
	fmt.Fprintf(os.Stderr, "@@DONE %d\n", len(subs))
}
