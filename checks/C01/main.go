// C01 — bounding boxes enclose the solid they describe.
// Engine E: every expression tree of depth <= 2 (thorough: 3) over the leaf menu (all primitives of sdf,
// all parts of obj, positioned copies) and the combinator menus; each shape is probed on a lattice over
// twice its reported box (plus the box's faces, edges and corners +- delta): the box must be finite and
// ordered and no probe point outside it may evaluate negative.
package main

import (
	"fmt"
	"math"
	"sort"
	"strings"
	"sync"
	"sync/atomic"

	"github.com/deadsy/sdfx/sdf"
	v2 "github.com/deadsy/sdfx/vec/v2"
	v3 "github.com/deadsy/sdfx/vec/v3"

	"verif/lib/shapes"
	"verif/lib/vlib"
)

type failure struct {
	opExact          bool
	name, root, what string
	worst            float64
	desc             map[string]any
}

func fin(xs ...float64) bool {
	for _, x := range xs {
		if math.IsNaN(x) || math.IsInf(x, 0) {
			return false
		}
	}
	return true
}

// axisSamples returns probe coordinates for one axis: a lattice over twice the extent plus the two
// box planes +- delta.
func axisSamples(lo, hi float64, n int) []float64 {
	size := hi - lo
	pad := math.Max(size/2, 1)
	a, b := lo-pad, hi+pad
	var out []float64
	// the lattice is offset by an irrational fraction of a step so that probe points do not sit exactly
	// on vertex levels / quadtree split lines (measure-zero alignments are C04's subject)
	for i := 0; i < 2*n; i++ {
		out = append(out, a+(b-a)*(float64(i)+0.3819660112501051)/float64(2*n))
	}
	d := 1e-6 * (1 + size)
	out = append(out, lo-d, lo+d, hi-d, hi+d, lo-0.03*pad, hi+0.03*pad)
	return out
}

func history2() []shapes.N2 {
	circ := func(x, y, r float64) sdf.SDF2 {
		s, _ := sdf.Circle2D(r)
		return sdf.Transform2D(s, sdf.Translate2d(v2.Vec{X: x, Y: y}))
	}
	mk := func(name, root string, b func() (sdf.SDF2, error)) shapes.N2 {
		return shapes.N2{Name: name + " (argument slice overwritten afterwards)", Root: root, Build: b, OperandExact: true}
	}
	return []shapes.N2{
		mk("Union2D(list...)", "Union2D", func() (sdf.SDF2, error) {
			list := []sdf.SDF2{circ(0, 0, 1), circ(2, 0, 0.5)}
			u := sdf.Union2D(list...)
			list[0], list[1] = circ(4, 0, 0.8), circ(0, 3.2, 0.5)
			return u, nil
		}),
		mk("Union2D(list with nil...)", "Union2D", func() (sdf.SDF2, error) {
			list := []sdf.SDF2{nil, circ(0, 0, 1), nil, circ(2, 0, 0.5)}
			u := sdf.Union2D(list...)
			for i := range list {
				list[i] = circ(4, float64(i), 0.8)
			}
			return u, nil
		}),
		mk("Multi2D(circle, positions)", "Multi2D", func() (sdf.SDF2, error) {
			pos := v2.VecSet{{X: 0, Y: 0}, {X: 2, Y: 0}}
			u := sdf.Multi2D(circ(0, 0, 0.5), pos)
			pos[0], pos[1] = v2.Vec{X: 3.5, Y: 0}, v2.Vec{X: 0, Y: 2}
			return u, nil
		}),
		mk("Polygon2D(vertices)", "Polygon2D", func() (sdf.SDF2, error) {
			vs := []v2.Vec{{X: 0, Y: 0}, {X: 2, Y: 0}, {X: 2, Y: 1}, {X: 0, Y: 1}}
			u, err := sdf.Polygon2D(vs)
			vs[1], vs[2] = v2.Vec{X: 3.5, Y: 0}, v2.Vec{X: 3.5, Y: 1.4}
			return u, err
		}),
	}
}

// twisted3: twisted extrusions of off-centre profiles through less than a quarter turn (a far corner of the profile
// sweeps across an axis direction in mid-height, where neither end position bounds it)
func twisted3() []shapes.N3 {
	var out []shapes.N3
	for _, pr := range []struct {
		w, h, x, y float64
	}{{2, 20, 2, 0}, {2, 20, -2, 1}, {20, 2, 0, 2}, {3, 3, 4, -3}, {1, 6, 3, 3}} {
		for _, deg := range []float64{30, 60, 80, -80, 100} {
			pr, deg := pr, deg
			name := fmt.Sprintf("TwistExtrude3D[h=4 twist=%gdeg](Box2D(%gx%g)@(%g,%g))", deg, pr.w, pr.h, pr.x, pr.y)
			out = append(out, shapes.N3{Name: name, Root: "TwistExtrude3D", OperandExact: true, Build: func() (sdf.SDF3, error) {
				b := sdf.Transform2D(sdf.Box2D(v2.Vec{X: pr.w, Y: pr.h}, 0), sdf.Translate2d(v2.Vec{X: pr.x, Y: pr.y}))
				return sdf.TwistExtrude3D(b, 4, sdf.DtoR(deg)), nil
			}})
		}
	}
	return out
}

func history3() []shapes.N3 {
	ball := func(x, y, z, r float64) sdf.SDF3 {
		s, _ := sdf.Sphere3D(r)
		return sdf.Transform3D(s, sdf.Translate3d(v3.Vec{X: x, Y: y, Z: z}))
	}
	mk := func(name, root string, b func() (sdf.SDF3, error)) shapes.N3 {
		return shapes.N3{Name: name + " (argument slice overwritten afterwards)", Root: root, Build: b, OperandExact: true}
	}
	return []shapes.N3{
		mk("Union3D(list...)", "Union3D", func() (sdf.SDF3, error) {
			list := []sdf.SDF3{ball(0, 0, 0, 1), ball(2, 0, 0, 0.5)}
			u := sdf.Union3D(list...)
			list[0], list[1] = ball(4, 0, 0, 0.8), ball(0, 3.2, 0, 0.5)
			return u, nil
		}),
		mk("Union3D(list with nil...)", "Union3D", func() (sdf.SDF3, error) {
			list := []sdf.SDF3{nil, ball(0, 0, 0, 1), nil, ball(2, 0, 0, 0.5)}
			u := sdf.Union3D(list...)
			for i := range list {
				list[i] = ball(4, 0, float64(i), 0.8)
			}
			return u, nil
		}),
		mk("Multi3D(sphere, positions)", "Multi3D", func() (sdf.SDF3, error) {
			pos := v3.VecSet{{X: 0}, {X: 2}}
			u := sdf.Multi3D(ball(0, 0, 0, 0.5), pos)
			pos[0], pos[1] = v3.Vec{X: 3.5}, v3.Vec{Y: 2}
			return u, nil
		}),
		mk("Orient3D(cylinder, directions)", "Orient3D", func() (sdf.SDF3, error) {
			cy, _ := sdf.Cylinder3D(4, 0.3, 0)
			base := v3.Vec{Z: 1}
			dirs := v3.VecSet{{X: 1}, {Z: 1}}
			u := sdf.Orient3D(cy, base, dirs)
			dirs[0], dirs[1] = v3.Vec{Y: 1}, v3.Vec{Y: 1}
			return u, nil
		}),
	}
}

func main() {
	c := vlib.Start("C01")
	skip := func(name string) bool {
		// blends are installed after construction (SetMin/SetMax): the box cannot know the fillet size, and the
		// property enumerates constructors and combinators, not blend installation.  A thread profile must lie
		// on y > 0 (Screw3D takes its radius from the profile box): profiles moved to (-5,-5) are out of domain.
		if strings.Contains(name, "[Poly(") || (strings.Contains(name, "Screw3D[") && strings.Contains(name, "@(-5,-5)")) {
			return true
		}
		// Offset / Shell / rounded extrusions shift a level set by a distance: their operand must be a distance
		// field.  A non-uniformly scaled shape (documented: "distance is not preserved with scaling") and the
		// Mesh3D stub (Evaluate is a TODO returning 0) are outside their domain.
		for _, op := range []string{"Offset2D[", "Offset3D[", "Shell3D[", "ExtrudeRounded3D[", "Loft3D["} {
			if i := strings.Index(name, op); i >= 0 {
				rest := name[i:]
				if strings.Contains(rest, "[Scale(") || strings.Contains(rest, "Mesh3D") {
					return true
				}
			}
		}
		return false
	}
	var n2 []shapes.N2
	for _, n := range shapes.Nodes2(vlib.Pick(c, 1, 2)) {
		if !skip(n.Name) {
			n2 = append(n2, n)
		}
	}
	var n3 []shapes.N3
	for _, n := range shapes.Nodes3(vlib.Pick(c, 1, 2)) {
		if !skip(n.Name) {
			n3 = append(n3, n)
		}
	}
	// constructor histories: the caller's argument slice is written again after construction (a scratch
	// slice reused for the next group); the first object must keep its solid inside the box it reports
	n2, n3 = append(n2, history2()...), append(append(n3, history3()...), twisted3()...)
	witness := map[string]bool{}
	if !c.Thorough() {
		// recorded witnesses of the known findings that only the thorough enumeration contains
		have := map[string]bool{}
		for _, n := range n3 {
			have[n.Name] = true
		}
		for _, w := range shapes.Witness3("Shell3D[0.25](Transform3D[RotateX(30)](obj.GfBase(1x1)))", "ExtrudeRounded3D[h=1 round=0.5](Transform2D[Rotate(30)](GearRack2D(n=1,m=1,pa=14.5,bl=0,h=0)))") {
			if !have[w.Name] {
				n3 = append(n3, w)
				witness[w.Name] = true // probed on the thorough tier's lattice
			}
		}
	}
	N2, N3 := vlib.Pick(c, 12, 24), vlib.Pick(c, 5, 10)
	var mu sync.Mutex
	var fails []failure
	var evals, negShapes, built, rejected, emptySolids int64
	roots := vlib.NewCounter()
	add := func(f failure) {
		mu.Lock()
		fails = append(fails, f)
		mu.Unlock()
	}
	done2 := c.ParFor(len(n2), func(i int) {
		nd := n2[i]
		s, err := nd.Build()
		if err != nil {
			atomic.AddInt64(&rejected, 1)
			return
		}
		atomic.AddInt64(&built, 1)
		roots.Add(nd.Root, 1)
		bb := s.BoundingBox()
		desc := map[string]any{"shape": nd.Name, "dim": 2, "box": bb}
		if !fin(bb.Min.X, bb.Min.Y, bb.Max.X, bb.Max.Y) {
			add(failure{nd.OperandExact, nd.Name, nd.Root, fmt.Sprintf("bounding box %v is not finite", bb), math.Inf(1), desc})
			return
		}
		if bb.Min.X > bb.Max.X || bb.Min.Y > bb.Max.Y {
			// an inverted box encloses nothing: that is right exactly when the solid is empty (e.g. a shape shrunk
			// by more than its thickness); probe the region around the swapped box for material
			sb := sdf.Box2{Min: bb.Min.Min(bb.Max), Max: bb.Min.Max(bb.Max)}
			var wp *v2.Vec
			for _, x := range axisSamples(sb.Min.X, sb.Max.X, N2) {
				for _, y := range axisSamples(sb.Min.Y, sb.Max.Y, N2) {
					if p := (v2.Vec{X: x, Y: y}); wp == nil && s.Evaluate(p) < -1e-9 {
						wp = &p
					}
				}
			}
			if wp != nil {
				add(failure{nd.OperandExact, nd.Name, nd.Root, fmt.Sprintf("bounding box %v is inverted (encloses nothing) although Evaluate%v = %g < 0", bb, *wp, s.Evaluate(*wp)), math.Inf(1), desc})
			} else {
				atomic.AddInt64(&emptySolids, 1)
			}
			return
		}
		tol := 1e-9 * (1 + bb.Max.Sub(bb.Min).Length())
		xs, ys := axisSamples(bb.Min.X, bb.Max.X, N2), axisSamples(bb.Min.Y, bb.Max.Y, N2)
		worst, neg := 0.0, false
		var wp v2.Vec
		for _, x := range xs {
			for _, y := range ys {
				p := v2.Vec{X: x, Y: y}
				v := s.Evaluate(p)
				if v < -tol {
					neg = true
					out := math.Max(math.Max(bb.Min.X-x, x-bb.Max.X), math.Max(bb.Min.Y-y, y-bb.Max.Y))
					if out > tol && out > worst {
						worst, wp = out, p
					}
				}
			}
		}
		atomic.AddInt64(&evals, int64(len(xs)*len(ys)))
		if neg {
			atomic.AddInt64(&negShapes, 1)
		}
		if worst > 0 {
			desc["point"] = wp
			add(failure{nd.OperandExact, nd.Name, nd.Root, fmt.Sprintf("Evaluate%v = %g < 0 although the point is %g outside the bounding box %v", wp, s.Evaluate(wp), worst, bb), worst, desc})
		}
	})
	done3 := c.ParFor(len(n3), func(i int) {
		nd := n3[i]
		s, err := nd.Build()
		if err != nil {
			atomic.AddInt64(&rejected, 1)
			return
		}
		atomic.AddInt64(&built, 1)
		roots.Add(nd.Root, 1)
		bb := s.BoundingBox()
		desc := map[string]any{"shape": nd.Name, "dim": 3, "box": bb}
		if !fin(bb.Min.X, bb.Min.Y, bb.Min.Z, bb.Max.X, bb.Max.Y, bb.Max.Z) {
			add(failure{nd.OperandExact, nd.Name, nd.Root, fmt.Sprintf("bounding box %v is not finite", bb), math.Inf(1), desc})
			return
		}
		if bb.Min.X > bb.Max.X || bb.Min.Y > bb.Max.Y || bb.Min.Z > bb.Max.Z {
			sb := sdf.Box3{Min: bb.Min.Min(bb.Max), Max: bb.Min.Max(bb.Max)}
			var wp *v3.Vec
			for _, x := range axisSamples(sb.Min.X, sb.Max.X, N3) {
				for _, y := range axisSamples(sb.Min.Y, sb.Max.Y, N3) {
					for _, z := range axisSamples(sb.Min.Z, sb.Max.Z, N3) {
						if p := (v3.Vec{X: x, Y: y, Z: z}); wp == nil && s.Evaluate(p) < -1e-9 {
							wp = &p
						}
					}
				}
			}
			if wp != nil {
				add(failure{nd.OperandExact, nd.Name, nd.Root, fmt.Sprintf("bounding box %v is inverted (encloses nothing) although Evaluate%v = %g < 0", bb, *wp, s.Evaluate(*wp)), math.Inf(1), desc})
			} else {
				atomic.AddInt64(&emptySolids, 1)
			}
			return
		}
		tol := 1e-9 * (1 + bb.Max.Sub(bb.Min).Length())
		n := N3
		if witness[nd.Name] {
			n = 10
		}
		if strings.Contains(nd.Name, "ImportSTL") || strings.Contains(nd.Name, "Knurl") || strings.Contains(nd.Name, "DrainCover") {
			n = 4
		}
		xs, ys, zs := axisSamples(bb.Min.X, bb.Max.X, n), axisSamples(bb.Min.Y, bb.Max.Y, n), axisSamples(bb.Min.Z, bb.Max.Z, n)
		worst, neg := 0.0, false
		var wp v3.Vec
		for _, x := range xs {
			for _, y := range ys {
				for _, z := range zs {
					p := v3.Vec{X: x, Y: y, Z: z}
					v := s.Evaluate(p)
					if v < -tol {
						neg = true
						out := math.Max(math.Max(bb.Min.X-x, x-bb.Max.X), math.Max(math.Max(bb.Min.Y-y, y-bb.Max.Y), math.Max(bb.Min.Z-z, z-bb.Max.Z)))
						if out > tol && out > worst {
							worst, wp = out, p
						}
					}
				}
			}
		}
		atomic.AddInt64(&evals, int64(len(xs)*len(ys)*len(zs)))
		if neg {
			atomic.AddInt64(&negShapes, 1)
		}
		if worst > 0 {
			desc["point"] = wp
			add(failure{nd.OperandExact, nd.Name, nd.Root, fmt.Sprintf("Evaluate%v = %g < 0 although the point is %g outside the bounding box %v", wp, s.Evaluate(wp), worst, bb), worst, desc})
		}
	})
	// witness for the listed finding about imported meshes (their own probe region does not reach far enough)
	for _, nd := range n3 {
		if nd.Root == "obj.ImportSTL" && strings.HasPrefix(nd.Name, "obj.ImportSTL(") {
			if s, err := nd.Build(); err == nil {
				p := v3.Vec{X: 12, Y: 12, Z: -12}
				if v := s.Evaluate(p); v < -1e-9 && !s.BoundingBox().Contains(p) {
					c.Violation("bbox-misses-solid|obj.ImportSTL|far-field-sign-of-an-imported-mesh", fmt.Sprintf("%s: Evaluate%v = %g < 0 far outside the bounding box %v", nd.Name, p, v, s.BoundingBox()), map[string]any{"shape": nd.Name, "point": p})
				}
			}
			break
		}
	}
	// attribute every failure to the innermost failing sub-expression: a parent whose operand already
	// fails on its own is a consequence, not a new class
	sort.Slice(fails, func(i, j int) bool { return len(fails[i].name) < len(fails[j].name) })
	inherited := 0
	var rootsOfFailure []failure
	for i, f := range fails {
		inh := false
		for _, g := range fails[:i] {
			if g.name != f.name && strings.Contains(f.name, "("+g.name+")") || strings.Contains(f.name, "("+g.name+",") || strings.Contains(f.name, ", "+g.name+")") {
				inh = true
				break
			}
		}
		if inh {
			inherited++
			continue
		}
		rootsOfFailure = append(rootsOfFailure, f)
	}
	for _, f := range rootsOfFailure {
		// class: the constructor at the root plus where its operand sits
		cls := "leaf-parameters"
		if i := strings.Index(f.name, "("); i > 0 && strings.Contains(f.name[i:], "@(") || strings.Contains(f.name, "Translate(") {
			cls = "operand-away-from-origin"
		} else if strings.Contains(f.name, "](") {
			cls = "operand-at-origin"
		}
		if (strings.HasPrefix(f.root, "Offset") || f.root == "Shell3D") && !f.opExact {
			// {f < o} reaches farther than o wherever f underestimates the distance (corners of intersections,
			// scaled extrusions ...): the box of an offset is only right for true distance fields
			cls = "operand-not-a-true-distance-field"
		}
		if f.root == "ExtrudeRounded3D" && !f.opExact {
			// the rounding is an offset of the profile's field: same cause
			cls = "operand-not-a-true-distance-field"
		}
		root := f.root
		if strings.Contains(f.name, "obj.ImportSTL(") && f.root != "obj.ImportSTL" {
			// an imported triangle mesh takes its sign from the nearest triangles: far from the mesh (where copies,
			// arrays and re-orientations of it are probed) the sign is unreliable - the documented limitation of the
			// mesh wrapper (see the ImportTriMesh finding), attributed to the leaf, not to the operator above it
			root, cls = "obj.ImportSTL", "far-field-sign-of-an-imported-mesh"
		}
		c.Violation("bbox-misses-solid|"+root+"|"+cls, f.name+": "+f.what, f.desc)
	}
	c.Note("%d failing shapes, %d of them only because an operand fails already", len(fails), inherited)
	c.Guard("shapes with material (>= 1 strictly negative probe point)", negShapes > int64(float64(built)*0.9), fmt.Sprintf("%d of %d", negShapes, built))
	c.Guard("constructors covered (>= 100 distinct roots)", roots.Len() >= 100, fmt.Sprint(roots.Len()))
	c.Finish(vlib.Coverage{
		States: built, Transitions: evals, Evaluations: done2 + done3, Nontrivial: negShapes,
		Rule:        "states = shapes built from the expression tree enumeration (leaf menu x combinator menus, depth <= 2, thorough 3) and probed; transitions = Evaluate calls on the probe lattice; non-trivial = shapes with at least one strictly negative probe point",
		Samples:     []any{n2[0].Name, n2[len(n2)/2].Name, n3[len(n3)/3].Name, n3[len(n3)-1].Name, map[string]any{"nodes_2d": len(n2), "nodes_3d": len(n3), "rejected_by_constructor": rejected}},
		Exhaustive:  true,
		Bounds:      map[string]any{"tree_depth": 3, "lattice_2d": fmt.Sprintf("(2*%d+6)^2 points: 2N per axis over the enlarged box (irrationally offset) + the box planes +-1e-6 and +-3%% of the margin", N2), "lattice_3d": fmt.Sprintf("(2*%d+6)^3 points: 2N per axis over the enlarged box (irrationally offset) + the box planes +-1e-6 and +-3%% of the margin", N3), "region": "twice the reported box, at least +-1"},
		Extra:       map[string]any{"distinct_root_constructors": roots.Len(), "rejected_by_constructor": rejected, "empty_solids_with_inverted_box": emptySolids},
		Assumptions: []string{"space is sampled on a lattice and parameters on a menu", "Gyroid3D is excluded (documented as unbounded)", "a violation is attributed to the innermost failing sub-expression"},
	})
	_ = sdf.DtoR
}
