// C08 — 2D contours are closed and lie on the boundary.
// Engine L in 2D: every value table over free cells / cell pairs / a 4x4 interior of the renderers'
// own discovered lattices through the real uniform and quadtree marching-squares renderers;
// position-coded fields; analytic lines, circles and boxes.
package main

import (
	"fmt"
	"math"
	"sort"
	"sync/atomic"

	"github.com/deadsy/sdfx/render"
	"github.com/deadsy/sdfx/sdf"
	v2 "github.com/deadsy/sdfx/vec/v2"

	"verif/lib/lattice"
	"verif/lib/mesh"
	"verif/lib/vlib"
)

type boxed struct {
	f  func(p v2.Vec) float64
	bb sdf.Box2
}

func (b boxed) Evaluate(p v2.Vec) float64 { return b.f(p) }
func (b boxed) BoundingBox() sdf.Box2     { return b.bb }

func sq(x, y float64) sdf.Box2 {
	return sdf.Box2{Min: v2.Vec{X: -x / 2, Y: -y / 2}, Max: v2.Vec{X: x / 2, Y: y / 2}}
}

type rmk struct {
	name string
	mk   func(n int) render.Render2
}

var renderers = []rmk{
	{"uniform", func(n int) render.Render2 { return render.NewMarchingSquaresUniform(n) }},
	{"quadtree", func(n int) render.Render2 { return render.NewMarchingSquaresQuadtree(n) }},
}

type block struct {
	name  string
	r     rmk
	n     int
	l     *lattice.Lat2
	free  [][2]int
	sigma float64
}

func newBlock(c *vlib.Ctx, r rmk, n int, bb sdf.Box2, wx, wy int) *block {
	neutral := 1.0
	if r.name == "quadtree" {
		neutral = 0
	}
	l, err := lattice.Discover2(r.mk(n), bb, neutral)
	if ce, ok := err.(*lattice.CoverageError); ok {
		c.Violation(r.name+"|sampled-area-does-not-cover-bounding-box|cell-never-visited", ce.Msg, map[string]any{"renderer": r.name, "unvisited_corner": ce.Corner})
		return nil
	}
	if err != nil {
		c.HarnessError("discover %s n=%d: %v", r.name, n, err)
		return nil
	}
	b := &block{name: fmt.Sprintf("%s-%dx%d", r.name, wx, wy), r: r, n: n, l: l, sigma: 1}
	cell := l.Cell()
	if l.Stride == 2 {
		b.sigma = 0.2 * math.Min(cell.X, cell.Y)
	}
	nx, ny := l.NC()
	ok := func(a []float64, i int, lo, hi, slack float64) bool {
		if i-1 < 0 || (i+1)*l.Stride >= len(a) {
			return false
		}
		return a[(i-1)*l.Stride] >= lo-slack && a[(i+1)*l.Stride] <= hi+slack
	}
	var fx, fy []int
	for i := 0; i < nx; i++ {
		if ok(l.X, i, bb.Min.X, bb.Max.X, 0.3*cell.X) {
			fx = append(fx, i)
		}
	}
	for i := 0; i < ny; i++ {
		if ok(l.Y, i, bb.Min.Y, bb.Max.Y, 0.3*cell.Y) {
			fy = append(fy, i)
		}
	}
	if len(fx) < wx || len(fy) < wy {
		c.HarnessError("block %s: %dx%d free corners, wanted %dx%d", b.name, len(fx), len(fy), wx, wy)
		return nil
	}
	for _, i := range fx[:wx] {
		for _, j := range fy[:wy] {
			b.free = append(b.free, [2]int{i, j})
		}
	}
	return b
}

func classOf(vals []float64) string {
	s := "generic"
	for _, v := range vals {
		if v == 0 {
			return "exact-zero"
		}
		if math.Abs(v) < 1e-12 {
			s = "tiny-magnitude"
		}
	}
	return s
}

func (b *block) run(c *vlib.Ctx, vals []float64, fam string, idx int) int {
	f := b.l.NewField2(2 * b.sigma)
	solid := 0
	for n, fc := range b.free {
		f.Set(fc[0], fc[1], vals[n]*b.sigma)
		if vals[n] <= -1e-9 {
			solid++
		}
	}
	ls := lattice.Collect2(f, b.r.mk(b.n))
	cell := b.l.Cell()
	h := math.Min(cell.X, cell.Y)
	rp := mesh.Check2(ls, 1e-6*h)
	cls := classOf(vals)
	key := func(k string) string { return b.r.name + "|" + k + "|" + cls }
	desc := map[string]any{"block": b.name, "meshCells": b.n, "family": fam, "index": idx, "values": vals, "free": b.free}
	what := fmt.Sprintf("%s values %v", b.name, vals)
	if f.OffLattice.Load() != 0 {
		c.HarnessError("%s: %d evaluations off the discovered lattice", b.name, f.OffLattice.Load())
	}
	if rp.NaN > 0 {
		c.Violation(key("non-finite-endpoint"), what, desc)
	}
	if rp.OddDegree > 0 {
		c.Violation(key("odd-degree-endpoint"), fmt.Sprintf("%s: %d end points of odd degree, e.g. %v", what, rp.OddDegree, rp.OddVertex), desc)
	}
	if rp.ZeroLen > 0 {
		c.Violation(key("zero-length-segment"), fmt.Sprintf("%s: %d zero-length segments", what, rp.ZeroLen), desc)
	}
	if cls == "generic" {
		// away from degenerate values every end point has degree exactly 2 unless it sits in a saddle
		for d, n := range rp.Degree {
			if d != 2 && d != 4 && n > 0 {
				c.Violation(key("endpoint-degree-not-2"), fmt.Sprintf("%s: %d end points of degree %d", what, n, d), desc)
			}
		}
	}
	if solid > 0 && len(ls) == 0 {
		c.Violation(key("no-segments-with-inside-corner"), what, desc)
	}
	for _, l := range ls {
		for _, p := range l {
			if ok, why := b.l.VertexCheck(p, f.At, 1e-9*h, 2e-12*b.sigma); !ok {
				c.Violation(key("endpoint-not-zero-crossing-of-straddling-lattice-edge"), what+": "+why, desc)
				return len(ls)
			}
		}
	}
	return len(ls)
}

func main() {
	c := vlib.Start("C08")
	var states, trans, nontrivial int64
	samples := []any{}
	alpha := []float64{-1, -0.25, -1e-13, 0, 1e-13, 0.25, 1}
	pow := func(b, e int) int {
		r := 1
		for ; e > 0; e-- {
			r *= b
		}
		return r
	}
	var segs int64
	for _, r := range renderers {
		n1, bb1 := 3, sq(3, 3)
		if r.name == "quadtree" {
			n1, bb1 = 6, sq(6, 6)
		}
		// single cell: alpha^4
		if b := newBlock(c, r, n1, bb1, 2, 2); b != nil {
			states += c.ParFor(pow(7, 4), func(i int) {
				v := make([]float64, 4)
				x := i
				for k := range v {
					v[k] = alpha[x%7]
					x /= 7
				}
				if n := b.run(c, v, "alpha^4", i); n > 0 {
					atomic.AddInt64(&nontrivial, 1)
					atomic.AddInt64(&segs, int64(n))
				}
			})
			samples = append(samples, map[string]any{"block": b.name, "family": "{-1,-1/4,-1e-13,0,1e-13,1/4,1}^4", "free": b.free})
		}
		// pairs, both orientations: alpha^6
		for _, w := range [][2]int{{3, 2}, {2, 3}} {
			if b := newBlock(c, r, n1+1, sq(float64(n1+1), float64(n1+1)), w[0], w[1]); b != nil {
				cnt := pow(7, 6)
				a := alpha
				if !c.Thorough() {
					a = []float64{-1, -1e-13, 0, 1e-13, 1}
					cnt = pow(5, 6)
				}
				states += c.ParFor(cnt, func(i int) {
					v := make([]float64, 6)
					x := i
					for k := range v {
						v[k] = a[x%len(a)]
						x /= len(a)
					}
					if n := b.run(c, v, "alpha^6", i); n > 0 {
						atomic.AddInt64(&nontrivial, 1)
						atomic.AddInt64(&segs, int64(n))
					}
				})
				samples = append(samples, map[string]any{"block": b.name, "family": fmt.Sprintf("%v^6", a)})
			}
		}
		// 4x4 interior: all 2^16 sign tables
		n4, bb4 := 5, sq(5, 5)
		if r.name == "quadtree" {
			n4, bb4 = 8, sq(8, 8)
		}
		if b := newBlock(c, r, n4, bb4, 4, 4); b != nil {
			states += c.ParFor(1<<16, func(i int) {
				v := make([]float64, 16)
				for k := range v {
					v[k] = 1
					if i&(1<<k) != 0 {
						v[k] = -1
					}
				}
				if n := b.run(c, v, "signs^16", i); n > 0 {
					atomic.AddInt64(&nontrivial, 1)
					atomic.AddInt64(&segs, int64(n))
				}
			})
			samples = append(samples, map[string]any{"block": b.name, "family": "all 2^16 sign tables of a 4x4 corner block"})
		}
		// position-coded fields (every corner value distinct, boundary included)
		for _, cfgn := range []struct {
			n  int
			bb sdf.Box2
		}{{7, sq(7, 7)}, {12, sq(12, 5)}, {12, sq(5, 12)}, {16, sq(16, 16)}} {
			neutral := 1.0
			if r.name == "quadtree" {
				neutral = 0
			}
			l, err := lattice.Discover2(r.mk(cfgn.n), cfgn.bb, neutral)
			if ce, ok := err.(*lattice.CoverageError); ok {
				c.Violation(r.name+"|sampled-area-does-not-cover-bounding-box|cell-never-visited", ce.Msg, map[string]any{"renderer": r.name, "unvisited_corner": ce.Corner})
				continue
			}
			if err != nil {
				c.HarnessError("discover: %v", err)
				continue
			}
			nx, ny := l.NC()
			sigma := 1.0
			if l.Stride == 2 {
				sigma = 0.1 * l.Cell().X
			}
			for _, pat := range []string{"disc", "checker", "stripes-x", "stripes-y", "disc+zeros"} {
				f := l.NewField2(2 * sigma)
				N := float64(nx * ny)
				for a := 0; a < nx; a++ {
					for b := 0; b < ny; b++ {
						code := float64(a*ny+b) / N
						inBB := l.Corner(a, b).X > cfgn.bb.Min.X && l.Corner(a, b).X < cfgn.bb.Max.X && l.Corner(a, b).Y > cfgn.bb.Min.Y && l.Corner(a, b).Y < cfgn.bb.Max.Y
						if a == 0 || b == 0 || a == nx-1 || b == ny-1 || !inBB {
							f.Set(a, b, (2+code)*sigma) // boundary: positive, distinct
							continue
						}
						sgn := 1.0
						switch pat {
						case "disc", "disc+zeros":
							// centre and radius in index space of the corners that lie inside the box
							mx, my := 0, 0
							for mx+1 < nx && l.Corner(mx+1, 0).X < cfgn.bb.Max.X {
								mx++
							}
							for my+1 < ny && l.Corner(0, my+1).Y < cfgn.bb.Max.Y {
								my++
							}
							cx, cy := float64(mx)/2+0.25, float64(my)/2+0.25
							if math.Hypot(float64(a)-cx, float64(b)-cy) < math.Min(cx, cy)-1.2 {
								sgn = -1
							}
						case "checker":
							if (a+b)%2 == 0 {
								sgn = -1
							}
						case "stripes-x":
							if a%2 == 1 {
								sgn = -1
							}
						case "stripes-y":
							if b%2 == 1 {
								sgn = -1
							}
						}
						v := sgn * (1 + code) * sigma
						if pat == "disc+zeros" {
							if (a*ny+b)%5 == 0 {
								v = 0
							} else if (a*ny+b)%7 == 0 {
								v = sgn * 1e-13 * sigma
							}
						}
						f.Set(a, b, v)
					}
				}
				ls := lattice.Collect2(f, r.mk(cfgn.n))
				h := math.Min(l.Cell().X, l.Cell().Y)
				desc := map[string]any{"renderer": r.name, "meshCells": cfgn.n, "bb": cfgn.bb, "pattern": pat, "corners": []int{nx, ny}}
				states++
				if len(ls) == 0 {
					c.HarnessError("position-coded %s %v %s produced no segments", r.name, cfgn.bb, pat)
				}
				if f.OffLattice.Load() != 0 {
					c.HarnessError("position-coded %s: %d evaluations off the lattice", r.name, f.OffLattice.Load())
				}
				nontrivial++
				segs += int64(len(ls))
			outer:
				for _, ln := range ls {
					for _, p := range ln {
						if ok, why := l.VertexCheck(p, f.At, 1e-9*h, 2e-12*sigma); !ok {
							c.Violation(r.name+"|position-coded|"+pat+"|endpoint-not-zero-crossing-of-straddling-lattice-edge", fmt.Sprintf("%s n=%d %v %s: %s", r.name, cfgn.n, cfgn.bb, pat, why), desc)
							break outer
						}
					}
				}
				rp := mesh.Check2(ls, 1e-6*h)
				if rp.OddDegree > 0 {
					c.Violation(r.name+"|position-coded|"+pat+"|odd-degree-endpoint", fmt.Sprintf("%s n=%d %v %s: %d end points of odd degree e.g. %v", r.name, cfgn.n, cfgn.bb, pat, rp.OddDegree, rp.OddVertex), desc)
				}
			}
		}
		samples = append(samples, map[string]any{"renderer": r.name, "position_coded": "4 lattices x 5 patterns, every corner value distinct incl. the boundary rows"})
	}

	// ---------------- analytic shapes ----------------
	type ajob struct {
		name  string
		f     func(p v2.Vec) float64
		bb    sdf.Box2
		n     int
		r     rmk
		bound func(h float64) float64
		class string
	}
	var ajobs []ajob
	res := vlib.Pick(c, []int{4, 5, 8, 13, 16, 32, 64}, []int{4, 5, 8, 13, 16, 32, 64, 128, 256})
	for x := -3; x <= 3; x++ {
		for y := -3; y <= 3; y++ {
			if x == 0 && y == 0 {
				continue
			}
			nn := v2.Vec{X: float64(x), Y: float64(y)}.Normalize()
			for _, o := range []float64{0, 0.3, -0.45} {
				for _, n := range res[:4] {
					for _, r := range renderers {
						nn, o := nn, o
						ajobs = append(ajobs, ajob{fmt.Sprintf("line normal (%d,%d) offset %g", x, y, o), func(p v2.Vec) float64 { return p.Dot(nn) - o }, sq(4, 4), n, r, func(h float64) float64 { return 4e-9 }, "line"})
					}
				}
			}
		}
	}
	for _, R := range []float64{1, 1.5} {
		for _, ct := range []v2.Vec{{}, {X: 0.1}, {X: 0.07, Y: -0.05}, {X: 0.125, Y: 0.125}} {
			for _, n := range res {
				for _, r := range renderers {
					R, ct := R, ct.MulScalar(R)
					ajobs = append(ajobs, ajob{fmt.Sprintf("circle R=%g centre %v", R, ct), func(p v2.Vec) float64 { return p.Sub(ct).Length() - R }, sq(2.5*R, 2.5*R), n, r,
						func(h float64) float64 {
							if R-h <= 0 {
								return h
							}
							return h * h / (8 * (R - h)) * (1 + 1e-9)
						}, "circle"})
				}
			}
		}
	}
	// circles whose box (and lattice) is moved far from the origin: the two lattice steps round separately there
	for _, ct := range []v2.Vec{{X: 10}, {X: 103.3, Y: -7.1}, {X: -0.37, Y: 1e4}} {
		for _, n := range []int{7, 20, 50} {
			for _, r := range renderers {
				ct := ct
				bb := sq(2.5, 2.5)
				bb.Min, bb.Max = bb.Min.Add(ct), bb.Max.Add(ct)
				ajobs = append(ajobs, ajob{fmt.Sprintf("circle R=1 centre %v (box moved with it)", ct), func(p v2.Vec) float64 { return p.Sub(ct).Length() - 1 }, bb, n, r,
					func(h float64) float64 { return h*h/(8*(1-h))*(1+1e-9) + 1e-9*ct.Length() }, "circle"})
			}
		}
	}
	// very small and very large drawings: nothing in the renderers may depend on an absolute length
	for _, k := range []float64{1e-6, 1e-8, 1e6} {
		for _, n := range []int{8, 20, 50} {
			for _, r := range renderers {
				k := k
				ct := v2.Vec{X: 0.07 * k, Y: -0.05 * k}
				ajobs = append(ajobs, ajob{fmt.Sprintf("circle R=%g centre %v", k, ct), func(p v2.Vec) float64 { return p.Sub(ct).Length() - k }, sq(2.5*k, 2.5*k), n, r,
					func(h float64) float64 { return h * h / (8 * (k - h)) * (1 + 1e-6) }, "circle"})
			}
		}
	}
	bx := sdf.Box2D(v2.Vec{X: 2, Y: 1}, 0)
	rbx := sdf.Transform2D(sdf.Box2D(v2.Vec{X: 2, Y: 1}, 0.2), sdf.Rotate2d(sdf.DtoR(30)))
	for _, s := range []struct {
		name string
		s    sdf.SDF2
		bb   sdf.Box2
	}{{"box 2x1 in its own tight box", bx, bx.BoundingBox()}, {"box 2x1", bx, sq(2.6, 2.6)}, {"rounded box rotated 30", rbx, sq(3, 3)}} {
		for _, n := range res {
			for _, r := range renderers {
				ajobs = append(ajobs, ajob{s.name, s.s.Evaluate, s.bb, n, r, func(h float64) float64 { return h * (1 + 1e-9) }, "solid"})
			}
		}
	}
	// long thin parts in their own tight boxes at high cell counts
	for _, e := range []struct {
		w, h float64
		n    int
	}{{10, 1, 200}, {10, 2, 200}, {1, 10, 200}, {10, 3, 300}, {10, 8, 200}, {7, 0.5, 150}} {
		b := sdf.Box2D(v2.Vec{X: e.w, Y: e.h}, 0)
		for _, r := range renderers {
			ajobs = append(ajobs, ajob{fmt.Sprintf("box %gx%g in its own tight box", e.w, e.h), b.Evaluate, b.BoundingBox(), e.n, r, func(h float64) float64 { return h * (1 + 1e-9) }, "solid"})
		}
	}
	states += c.ParFor(len(ajobs), func(i int) {
		j := ajobs[i]
		neutral := 1.0
		if j.r.name == "quadtree" {
			neutral = 0
		}
		l, err := lattice.Discover2(j.r.mk(j.n), j.bb, neutral)
		if ce, ok := err.(*lattice.CoverageError); ok {
			c.Violation(j.r.name+"|sampled-area-does-not-cover-bounding-box|cell-never-visited", ce.Msg, map[string]any{"renderer": j.r.name, "unvisited_corner": ce.Corner})
			return
		}
		if err != nil {
			c.HarnessError("discover (%s n=%d %s): %v", j.name, j.n, j.r.name, err)
			return
		}
		nx, ny := l.NC()
		desc := map[string]any{"shape": j.name, "meshCells": j.n, "renderer": j.r.name, "bb": j.bb}
		if lo, hi := l.Corner(0, 0), l.Corner(nx-1, ny-1); lo.X > j.bb.Min.X || lo.Y > j.bb.Min.Y || hi.X < j.bb.Max.X || hi.Y < j.bb.Max.Y {
			c.Violation(j.r.name+"|sampled-area-does-not-cover-bounding-box", fmt.Sprintf("meshCells=%d %s: cells span %v..%v, bounding box %v..%v", j.n, j.r.name, lo, hi, j.bb.Min, j.bb.Max), desc)
		}
		tab := make([]float64, nx*ny)
		for a := 0; a < nx; a++ {
			for b := 0; b < ny; b++ {
				tab[a*ny+b] = j.f(l.Corner(a, b))
			}
		}
		ls := lattice.Collect2(boxed{j.f, j.bb}, j.r.mk(j.n))
		cell := l.Cell()
		h := math.Max(cell.X, cell.Y)
		key := j.r.name + "|" + j.class
		for _, ln := range ls {
			for _, p := range ln {
				if ok, why := l.VertexCheck(p, func(a, b int) float64 { return tab[a*ny+b] }, 1e-9*h, 2e-12); !ok {
					c.Violation(key+"|endpoint-not-zero-crossing-of-straddling-lattice-edge", fmt.Sprintf("%s n=%d %s: %s", j.name, j.n, j.r.name, why), desc)
					return
				}
				if fv := math.Abs(j.f(p)); fv > j.bound(h) {
					c.Violation(key+"|endpoint-off-boundary", fmt.Sprintf("%s n=%d %s: |f| = %g at %v exceeds %g (h=%g)", j.name, j.n, j.r.name, fv, p, j.bound(h), h), desc)
					return
				}
			}
		}
		rp := mesh.Check2(ls, 1e-6*h)
		if j.class != "line" {
			if rp.OddDegree > 0 {
				c.Violation(key+"|odd-degree-endpoint", fmt.Sprintf("%s n=%d %s: %d end points of odd degree e.g. %v", j.name, j.n, j.r.name, rp.OddDegree, rp.OddVertex), desc)
			}
			if len(ls) == 0 {
				c.Violation(key+"|no-segments", fmt.Sprintf("%s n=%d %s: no output", j.name, j.n, j.r.name), desc)
			}
		}
		if rp.ZeroLen > 0 {
			c.Violation(key+"|zero-length-segment", fmt.Sprintf("%s n=%d %s: %d zero-length segments", j.name, j.n, j.r.name, rp.ZeroLen), desc)
		}
		atomic.AddInt64(&segs, int64(len(ls)))
		if len(ls) > 0 {
			atomic.AddInt64(&nontrivial, 1)
		}
	})
	samples = append(samples, map[string]any{"analytic_jobs": len(ajobs), "lines": "48 directions x 3 offsets", "resolutions": res})
	// perimeter convergence of the circle
	ladder := vlib.Pick(c, []int{8, 16, 32, 64}, []int{8, 16, 32, 64, 128, 256})
	for _, r := range renderers {
		for _, ct := range []v2.Vec{{}, {X: 0.03, Y: -0.02}} {
			var errs []float64
			for _, n := range ladder {
				ct := ct
				ls := lattice.Collect2(boxed{func(p v2.Vec) float64 { return p.Sub(ct).Length() - 1 }, sq(2.5, 2.5)}, r.mk(n))
				rp := mesh.Check2(ls, 1e-6*2.5/float64(n))
				errs = append(errs, math.Abs(rp.Length-2*math.Pi))
				states++
			}
			for k := 0; k+1 < len(errs); k++ {
				ratio := errs[k] / errs[k+1]
				c.Note("circle centre %v %s perimeter error n=%d %.3e n=%d %.3e ratio %.2f", ct, r.name, ladder[k], errs[k], ladder[k+1], errs[k+1], ratio)
				if !(ratio >= 3) {
					c.Violation(r.name+"|perimeter-convergence-below-second-order", fmt.Sprintf("circle %v %s: perimeter error %g at n=%d, %g at n=%d (ratio %.2f < 3)", ct, r.name, errs[k], ladder[k], errs[k+1], ladder[k+1], ratio),
						map[string]any{"renderer": r.name, "ladder": ladder, "errors": errs})
				}
			}
		}
	}
	// one writer handed to two renders in turn (every Render ends with Close, which is a flush): a consumer
	// that keeps the delivered batches and reads them afterwards must find both contours, nothing else
	circle := func(cx, cy, R float64) boxed {
		return boxed{func(p v2.Vec) float64 { return math.Hypot(p.X-cx, p.Y-cy) - R }, sdf.Box2{Min: v2.Vec{X: cx - 1.25*R, Y: cy - 1.25*R}, Max: v2.Vec{X: cx + 1.25*R, Y: cy + 1.25*R}}}
	}
	segKeys := func(ls []*sdf.Line2) []string {
		var k []string
		for _, l := range ls {
			k = append(k, fmt.Sprint(*l))
		}
		sort.Strings(k)
		return k
	}
	for _, r := range renderers {
		for _, n := range []int{4, 8, 16, 40} {
			for _, sh := range [][2]boxed{{circle(-1.5, 0, 1), circle(1.5, 0.2, 0.7)}, {circle(0, 0, 0.3), circle(0, 0, 1)}, {circle(0, 0, 1), circle(0.1, 0, 1)}} {
				want := append(lattice.Collect2(sh[0], r.mk(n)), lattice.Collect2(sh[1], r.mk(n))...)
				out := make(chan []*sdf.Line2, 1<<16)
				w := sdf.NewLine2Buffer(out)
				rr := r.mk(n)
				rr.Render(sh[0], w)
				rr.Render(sh[1], w)
				close(out)
				var kept [][]*sdf.Line2
				for b := range out {
					kept = append(kept, b)
				}
				var got []*sdf.Line2
				for _, b := range kept {
					got = append(got, b...)
				}
				states++
				segs += int64(len(got))
				a, b := segKeys(got), segKeys(want)
				same := len(a) == len(b)
				for i := 0; same && i < len(a); i++ {
					same = a[i] == b[i]
				}
				if !same {
					c.Violation(r.name+"|two-renders-through-one-writer|segments-differ-from-the-two-contours", fmt.Sprintf("%s n=%d: %d segments collected through one Line2Buffer over two renders, %d when each render has its own writer (or same count, different segments)", r.name, n, len(a), len(b)),
						map[string]any{"renderer": r.name, "meshCells": n, "first": sh[0].bb, "second": sh[1].bb})
				}
			}
		}
	}
	// very large lattices (the quadtree's corner cache must not confuse corners: > 2^15 cells per axis)
	for _, n := range vlib.Pick(c, []int{33000}, []int{33000, 40000, 70000}) {
		for _, r := range renderers {
			if r.name != "quadtree" {
				continue
			}
			R := 1.0
			ls := lattice.Collect2(boxed{func(p v2.Vec) float64 { return math.Hypot(p.X-0.01, p.Y+0.02) - R }, sq(2.5, 2.5)}, r.mk(n))
			h := 2.5 / float64(n)
			rp := mesh.Check2(ls, 1e-6*h)
			states++
			segs += int64(len(ls))
			desc := map[string]any{"renderer": r.name, "meshCells": n, "shape": "circle R=1 centre (0.01,-0.02) in a 2.5 square"}
			if rp.OddDegree > 0 {
				c.Violation(r.name+"|large-lattice|odd-degree-endpoint", fmt.Sprintf("circle at meshCells=%d: %d end points of odd degree e.g. %v", n, rp.OddDegree, rp.OddVertex), desc)
			}
			if math.Abs(rp.Length-2*math.Pi*R) > 1e-6 {
				c.Violation(r.name+"|large-lattice|perimeter", fmt.Sprintf("circle at meshCells=%d: total length %.9f, circumference %.9f", n, rp.Length, 2*math.Pi*R), desc)
			}
			for _, l := range ls {
				for _, p := range l {
					if fv := math.Abs(math.Hypot(p.X-0.01, p.Y+0.02) - R); fv > 2*h*h {
						c.Violation(r.name+"|large-lattice|endpoint-off-boundary", fmt.Sprintf("circle at meshCells=%d: |f| = %g at %v (h=%g)", n, fv, p, h), desc)
						break
					}
				}
			}
		}
	}
	trans += segs
	c.Guard("segments checked", segs > 100000, fmt.Sprint(segs))
	c.Finish(vlib.Coverage{
		States: states, Transitions: trans, Evaluations: states, Nontrivial: nontrivial,
		Rule:        "states = value tables / scenes rendered through the real marching-squares renderers; transitions = segments checked; non-trivial = renders with at least one segment",
		Samples:     samples,
		Exhaustive:  true,
		Bounds:      map[string]any{"single_cell": "7^4 tables", "pairs": "2 orientations x 5^6 (thorough 7^6)", "interior": "2^16 sign tables of a 4x4 block", "analytic_jobs": len(ajobs), "ladder": ladder},
		Assumptions: []string{"boundary corners carry positive values so contours stay inside the box", "quadtree tables scaled so nothing is prunable (pruning: C07)", "degree exactly 2 is required only for tables without zero/tiny values (saddles give 4)"},
	})
}
