// C18 — screw threads are right-handed, periodic, match their designation and mate.
// Engine E: every entry of the thread database (exhaustively) against an independently typed table of
// the standards; unit conversion incl. the history "convert, then look up again"; helical invariance and
// z-periodicity of Screw3D over a cylindrical lattice for starts in {+-1,+-2,3}; mating of the external
// and internal profiles for tolerances {0, 0.05p, 0.2p}, directly and through obj.Nut / obj.Bolt parts.
package main

import (
	"fmt"
	"math"
	"regexp"
	"sort"
	"strconv"
	"sync/atomic"

	"github.com/deadsy/sdfx/obj"
	"github.com/deadsy/sdfx/sdf"
	v3 "github.com/deadsy/sdfx/vec/v3"

	"verif/lib/vlib"
)

type std struct {
	dia, tpi float64
}

// independent tables (ASME B1.1 unified coarse / fine series, ASME B1.20.1 NPT)
var unc = map[string]std{"4_40": {0.112, 40}, "6_32": {0.138, 32}, "8_32": {0.164, 32}, "10_24": {0.190, 24}, "1/4": {0.25, 20}, "5/16": {0.3125, 18}, "3/8": {0.375, 16},
	"7/16": {0.4375, 14}, "1/2": {0.5, 13}, "9/16": {0.5625, 12}, "5/8": {0.625, 11}, "3/4": {0.75, 10}, "7/8": {0.875, 9}, "1": {1, 8}}
var unf = map[string]std{"4_48": {0.112, 48}, "6_40": {0.138, 40}, "8_36": {0.164, 36}, "10_32": {0.190, 32}, "1/4": {0.25, 28}, "5/16": {0.3125, 24}, "3/8": {0.375, 24},
	"7/16": {0.4375, 20}, "1/2": {0.5, 20}, "9/16": {0.5625, 18}, "5/8": {0.625, 18}, "3/4": {0.75, 16}, "7/8": {0.875, 14}, "1": {1, 12}}
var npt = map[string]std{"1/8": {0.405, 27}, "1/4": {0.540, 18}, "3/8": {0.675, 18}, "1/2": {0.840, 14}, "3/4": {1.050, 14}, "1": {1.315, 11.5}, "1_1/4": {1.660, 11.5},
	"1_1/2": {1.900, 11.5}, "2": {2.375, 11.5}, "2_1/2": {2.875, 8}, "3": {3.5, 8}, "4": {4.5, 8}}

var reM = regexp.MustCompile(`^M([0-9.]+)x([0-9.]+)$`)

func close(a, b float64) bool { return math.Abs(a-b) <= 1e-12*(1+math.Abs(b)) }

func main() {
	c := vlib.Start("C18")
	var states, trans int64
	samples := []any{}
	names := sdf.VerifThreadNames()
	sort.Strings(names)
	c.Guard("thread database has >= 80 entries", len(names) >= 80, fmt.Sprint(len(names)))

	// ---------------- A. designation vs stored numbers, unit conversion ----------------
	families := map[string]int{}
	for _, n := range names {
		t, err := sdf.ThreadLookup(n)
		states++
		desc := map[string]any{"thread": n}
		if err != nil || t == nil {
			c.Violation("ThreadLookup|missing", fmt.Sprintf("%s: %v", n, err), desc)
			continue
		}
		before := *t
		var wantR, wantP, wantTaper float64
		wantU := "inch"
		switch {
		case reM.MatchString(n):
			m := reM.FindStringSubmatch(n)
			d, _ := strconv.ParseFloat(m[1], 64)
			p, _ := strconv.ParseFloat(m[2], 64)
			wantR, wantP, wantU = d/2, p, "mm"
			families["metric"]++
		case len(n) > 4 && n[:4] == "unc_":
			s, ok := unc[n[4:]]
			if !ok {
				c.Violation("threadDB|designation-not-in-standard-series", n, desc)
				continue
			}
			wantR, wantP = s.dia/2, 1/s.tpi
			families["unc"]++
		case len(n) > 4 && n[:4] == "unf_":
			s, ok := unf[n[4:]]
			if !ok {
				c.Violation("threadDB|designation-not-in-standard-series", n, desc)
				continue
			}
			wantR, wantP = s.dia/2, 1/s.tpi
			families["unf"]++
		case len(n) > 4 && n[:4] == "npt_":
			s, ok := npt[n[4:]]
			if !ok {
				c.Violation("threadDB|designation-not-in-standard-series", n, desc)
				continue
			}
			wantR, wantP, wantTaper = s.dia/2, 1/s.tpi, math.Atan(1.0/32)
			families["npt"]++
		default:
			c.Violation("threadDB|name-matches-no-designation-grammar", n, desc)
			continue
		}
		fam := "metric"
		if wantU == "inch" {
			fam = n[:3]
		}
		if !close(t.Radius, wantR) || !close(t.Pitch, wantP) || !close(t.Taper, wantTaper) || t.Units != wantU || t.Name != n {
			c.Violation("threadDB|"+fam+"|entry-disagrees-with-designation", fmt.Sprintf("%s: stored radius %g pitch %g taper %g units %q name %q; designation means radius %g pitch %g taper %g units %q", n, t.Radius, t.Pitch, t.Taper, t.Units, t.Name, wantR, wantP, wantTaper, wantU), desc)
		}
		// conversion
		m := t.ToMillimetre()
		k := 25.4
		if t.Units == "mm" {
			k = 1
		}
		if m == nil || m.Units != "mm" || !close(m.Radius, before.Radius*k) || !close(m.Pitch, before.Pitch*k) || !close(m.HexFlat2Flat, before.HexFlat2Flat*k) || m.Taper != before.Taper || m.Name != n {
			c.Violation("ToMillimetre|wrong-scale", fmt.Sprintf("%s: %+v converts to %+v", n, before, m), desc)
			continue
		}
		m2 := m.ToMillimetre()
		if *m2 != *m {
			c.Violation("ToMillimetre|not-idempotent", fmt.Sprintf("%s: %+v then %+v", n, *m, *m2), desc)
		}
		// history: conversion and the parts that convert internally must leave the database entry alone
		(&obj.ThreadedCylinderParms{Height: 10, Diameter: 100, Thread: n, Tolerance: 0}).Object()
		// and every part that takes a tolerance, with a tolerance (twice: a drift accumulates)
		for rep := 0; rep < 2; rep++ {
			(&obj.ThreadedCylinderParms{Height: 10, Diameter: 100, Thread: n, Tolerance: 0.15}).Object()
			obj.Nut(&obj.NutParms{Thread: n, Style: "hex", Tolerance: 0.1})
			obj.Bolt(&obj.BoltParms{Thread: n, Style: "hex", Tolerance: 0.1, TotalLength: 20 * before.Pitch, ShankLength: 2 * before.Pitch})
		}
		after, _ := sdf.ThreadLookup(n)
		if after == nil || *after != before {
			c.Violation("threadDB|entry-changed-by-unit-conversion", fmt.Sprintf("%s: entry was %+v, after ToMillimetre / ThreadedCylinderParms.Object / Nut / Bolt (with tolerances) it is %+v", n, before, after), desc)
			*after = before // restore for the rest of the run
		}
		trans += 6
	}
	c.Guard("all four designation families present", families["metric"] > 10 && families["unc"] > 5 && families["unf"] > 5 && families["npt"] > 5, fmt.Sprint(families))
	samples = append(samples, map[string]any{"database_entries": len(names), "families": families, "first": names[0], "last": names[len(names)-1]})

	// ---------------- B. helical invariance and periodicity; C. mating ----------------
	type job struct {
		name   string
		starts int
		kind   string // "helix", "mate"
		tolB   float64
		tolN   float64
	}
	var jobs []job
	hn := vlib.Pick(c, []string{"M6x1", "unc_1/4", "M64x6", "unf_4_48", "M1x0.2"}, names)
	for _, n := range hn {
		for _, st := range vlib.Pick(c, []int{1, -1, 2, -2, 3}, []int{1, -1, 2, -2, 3, -3, 4}) {
			jobs = append(jobs, job{name: n, starts: st, kind: "helix"})
		}
	}
	for _, n := range names {
		for _, tl := range [][2]float64{{0, 0}, {0.05, 0}, {0, 0.05}, {0.2, 0.2}} {
			jobs = append(jobs, job{name: n, starts: 1, kind: "mate", tolB: tl[0], tolN: tl[1]})
		}
		jobs = append(jobs, job{name: n, starts: 1, kind: "nut"})
		// the generated parts against each other: obj.Bolt vs obj.Nut, both head styles
		jobs = append(jobs, job{name: n, starts: 1, kind: "bolt-nut"}, job{name: n, starts: 1, kind: "bolt-nut", tolB: 0.05, tolN: 0.05})
	}
	var pts int64
	states += c.ParFor(len(jobs), func(i int) {
		j := jobs[i]
		t, _ := sdf.ThreadLookup(j.name)
		if t == nil {
			return
		}
		p, r := t.Pitch, t.Radius
		h := p / (2 * math.Tan(math.Pi/6))
		desc := map[string]any{"thread": j.name, "starts": j.starts, "kind": j.kind, "tolerance_bolt_pitches": j.tolB, "tolerance_nut_pitches": j.tolN}
		cyl := func(rr, ph, z float64) v3.Vec { return v3.Vec{X: rr * math.Cos(ph), Y: rr * math.Sin(ph), Z: z} }
		switch j.kind {
		case "helix":
			if t.Taper != 0 {
				return
			}
			prof, err := sdf.ISOThread(r, p, true)
			if err != nil {
				c.Violation("ISOThread|error", fmt.Sprintf("%s: %v", j.name, err), desc)
				return
			}
			length := 14 * p
			s, err := sdf.Screw3D(prof, length, 0, p, j.starts)
			if err != nil {
				c.Violation("Screw3D|error", fmt.Sprintf("%s: %v", j.name, err), desc)
				return
			}
			hand := "right-handed(starts>0)"
			if j.starts < 0 {
				hand = "left-handed(starts<0)"
			}
			tol := 1e-9 * (r + p)
			var n int64
			nrH := vlib.Pick(c, 12, 48)
			for ir := 0; ir <= nrH; ir++ {
				rr := r - 1.1*h + (1.4*h)*float64(ir)/float64(nrH)
				if rr <= 0 {
					continue
				}
				for ip := 0; ip < vlib.Pick(c, 12, 48); ip++ {
					ph := 2 * math.Pi * (float64(ip) + 0.37) / float64(vlib.Pick(c, 12, 48))
					for iz := -24; iz <= 24; iz++ {
						z := p * float64(iz) / 24 * 2
						f0 := s.Evaluate(cyl(rr, ph, z))
						n++
						// periodicity
						if f1 := s.Evaluate(cyl(rr, ph, z+p)); math.Abs(f1-f0) > tol {
							c.Violation("Screw3D|not-periodic-in-z-with-the-pitch|"+hand, fmt.Sprintf("%s starts %d: f(r=%g,phi=%g,z=%g) = %g but one pitch higher %g", j.name, j.starts, rr, ph, z, f0, f1), desc)
							return
						}
						// helical motion: rotate by dphi, advance starts*pitch*dphi/2pi
						for _, dphi := range []float64{math.Pi / 6, math.Pi / 2, 2.5, 2 * math.Pi * 0.99} {
							adv := float64(j.starts) * p * dphi / (2 * math.Pi)
							if f2 := s.Evaluate(cyl(rr, ph+dphi, z+adv)); math.Abs(f2-f0) > tol {
								c.Violation("Screw3D|not-invariant-under-helical-motion|"+hand, fmt.Sprintf("%s starts %d: f(r=%g,phi=%g,z=%g) = %g but after rotating by %g and advancing %g it is %g", j.name, j.starts, rr, ph, z, f0, dphi, adv, f2), desc)
								return
							}
						}
					}
				}
			}
			// a long rod (round 9): 20000 pitches; the thread k pitches above and below the middle is the thread at the
			// middle, for k up to 9000 and around the powers of two (a turn count truncated instead of floored, a
			// table of turns, a cached period)
			if j.starts == 1 || j.starts == -2 {
				long, err := sdf.Screw3D(prof, 20000*p, 0, p, j.starts)
				if err != nil {
					c.Violation("Screw3D|error", fmt.Sprintf("%s, 20000 pitches: %v", j.name, err), desc)
					return
				}
				ks := []int{1, 2, 100, 511, 512, 513, 1000, 1023, 1024, 1025, 1026, 2047, 2048, 2049, 4095, 4096, 4097, 8191, 8192, 8193, 9000}
				for ir := 0; ir <= 8; ir++ {
					rr := r - 1.1*h + (1.4*h)*float64(ir)/8
					if rr <= 0 {
						continue
					}
					for ip := 0; ip < 5; ip++ {
						ph := 2 * math.Pi * (float64(ip) + 0.37) / 5
						for iz := 0; iz < 7; iz++ {
							z := p * (float64(iz)/7 - 0.45)
							f0 := long.Evaluate(cyl(rr, ph, z))
							for _, k := range ks {
								for _, sgn := range []float64{1, -1} {
									n++
									// tolerance: the rounding of z itself at k pitches (an ulp of k*p) dominates
									if f1 := long.Evaluate(cyl(rr, ph, z+sgn*float64(k)*p)); math.Abs(f1-f0) > tol+8*float64(k)*p*2.3e-16 {
										c.Violation("Screw3D|long-rod|not-periodic-in-z-with-the-pitch|"+hand, fmt.Sprintf("%s starts %d, rod of 20000 pitches: f(r=%g,phi=%g,z=%g) = %g but %g pitches away it is %g", j.name, j.starts, rr, ph, z, f0, sgn*float64(k), f1), desc)
										return
									}
								}
							}
						}
					}
				}
			}
			atomic.AddInt64(&pts, n*6)
		case "bolt-nut":
			style := "hex"
			if j.tolB > 0 {
				style = "knurl"
			}
			nh := t.HexHeight()
			nut, err := obj.Nut(&obj.NutParms{Thread: j.name, Style: style, Tolerance: j.tolN * p})
			if err != nil {
				c.Violation("obj.Nut|error", fmt.Sprintf("%s: %v", j.name, err), desc)
				return
			}
			// the whole height of the nut as built (its bounding box), not the nominal height: a nut body taller than
			// its threaded hole keeps a plug of material in the way of the bolt (round 8)
			nb := nut.BoundingBox()
			H := 2 * math.Max(math.Abs(nb.Min.Z), math.Abs(nb.Max.Z))
			if !(H >= nh*0.5) || H > 10*nh {
				c.Violation("obj.Nut|height", fmt.Sprintf("%s: nut bounding box %v against a nominal height of %g", j.name, nb, nh), desc)
				return
			}
			threadLength := math.Max(nh, H) + 6*p
			bolt, err := obj.Bolt(&obj.BoltParms{Thread: j.name, Style: style, Tolerance: j.tolB * p, TotalLength: threadLength, ShankLength: 0})
			if err != nil {
				c.Violation("obj.Bolt|error", fmt.Sprintf("%s: %v", j.name, err), desc)
				return
			}
			// the nut sits on the middle of the bolt's threaded part (bolt thread: from the shank at hh/2
			// upward, its screw centred at hh/2 + threadLength/2), where both screws have the same phase
			z0 := nh/2 + threadLength/2
			zmax := math.Min(0.98*H/2, threadLength/2-p)
			tol := 1e-9 * (r + p)
			cls := "untapered"
			if t.Taper != 0 {
				cls = "tapered"
			}
			nz := int(zmax / p * 48)
			if nz < 8 {
				nz = 8
			}
			var n int64
			for ir := 0; ir <= 32; ir++ {
				rr := r - 1.2*h + (1.6*h)*float64(ir)/32
				if rr <= 0 {
					continue
				}
				for ip := 0; ip < 8; ip++ {
					ph := 2 * math.Pi * (float64(ip) + 0.21) / 8
					for iz := -nz; iz <= nz; iz++ {
						z := zmax * float64(iz) / float64(nz)
						q := cyl(rr, ph, z)
						b, m := bolt.Evaluate(v3.Vec{X: q.X, Y: q.Y, Z: q.Z + z0}), nut.Evaluate(q)
						n++
						if b < -tol && m < -tol {
							c.Violation(fmt.Sprintf("mating|bolt-nut|bolt-material-inside-nut-material|%s", cls), fmt.Sprintf("obj.Bolt(%s, %s, tolerance %gp) vs obj.Nut(tolerance %gp) placed on the middle of its thread: at r=%g phi=%g z=%g the bolt is %g inside and the nut %g inside", j.name, style, j.tolB, j.tolN, rr, ph, z, -b, -m), desc)
							return
						}
					}
				}
			}
			atomic.AddInt64(&pts, n*2)
		case "mate", "nut":
			ext, err1 := sdf.ISOThread(r-j.tolB*p, p, true)
			if err1 != nil {
				c.Violation("ISOThread|error", fmt.Sprintf("%s: %v", j.name, err1), desc)
				return
			}
			var inside func(q v3.Vec) (bolt, nut float64)
			var zmax float64
			length := 8 * p
			bolt, err := sdf.Screw3D(ext, length, t.Taper, p, 1)
			if err != nil {
				c.Violation("Screw3D|error", fmt.Sprintf("%s: %v", j.name, err), desc)
				return
			}
			if j.kind == "mate" {
				in, err2 := sdf.ISOThread(r+j.tolN*p, p, false)
				if err2 != nil {
					c.Violation("ISOThread|error", fmt.Sprintf("%s: %v", j.name, err2), desc)
					return
				}
				cut, err := sdf.Screw3D(in, length, t.Taper, p, 1)
				if err != nil {
					c.Violation("Screw3D|error", fmt.Sprintf("%s: %v", j.name, err), desc)
					return
				}
				// nut material = everything the internal cutter leaves: cut(q) > 0
				inside = func(q v3.Vec) (float64, float64) { return bolt.Evaluate(q), -cut.Evaluate(q) }
				zmax = length/2 - p
			} else {
				nut, err := obj.Nut(&obj.NutParms{Thread: j.name, Style: "hex", Tolerance: 0})
				if err != nil {
					c.Violation("obj.Nut|error", fmt.Sprintf("%s: %v", j.name, err), desc)
					return
				}
				inside = func(q v3.Vec) (float64, float64) { return bolt.Evaluate(q), nut.Evaluate(q) }
				zmax = math.Min(t.HexHeight()/2*0.8, length/2-p)
			}
			tol := 1e-9 * (r + p)
			cls := "untapered"
			if t.Taper != 0 {
				cls = "tapered"
			}
			var n int64
			nz := int(zmax / p * 48)
			if nz < 8 {
				nz = 8
			}
			for ir := 0; ir <= 32; ir++ {
				rr := r - 1.2*h + (1.6*h)*float64(ir)/32
				if rr <= 0 {
					continue
				}
				for ip := 0; ip < 8; ip++ {
					ph := 2 * math.Pi * (float64(ip) + 0.21) / 8
					for iz := -nz; iz <= nz; iz++ {
						z := zmax * float64(iz) / float64(nz)
						q := cyl(rr, ph, z)
						b, m := inside(q)
						n++
						if b < -tol && m < -tol {
							c.Violation(fmt.Sprintf("mating|%s|external-thread-inside-nut-material|%s", j.kind, cls), fmt.Sprintf("%s (bolt tolerance %gp, nut tolerance %gp): at r=%g phi=%g z=%g the bolt thread is %g inside and the nut material %g inside", j.name, j.tolB, j.tolN, rr, ph, z, -b, -m), desc)
							return
						}
					}
				}
			}
			atomic.AddInt64(&pts, n*2)
		}
	})
	trans += pts
	samples = append(samples, map[string]any{"helix_threads": hn, "starts": []int{1, -1, 2, -2, 3}, "mating": "every entry x bolt/nut tolerances (0,0),(0.05p,0),(0,0.05p),(0.2p,0.2p) + obj.Nut", "lattice": "33 radii across the thread depth x 8 angles x 48 steps per pitch"})
	c.Finish(vlib.Coverage{
		States: states, Transitions: trans, Evaluations: states, Nontrivial: int64(len(jobs)),
		Rule:        "states = database entries + (thread, starts / tolerance) configurations; transitions = table comparisons and lattice point evaluations; non-trivial = configurations evaluated on the lattice",
		Samples:     samples,
		Exhaustive:  true,
		Bounds:      map[string]any{"entries": len(names), "helix_entries": len(hn), "tolerances_in_pitches": []float64{0, 0.05, 0.2}},
		Assumptions: []string{"reference tables of the UNC/UNF/NPT series are typed into the harness from the standards", "helical invariance is checked at least one pitch away from both ends of the screw", "space is sampled on a cylindrical lattice"},
	})
}
