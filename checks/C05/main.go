// C05 — marching-cubes meshes are closed and consistently outward oriented.
// Engine L: every sign/magnitude table over small free blocks of the renderer's own (discovered)
// lattice, through the real uniform and octree renderers; plus analytic scenes with the surface
// passing exactly through lattice points.
package main

import (
	"fmt"
	"math"
	"sync/atomic"
	"time"

	"github.com/deadsy/sdfx/render"
	"github.com/deadsy/sdfx/sdf"
	v3 "github.com/deadsy/sdfx/vec/v3"

	"verif/lib/lattice"
	"verif/lib/mesh"
	"verif/lib/vlib"
)

type block struct {
	name  string
	rname string
	mk    func() render.Render3
	lat   *lattice.Lat3
	free  [][3]int // free corner indices, lexicographic
	dims  [3]int
	sigma float64 // value scale
	bound float64 // boundary value (before scaling)
}

func newBlock(c *vlib.Ctx, name, rname string, mk func() render.Render3, bb sdf.Box3, neutral float64, want [3]int) *block {
	l, err := lattice.Discover3(mk(), bb, neutral)
	if err != nil {
		c.HarnessError("lattice discovery failed for %s: %v", name, err)
		return nil
	}
	b := &block{name: name, rname: rname, mk: mk, lat: l, bound: 2}
	nx, ny, nz := l.NC()
	cell := l.Cell()
	b.sigma = 1
	if l.Stride == 2 {
		b.sigma = 0.2 * math.Min(cell.X, math.Min(cell.Y, cell.Z))
	}
	// free corners: both neighbours along every axis lie inside the reported bounding box, so every
	// zero crossing adjacent to a free corner is strictly inside the box
	ok := func(a []float64, stride, i int, lo, hi float64) bool {
		if i-1 < 0 || (i+1)*stride >= len(a) {
			return false
		}
		return a[(i-1)*stride] >= lo-1e-12 && a[(i+1)*stride] <= hi+1e-12
	}
	var fx, fy, fz []int
	for i := 0; i < nx; i++ {
		if ok(l.X, l.Stride, i, bb.Min.X-boundSlack(l, 0), bb.Max.X+boundSlack(l, 0)) {
			fx = append(fx, i)
		}
	}
	for i := 0; i < ny; i++ {
		if ok(l.Y, l.Stride, i, bb.Min.Y-boundSlack(l, 1), bb.Max.Y+boundSlack(l, 1)) {
			fy = append(fy, i)
		}
	}
	for i := 0; i < nz; i++ {
		if ok(l.Z, l.Stride, i, bb.Min.Z-boundSlack(l, 2), bb.Max.Z+boundSlack(l, 2)) {
			fz = append(fz, i)
		}
	}
	if len(fx) < want[0] || len(fy) < want[1] || len(fz) < want[2] {
		c.HarnessError("block %s: discovered lattice has %dx%dx%d free corners, wanted %v", name, len(fx), len(fy), len(fz), want)
		return nil
	}
	fx, fy, fz = fx[:want[0]], fy[:want[1]], fz[:want[2]]
	for _, i := range fx {
		for _, j := range fy {
			for _, k := range fz {
				b.free = append(b.free, [3]int{i, j, k})
			}
		}
	}
	b.dims = want
	return b
}

// the uniform renderer pads by one cell: a boundary value of +2 against |free| <= 1 puts the crossing
// at least a third of a cell inside; allow the neighbour to be up to one cell outside the reported box
func boundSlack(l *lattice.Lat3, axis int) float64 {
	if l.Stride == 1 {
		c := l.Cell()
		return []float64{c.X, c.Y, c.Z}[axis] * 0.5
	}
	return 0
}

type outcome struct {
	tris int
	neg  int
}

func (b *block) run(c *vlib.Ctx, vals []float64, desc func() map[string]any) outcome {
	f := b.lat.NewField3(b.bound * b.sigma)
	neg := 0
	special := "generic"
	for n, fc := range b.free {
		v := vals[n]
		f.Set(fc[0], fc[1], fc[2], v*b.sigma)
		if v < 0 {
			neg++
		}
		if v == 0 {
			special = "exact-zero"
		} else if math.Abs(v) < 1e-12 && special == "generic" {
			special = "tiny-magnitude"
		}
	}
	ts := render.ToTriangles(f, b.mk())
	cell := b.lat.Cell()
	tol := 1e-6 * math.Min(cell.X, math.Min(cell.Y, cell.Z))
	r := mesh.Check3(ts, tol)
	key := func(kind string) string { return b.rname + "|" + kind + "|" + special }
	rep := func(extra string) map[string]any {
		m := desc()
		m["block"] = b.name
		m["values"] = vals
		m["detail"] = extra
		return m
	}
	if f.OffLattice.Load() != 0 {
		c.HarnessError("%s: %d evaluations off the discovered lattice (renderer samples differently for this field)", b.name, f.OffLattice.Load())
	}
	if r.NaN > 0 {
		c.Violation(key("non-finite-vertex"), fmt.Sprintf("%s %v: %d triangles with non-finite vertices", b.name, vals, r.NaN), rep(""))
	}
	if r.Unbalanced > 0 {
		c.Violation(key("unbalanced-directed-edges"), fmt.Sprintf("%s values %v: %d edges not matched by their reverse, e.g. %v", b.name, vals, r.Unbalanced, r.UnbalancedEdge), rep(fmt.Sprint(r.UnbalancedEdge)))
	}
	if r.RepeatedExact > 0 {
		c.Violation(key("triangle-with-repeated-vertex"), fmt.Sprintf("%s values %v: %d triangles with two identical vertices, e.g. %v", b.name, vals, r.RepeatedExact, r.RepeatedExactTri), rep(fmt.Sprint(r.RepeatedExactTri)))
	}
	// a solid corner of magnitude below the renderer's snapping epsilon may legitimately collapse to
	// nothing: positive volume / non-empty output is only required when a non-tiny corner is inside
	solid := 0
	for _, v := range vals {
		if v <= -1e-9 {
			solid++
		}
	}
	if solid == 0 && r.Unbalanced == 0 && r.Volume < -1e-9*b.sigma*b.sigma*b.sigma {
		c.Violation(key("negative-volume"), fmt.Sprintf("%s values %v: signed volume %g", b.name, vals, r.Volume), rep(""))
	}
	if solid > 0 && r.Unbalanced == 0 && !(r.Volume > 0) {
		c.Violation(key("non-positive-volume"), fmt.Sprintf("%s values %v: signed volume %g with %d inside corners", b.name, vals, r.Volume, neg), rep(""))
	}
	if neg == 0 && len(ts) != 0 {
		c.Violation(key("triangles-without-inside-corner"), fmt.Sprintf("%s values %v: %d triangles although no corner is inside", b.name, vals, len(ts)), rep(""))
	}
	if solid > 0 && len(ts) == 0 {
		c.Violation(key("no-triangles-with-inside-corner"), fmt.Sprintf("%s values %v: no triangles although %d corners are inside", b.name, vals, neg), rep(""))
	}
	// every vertex inside the hull of the free block enlarged by one cell
	lo := b.lat.Corner(b.free[0][0]-1, b.free[0][1]-1, b.free[0][2]-1)
	last := b.free[len(b.free)-1]
	hi := b.lat.Corner(last[0]+1, last[1]+1, last[2]+1)
	for _, t := range ts {
		for _, p := range t {
			if p.X < lo.X-tol || p.Y < lo.Y-tol || p.Z < lo.Z-tol || p.X > hi.X+tol || p.Y > hi.Y+tol || p.Z > hi.Z+tol {
				c.Violation(key("vertex-outside-cells-adjacent-to-inside-corners"), fmt.Sprintf("%s values %v: vertex %v outside [%v,%v]", b.name, vals, p, lo, hi), rep(fmt.Sprint(p)))
				return outcome{len(ts), neg}
			}
		}
	}
	return outcome{len(ts), neg}
}

// boxed wraps a shape with a chosen bounding box (controls lattice alignment).
type boxed struct {
	s  sdf.SDF3
	bb sdf.Box3
}

func (b boxed) Evaluate(p v3.Vec) float64 { return b.s.Evaluate(p) }
func (b boxed) BoundingBox() sdf.Box3     { return b.bb }

func must3(s sdf.SDF3, err error) sdf.SDF3 {
	if err != nil {
		panic(err)
	}
	return s
}

func main() {
	c := vlib.Start("C05")
	var states, trans int64
	samples := []any{}

	uni := func(n int) func() render.Render3 {
		return func() render.Render3 { return render.NewMarchingCubesUniform(n) }
	}
	oct := func(n int) func() render.Render3 {
		return func() render.Render3 { return render.NewMarchingCubesOctree(n) }
	}
	cube := func(x, y, z float64) sdf.Box3 {
		return sdf.Box3{Min: v3.Vec{X: -x / 2, Y: -y / 2, Z: -z / 2}, Max: v3.Vec{X: x / 2, Y: y / 2, Z: z / 2}}
	}
	var blocks1, blocksPair, blocksBig []*block
	add := func(list *[]*block, b *block) {
		if b != nil {
			*list = append(*list, b)
		}
	}
	add(&blocks1, newBlock(c, "uniform-2x2x2", "uniform", uni(2), cube(2, 2, 2), 1, [3]int{2, 2, 2}))
	add(&blocks1, newBlock(c, "octree-2x2x2", "octree", oct(5), cube(5, 5, 5), 0, [3]int{2, 2, 2}))
	add(&blocksPair, newBlock(c, "uniform-3x2x2", "uniform", uni(3), cube(3, 2, 2), 1, [3]int{3, 2, 2}))
	add(&blocksPair, newBlock(c, "uniform-2x3x2", "uniform", uni(3), cube(2, 3, 2), 1, [3]int{2, 3, 2}))
	add(&blocksPair, newBlock(c, "uniform-2x2x3", "uniform", uni(3), cube(2, 2, 3), 1, [3]int{2, 2, 3}))
	add(&blocksPair, newBlock(c, "octree-3x2x2", "octree", oct(5), cube(5, 5, 5), 0, [3]int{3, 2, 2}))
	add(&blocksPair, newBlock(c, "octree-2x3x2", "octree", oct(5), cube(5, 5, 5), 0, [3]int{2, 3, 2}))
	add(&blocksPair, newBlock(c, "octree-2x2x3", "octree", oct(5), cube(5, 5, 5), 0, [3]int{2, 2, 3}))
	add(&blocksBig, newBlock(c, "uniform-3x3x2", "uniform", uni(3), cube(3, 3, 2), 1, [3]int{3, 3, 2}))
	add(&blocksBig, newBlock(c, "octree-3x3x2", "octree", oct(5), cube(5, 5, 5), 0, [3]int{3, 3, 2}))

	var nontrivial, tr int64
	runAll := func(b *block, n int, gen func(i int) []float64, what string) {
		t0 := time.Now()
		defer func() { c.Note("%s %s: %d tables in %.1fs", b.name, what, n, time.Since(t0).Seconds()) }()
		done := c.ParFor(n, func(i int) {
			vals := gen(i)
			o := b.run(c, vals, func() map[string]any { return map[string]any{"family": what, "index": i} })
			if o.tris > 0 {
				atomic.AddInt64(&nontrivial, 1)
			}
			atomic.AddInt64(&tr, int64(o.tris))
		})
		states += done
	}
	pow := func(b, e int) int {
		r := 1
		for ; e > 0; e-- {
			r *= b
		}
		return r
	}
	tern := []float64{-1, 0, 1}
	// ---- 1. single free cell
	for _, b := range blocks1 {
		// (a) {-1,0,+1}^8
		runAll(b, pow(3, 8), func(i int) []float64 {
			v := make([]float64, 8)
			for k := 0; k < 8; k++ {
				v[k] = tern[i%3]
				i /= 3
			}
			return v
		}, "ternary^8")
		// (b) 256 sign configurations x <=2 special corners with magnitudes {1/4, 1e-13}
		mags := []float64{0.25, 1e-13}
		type pat struct {
			c1, c2 int
			m1, m2 float64
		}
		pats := []pat{{-1, -1, 0, 0}}
		for a := 0; a < 8; a++ {
			for _, m := range mags {
				pats = append(pats, pat{a, -1, m, 0})
			}
			for bb := a + 1; bb < 8; bb++ {
				for _, m1 := range mags {
					for _, m2 := range mags {
						pats = append(pats, pat{a, bb, m1, m2})
					}
				}
			}
		}
		runAll(b, 256*len(pats), func(i int) []float64 {
			cfg, p := i%256, pats[i/256]
			v := make([]float64, 8)
			for k := 0; k < 8; k++ {
				v[k] = 1
				if cfg&(1<<k) != 0 {
					v[k] = -1
				}
				if k == p.c1 {
					v[k] *= p.m1
				}
				if k == p.c2 {
					v[k] *= p.m2
				}
			}
			return v
		}, "signs x special-magnitudes")
		samples = append(samples, map[string]any{"block": b.name, "family": "ternary^8 and 256 signs x magnitude patterns", "patterns": len(pats), "example_values": []float64{-1, 1e-13, 1, 1, -0.25, 1, 1, 1}, "lattice_corners": fmt.Sprint(b.lat.NC()), "free": b.free})
	}
	// ---- 2. face-adjacent pairs: all 4096 sign assignments (+-1); thorough: {-1,0,1}^12
	for _, b := range blocksPair {
		runAll(b, 4096, func(i int) []float64 {
			v := make([]float64, 12)
			for k := 0; k < 12; k++ {
				v[k] = 1
				if i&(1<<k) != 0 {
					v[k] = -1
				}
			}
			return v
		}, "signs^12")
		if c.Thorough() {
			runAll(b, pow(3, 12), func(i int) []float64 {
				v := make([]float64, 12)
				for k := 0; k < 12; k++ {
					v[k] = tern[i%3]
					i /= 3
				}
				return v
			}, "ternary^12")
		} else if b.rname == "uniform" || b.name == "octree-3x2x2" {
			// quick: ternary on the shared face (4 corners) x signs on the other 8 = 81*256
			runAll(b, 81*256, func(i int) []float64 {
				v := make([]float64, 12)
				t, s := i%81, i/81
				// the shared face: corners whose index along the long axis is the middle one
				mid := []int{}
				oth := []int{}
				for n, fc := range b.free {
					ax := 0
					for a := 0; a < 3; a++ {
						if b.dims[a] == 3 {
							ax = a
						}
					}
					if fc[ax] == b.free[0][ax]+1 {
						mid = append(mid, n)
					} else {
						oth = append(oth, n)
					}
				}
				for _, n := range mid {
					v[n] = tern[t%3]
					t /= 3
				}
				for q, n := range oth {
					v[n] = 1
					if s&(1<<q) != 0 {
						v[n] = -1
					}
				}
				return v
			}, "ternary-on-shared-face x signs")
		}
		samples = append(samples, map[string]any{"block": b.name, "family": "all 4096 sign assignments of a face-adjacent cell pair", "free": len(b.free)})
	}
	// ---- 3. blocks 3x3x2: all 2^18 sign assignments
	for _, b := range blocksBig {
		n := 1 << 18
		if !c.Thorough() {
			n = 1 << 16 // quick: the first 2^16 tables (the last two corners stay positive)
			if b.rname == "octree" {
				n = 1 << 14
			}
		}
		runAll(b, n, func(i int) []float64 {
			v := make([]float64, 18)
			for k := 0; k < 18; k++ {
				v[k] = 1
				if i&(1<<k) != 0 {
					v[k] = -1
				}
			}
			return v
		}, "signs^18")
		samples = append(samples, map[string]any{"block": b.name, "family": "sign assignments of a 3x3x2 corner block (edge- and corner-adjacent cells)", "count": n})
	}

	// ---- 4. scenes: analytic 1-Lipschitz shapes, surface through lattice points
	type scene struct {
		name string
		s    sdf.SDF3
	}
	box := func(x, y, z, r float64) sdf.SDF3 { return must3(sdf.Box3D(v3.Vec{X: x, Y: y, Z: z}, r)) }
	sph := func(r float64) sdf.SDF3 { return must3(sdf.Sphere3D(r)) }
	rot := func(s sdf.SDF3, deg float64) sdf.SDF3 {
		return sdf.Transform3D(s, sdf.Rotate3d(v3.Vec{X: 1, Y: 1, Z: 0}.Normalize(), sdf.DtoR(deg)))
	}
	tr3 := func(s sdf.SDF3, x, y, z float64) sdf.SDF3 {
		return sdf.Transform3D(s, sdf.Translate3d(v3.Vec{X: x, Y: y, Z: z}))
	}
	scenes := []scene{
		{"sphere r=2 (through lattice points for odd n)", sph(2)},
		{"sphere r=1.5", sph(1.5)},
		{"box 4x4x4 (faces on lattice planes)", box(4, 4, 4, 0)},
		{"box 2x4x3", box(2, 4, 3, 0)},
		{"rounded box", box(4, 3, 2, 0.5)},
		{"box rotated 45deg", rot(box(3, 3, 3, 0), 45)},
		{"box rotated 30deg", rot(box(3, 2, 2, 0), 30)},
		{"cylinder", must3(sdf.Cylinder3D(3, 1.5, 0))},
		{"rounded cylinder", must3(sdf.Cylinder3D(3, 1.5, 0.5))},
		{"cone", must3(sdf.Cone3D(3, 1.5, 0.5, 0))},
		{"capsule", must3(sdf.Capsule3D(3, 1))},
		{"union of two spheres", sdf.Union3D(tr3(sph(1.5), -1, 0, 0), tr3(sph(1.5), 1, 0, 0))},
		{"sphere minus box", sdf.Difference3D(sph(2), box(1, 1, 5, 0))},
		{"box minus sphere (through corner)", sdf.Difference3D(box(4, 4, 4, 0), tr3(sph(2), 2, 2, 2))},
		{"two boxes touching at an edge", sdf.Union3D(tr3(box(2, 2, 2, 0), -1, -1, 0), tr3(box(2, 2, 2, 0), 1, 1, 0))},
		{"two boxes touching at a corner", sdf.Union3D(tr3(box(2, 2, 2, 0), -1, -1, -1), tr3(box(2, 2, 2, 0), 1, 1, 1))},
		{"thin plate 4x4x0.5", box(4, 4, 0.5, 0)},
		{"octahedral intersection of rotated boxes", sdf.Intersect3D(rot(box(3, 3, 3, 0), 45), box(3, 3, 3, 0))},
		{"shell of sphere", must3(sdf.Shell3D(sph(2), 0.5))},
		{"elongated sphere", sdf.Elongate3D(sph(1), v3.Vec{X: 1, Y: 0.5, Z: 0})},
	}
	resos := vlib.Pick(c, []int{3, 4, 5, 7, 8, 12, 17}, []int{3, 4, 5, 6, 7, 8, 9, 10, 11, 12, 13, 14, 15, 16, 17, 24, 33})
	bbs := []sdf.Box3{cube(6, 6, 6), cube(8, 8, 8), cube(6, 8, 5)}
	type job struct {
		sc scene
		n  int
		bb sdf.Box3
		oc bool
	}
	var jobs []job
	for _, sc := range scenes {
		for _, n := range resos {
			for _, bb := range bbs {
				jobs = append(jobs, job{sc, n, bb, false}, job{sc, n, bb, true})
			}
		}
	}
	// shapes in their own (tight) bounding boxes at power-of-two and neighbouring cell counts: the renderers'
	// own padding is all that keeps the surface inside the sampled volume (added after seed C05-7)
	for _, si := range []int{0, 2, 3, 4, 7, 9, 13} {
		for _, n := range []int{8, 15, 16, 17, 32, 64} {
			jobs = append(jobs, job{scenes[si], n, scenes[si].s.BoundingBox(), false}, job{scenes[si], n, scenes[si].s.BoundingBox(), true})
		}
	}
	// the same kind of scene at very small and very large absolute size (nothing may depend on an absolute length)
	for _, k := range []float64{1e-3, 1e-5, 1e4} {
		for _, si := range []int{0, 3, 5, 12} {
			sc := scene{fmt.Sprintf("%s scaled by %g", scenes[si].name, k), sdf.ScaleUniform3D(scenes[si].s, k)}
			for _, n := range []int{9, 16, 40} {
				bb := cube(6*k, 8*k, 5*k)
				jobs = append(jobs, job{sc, n, bb, false}, job{sc, n, bb, true})
			}
		}
	}
	// scenes (and their boxes) moved far from the origin: the three lattice steps are rounded separately there
	for _, off := range []v3.Vec{{X: 10, Y: -7.1, Z: 3.3}, {X: -1e3, Y: 0.37, Z: 1e4}} {
		for _, si := range []int{0, 3, 6, 11, 13} {
			sc := scene{fmt.Sprintf("%s moved to %v", scenes[si].name, off), tr3(scenes[si].s, off.X, off.Y, off.Z)}
			for _, n := range []int{7, 20, 50} {
				bb := cube(6, 8, 5)
				bb.Min, bb.Max = bb.Min.Add(off), bb.Max.Add(off)
				jobs = append(jobs, job{sc, n, bb, false}, job{sc, n, bb, true})
			}
		}
	}
	// small parts in their own boxes thousands of cells away from the origin (the box is centre +- half size there,
	// so size / cell can round to just below a whole number)
	for _, off := range []v3.Vec{{X: 1000, Y: 1000, Z: 1000}, {Y: -700, Z: 300}, {X: 4096.5, Y: -2048.25, Z: 8191.125}, {X: 1e5, Y: 1e5, Z: -1e5}, {X: -333.3, Y: 777.7, Z: 0.1}} {
		for _, rad := range []float64{1.37, 0.5, 2.113} {
			sp := tr3(sph(rad), off.X, off.Y, off.Z)
			sc := scene{fmt.Sprintf("sphere r=%g at %v in its own box", rad, off), sp}
			for _, n := range []int{40, 50, 64, 100} {
				jobs = append(jobs, job{sc, n, sp.BoundingBox(), false}, job{sc, n, sp.BoundingBox(), true})
			}
		}
	}
	done := c.ParFor(len(jobs), func(i int) {
		j := jobs[i]
		var r render.Render3 = render.NewMarchingCubesUniform(j.n)
		rn := "uniform"
		if j.oc {
			r, rn = render.NewMarchingCubesOctree(j.n), "octree"
		}
		s := boxed{j.sc.s, j.bb}
		ts := render.ToTriangles(s, r)
		h := j.bb.Size().MaxComponent() / float64(j.n)
		rp := mesh.Check3(ts, 1e-6*h)
		desc := map[string]any{"scene": j.sc.name, "meshCells": j.n, "bb": j.bb, "renderer": rn}
		if rp.Unbalanced > 0 {
			c.Violation(rn+"|scene|unbalanced-directed-edges", fmt.Sprintf("%s n=%d %s: %d unbalanced edges e.g. %v", j.sc.name, j.n, rn, rp.Unbalanced, rp.UnbalancedEdge), desc)
		}
		if rp.RepeatedExact > 0 {
			c.Violation(rn+"|scene|triangle-with-repeated-vertex", fmt.Sprintf("%s n=%d %s: %d triangles with identical vertices e.g. %v", j.sc.name, j.n, rn, rp.RepeatedExact, rp.RepeatedExactTri), desc)
		}
		if rp.Unbalanced == 0 && len(ts) > 0 && !(rp.Volume > 0) {
			c.Violation(rn+"|scene|non-positive-volume", fmt.Sprintf("%s n=%d %s: volume %g", j.sc.name, j.n, rn, rp.Volume), desc)
		}
		if len(ts) > 0 {
			atomic.AddInt64(&nontrivial, 1)
		}
		atomic.AddInt64(&tr, int64(len(ts)))
	})
	states += done
	trans += tr
	// ---- 5. spheres that barely clip a lattice corner: the surface passes a lattice corner of the
	// renderer's own (discovered) lattice at -1e-5, 0, 1e-9, 1e-5 cell along the radius, for corners on the
	// cube diagonal (where an octree cube is cut at its very corner) and next to it
	type cjob struct {
		n      int
		oc     bool
		q      v3.Vec
		idx    [3]int
		delta  float64
		centre v3.Vec
	}
	var cjobs []cjob
	for _, oc := range []bool{false, true} {
		for _, n := range vlib.Pick(c, []int{5, 8, 16}, []int{5, 8, 11, 16, 32}) {
			oc, n := oc, n
			mk := func() render.Render3 {
				if oc {
					return render.NewMarchingCubesOctree(n)
				}
				return render.NewMarchingCubesUniform(n)
			}
			bb := cube(6, 6, 6)
			l, err := lattice.Discover3(mk(), bb, 1)
			if err != nil {
				c.HarnessError("lattice discovery failed for the corner-clip spheres: %v", err)
				continue
			}
			nx, ny, nz := l.NC()
			ctr := l.Corner(nx/2, ny/2, nz/2)
			for d := 1; nx/2+d < nx-1 && d <= 4; d++ {
				for _, off := range [][3]int{{d, d, d}, {d, d, d + 1}, {d, d + 1, d}, {-d, -d, -d}, {d, -d, d}} {
					i, j, k := nx/2+off[0], ny/2+off[1], nz/2+off[2]
					if i < 1 || j < 1 || k < 1 || i >= nx-1 || j >= ny-1 || k >= nz-1 {
						continue
					}
					q := l.Corner(i, j, k)
					if q.Sub(ctr).Length() > 0.42*6 {
						continue
					}
					for _, delta := range []float64{-1e-5, 0, 1e-9, 1e-5} {
						cjobs = append(cjobs, cjob{n, oc, q, [3]int{i, j, k}, delta, ctr})
					}
				}
			}
		}
	}
	var ctr int64
	cdone := c.ParFor(len(cjobs), func(i int) {
		j := cjobs[i]
		var r render.Render3 = render.NewMarchingCubesUniform(j.n)
		rn := "uniform"
		if j.oc {
			r, rn = render.NewMarchingCubesOctree(j.n), "octree"
		}
		h := 6.0 / float64(j.n)
		rad := j.q.Sub(j.centre).Length() + j.delta*h
		s := boxed{sdf.Transform3D(sph(rad), sdf.Translate3d(j.centre)), cube(6, 6, 6)}
		ts := render.ToTriangles(s, r)
		rp := mesh.Check3(ts, 1e-6*h)
		desc := map[string]any{"scene": "sphere clipping a lattice corner", "meshCells": j.n, "renderer": rn, "corner_index": j.idx, "corner": j.q, "corner_inside_by_cells": j.delta, "radius": rad, "centre": j.centre}
		what := fmt.Sprintf("sphere r=%v about %v (lattice corner %v inside by %g cell) n=%d %s", rad, j.centre, j.idx, j.delta, j.n, rn)
		if rp.Unbalanced > 0 {
			c.Violation(rn+"|corner-clip|unbalanced-directed-edges", fmt.Sprintf("%s: %d unbalanced edges e.g. %v", what, rp.Unbalanced, rp.UnbalancedEdge), desc)
		}
		if rp.RepeatedExact > 0 {
			c.Violation(rn+"|corner-clip|triangle-with-repeated-vertex", fmt.Sprintf("%s: %d triangles with identical vertices", what, rp.RepeatedExact), desc)
		}
		if rp.Unbalanced == 0 && !(rp.Volume > 0) {
			c.Violation(rn+"|corner-clip|non-positive-volume", fmt.Sprintf("%s: volume %g, %d triangles", what, rp.Volume, len(ts)), desc)
		}
		if len(ts) > 0 {
			atomic.AddInt64(&nontrivial, 1)
		}
		atomic.AddInt64(&ctr, int64(len(ts)))
	})
	states += cdone
	trans += ctr
	samples = append(samples, map[string]any{"corner_clip_spheres": len(cjobs), "offsets_in_cells": []float64{-1e-5, 0, 1e-9, 1e-5}})
	samples = append(samples, map[string]any{"scenes": len(scenes), "resolutions": resos, "boxes": 3, "renderers": 2, "example": scenes[13].name})

	c.Guard("all blocks discovered", len(blocks1) == 2 && len(blocksPair) == 6 && len(blocksBig) == 2, "")
	c.Guard("meshes produced", nontrivial > 1000, fmt.Sprint(nontrivial))
	c.Finish(vlib.Coverage{
		States: states, Transitions: trans, Evaluations: states, Nontrivial: nontrivial,
		Rule:       "states = value tables / scenes rendered through the real ToTriangles (uniform and octree); transitions = triangles emitted and checked; non-trivial = renders that produced at least one triangle",
		Samples:    samples,
		Exhaustive: true,
		Bounds: map[string]any{"single_cell": "{-1,0,1}^8 and 256 sign configs x <=2 special corners with magnitude 1/4 or 1e-13", "pairs": "3 orientations x 4096 signs (+ ternary shared face x signs; thorough {-1,0,1}^12)",
			"blocks": "3x3x2: 2^18 sign tables (quick: first 2^16 uniform, 2^14 octree)", "scenes": fmt.Sprintf("%d shapes x %v x 3 boxes x 2 renderers", len(scenes), resos), "weld_tolerance": "1e-6 cell"},
		Assumptions: []string{"boundary lattice corners carry +2 (scaled), free corners |v|<=1: every zero crossing is strictly inside the reported bounding box", "octree tables are scaled to 0.2 cell and cube centres return 0, so no cube is prunable (pruning itself is C07)",
			"marching cubes is local: a cell's output depends on its 8 values/coordinates only, so closedness on arbitrary lattices follows from the enumerated cell/pair/block tables for these magnitudes"},
	})
}
