// vrewrite rewrites the concurrent files of deadsy/sdfx so that every synchronisation operation goes
// through the controlled scheduler package vsync (and, for render/stl.go and render/svg.go, package os
// through the in-memory vos).  It prints a go build overlay.  It refuses (exit 3) on constructs it does
// not understand, so no synchronisation operation is ever silently left uninstrumented.
package main

import (
	"encoding/json"
	"flag"
	"fmt"
	"go/ast"
	"go/importer"
	"go/parser"
	"go/token"
	"go/types"
	"os"
	"path/filepath"
	"sort"
	"strings"
)

const vsyncPath = "github.com/deadsy/sdfx/verifrt/vsync"
const vosPath = "github.com/deadsy/sdfx/verifrt/vos"
const vatomicPath = "github.com/deadsy/sdfx/verifrt/vatomic"

type edit struct {
	start, end int
	text       string
}

type rw struct {
	fset   *token.FileSet
	src    []byte
	base   int
	info   *types.Info
	refuse []string
	name   string
	used   bool
	pk     *pkgFacts
	params map[types.Object]bool
	alias  map[types.Object]aliasInfo
	events int
}

// pkgFacts are the shared-state facts of one package: package-level variables and struct fields
// (reached through a receiver or parameter) that are written somewhere outside variable initialisers.
type pkgFacts struct {
	mutVars   map[types.Object]bool
	mutFields map[types.Object]bool
	pkg       *types.Package
}

func isPkgVar(o types.Object) bool {
	v, ok := o.(*types.Var)
	return ok && !v.IsField() && v.Pkg() != nil && v.Parent() == v.Pkg().Scope()
}

// rootOf strips index, star, paren and field selections; it returns the base identifier and the first
// field selected directly on it (nil when none).
func rootOf(info *types.Info, e ast.Expr) (*ast.Ident, *ast.SelectorExpr) {
	var first *ast.SelectorExpr
	for {
		switch x := e.(type) {
		case *ast.ParenExpr:
			e = x.X
		case *ast.IndexExpr:
			e = x.X
		case *ast.SliceExpr:
			e = x.X
		case *ast.StarExpr:
			e = x.X
		case *ast.SelectorExpr:
			if sel, ok := info.Selections[x]; ok && sel.Kind() == types.FieldVal {
				first = x
				e = x.X
			} else {
				return nil, nil
			}
		case *ast.Ident:
			return x, first
		default:
			return nil, nil
		}
	}
}

func funcParams(info *types.Info, recv *ast.FieldList, typ *ast.FuncType) map[types.Object]bool {
	m := map[types.Object]bool{}
	add := func(fl *ast.FieldList) {
		if fl == nil {
			return
		}
		for _, f := range fl.List {
			for _, n := range f.Names {
				if o := info.Defs[n]; o != nil {
					m[o] = true
				}
			}
		}
	}
	add(recv)
	if typ != nil {
		add(typ.Params)
	}
	return m
}

// writeTargets lists the expressions written by statement-level constructs inside n (not descending
// into nested function literals' own statements is unnecessary: they are visited as well).
func writeTargets(info *types.Info, n ast.Node, f func(e ast.Expr)) {
	ast.Inspect(n, func(c ast.Node) bool {
		switch x := c.(type) {
		case *ast.AssignStmt:
			for _, l := range x.Lhs {
				f(l)
			}
		case *ast.IncDecStmt:
			f(x.X)
		case *ast.SliceExpr:
			if t := info.TypeOf(x.X); t != nil {
				if _, ok := t.Underlying().(*types.Array); ok {
					f(x.X)
				}
			}
		case *ast.RangeStmt:
			if x.Tok == token.ASSIGN {
				if x.Key != nil {
					f(x.Key)
				}
				if x.Value != nil {
					f(x.Value)
				}
			}
		case *ast.CallExpr:
			// a method call on a package-level variable of a foreign pointer type (e.g. *rand.Rand)
			// may mutate it
			if sel, ok := x.Fun.(*ast.SelectorExpr); ok {
				if id, ok := sel.X.(*ast.Ident); ok {
					if o := info.Uses[id]; o != nil && isPkgVar(o) {
						if p, ok := o.Type().(*types.Pointer); ok {
							if nt, ok := p.Elem().(*types.Named); ok && nt.Obj().Pkg() != o.Pkg() {
								f(id)
							}
						}
					}
				}
			}
		}
		return true
	})
}

// aliasInfo: a local variable assigned directly from a reference-typed field of a receiver/parameter
// (x := s.buf) aliases that field: writes through x are writes to the field.
type aliasInfo struct {
	base  *ast.Ident
	field *ast.SelectorExpr
	pkgv  types.Object // set instead of base/field: the local is a pointer to this package-level variable (d := &x)
}

func collectAliases(info *types.Info, body ast.Node, params map[types.Object]bool) map[types.Object]aliasInfo {
	al := map[types.Object]aliasInfo{}
	ast.Inspect(body, func(c ast.Node) bool {
		as, ok := c.(*ast.AssignStmt)
		if !ok || len(as.Lhs) != len(as.Rhs) {
			return true
		}
		for i, l := range as.Lhs {
			id, ok := l.(*ast.Ident)
			if !ok {
				continue
			}
			if u, ok := as.Rhs[i].(*ast.UnaryExpr); ok && u.Op == token.AND {
				if pid, ok := u.X.(*ast.Ident); ok {
					if po := info.Uses[pid]; po != nil && isPkgVar(po) {
						o := info.Defs[id]
						if o == nil {
							o = info.Uses[id]
						}
						if o != nil {
							al[o] = aliasInfo{pkgv: po}
						}
					}
				}
				continue
			}
			sel, ok := as.Rhs[i].(*ast.SelectorExpr)
			if !ok {
				continue
			}
			base, ok := sel.X.(*ast.Ident)
			if !ok || !params[info.Uses[base]] {
				continue
			}
			if s := info.Selections[sel]; s == nil || s.Kind() != types.FieldVal {
				continue
			}
			switch info.TypeOf(sel).Underlying().(type) {
			case *types.Slice, *types.Map, *types.Pointer:
				o := info.Defs[id]
				if o == nil {
					o = info.Uses[id]
				}
				if o != nil {
					al[o] = aliasInfo{base: base, field: sel}
				}
			}
		}
		return true
	})
	return al
}

func collectFacts(info *types.Info, files []*ast.File, pkg *types.Package) *pkgFacts {
	pf := &pkgFacts{mutVars: map[types.Object]bool{}, mutFields: map[types.Object]bool{}, pkg: pkg}
	for _, f := range files {
		for _, d := range f.Decls {
			fd, ok := d.(*ast.FuncDecl)
			if !ok || fd.Body == nil {
				continue
			}
			params := funcParams(info, fd.Recv, fd.Type)
			aliases := collectAliases(info, fd.Body, params)
			writeTargets(info, fd.Body, func(e ast.Expr) {
				id, first := rootOf(info, e)
				if id == nil {
					return
				}
				o := info.Uses[id]
				if o == nil {
					return
				}
				if a, ok := aliases[o]; ok && (first != nil || e != ast.Expr(id)) {
					// a write through a local alias of a field (element / pointee write, not re-binding the local)
					if a.pkgv != nil {
						pf.mutVars[a.pkgv] = true
						return
					}
					if sel := info.Selections[a.field]; sel != nil {
						pf.mutFields[sel.Obj()] = true
					}
					return
				}
				if isPkgVar(o) {
					pf.mutVars[o] = true
				} else if params[o] && first != nil {
					if sel := info.Selections[first]; sel != nil {
						pf.mutFields[sel.Obj()] = true
					}
				}
			})
		}
	}
	return pf
}

// accesses returns the instrumentation calls for the expressions directly belonging to statement st
// (nested statement lists are instrumented on their own).
func (r *rw) accesses(st ast.Stmt) string {
	if r.pk == nil {
		return ""
	}
	var heads []ast.Node
	switch x := st.(type) {
	case *ast.IfStmt:
		for cur := x; cur != nil; {
			if cur.Init != nil {
				heads = append(heads, cur.Init)
			}
			heads = append(heads, cur.Cond)
			next, _ := cur.Else.(*ast.IfStmt)
			cur = next
		}
	case *ast.ForStmt:
		for _, h := range []ast.Node{x.Init, x.Cond, x.Post} {
			if h != nil && !isNilNode(h) {
				heads = append(heads, h)
			}
		}
	case *ast.RangeStmt:
		heads = append(heads, x.X)
	case *ast.SwitchStmt:
		if x.Init != nil {
			heads = append(heads, x.Init)
		}
		if x.Tag != nil {
			heads = append(heads, x.Tag)
		}
	case *ast.TypeSwitchStmt:
		heads = append(heads, x.Assign)
	case *ast.BlockStmt, *ast.SelectStmt, *ast.LabeledStmt, *ast.CaseClause, *ast.CommClause:
		return ""
	default:
		heads = append(heads, st)
	}
	type acc struct {
		text  string
		write bool
	}
	seen := map[string]*acc{}
	var order []string
	note := func(expr, label string, w bool) {
		k := expr
		if a, ok := seen[k]; ok {
			a.write = a.write || w
			return
		}
		seen[k] = &acc{label, w}
		order = append(order, k)
	}
	for _, h := range heads {
		writes := map[ast.Node]bool{}
		writeTargets(r.info, h, func(e ast.Expr) {
			id, first := rootOf(r.info, e)
			if id == nil {
				return
			}
			if a, ok := r.alias[r.info.Uses[id]]; ok && (first != nil || e != ast.Expr(id)) {
				if a.pkgv != nil {
					if r.pk.mutVars[a.pkgv] && a.pkgv.Pkg() == r.pk.pkg {
						note("&"+a.pkgv.Name(), a.pkgv.Pkg().Name()+"."+a.pkgv.Name(), true)
					}
					return
				}
				if sel := r.info.Selections[a.field]; sel != nil && r.pk.mutFields[sel.Obj()] {
					tn := "?"
					if nt := namedOf(r.info.Uses[a.base].Type()); nt != nil {
						tn = nt.Obj().Name()
					}
					note("&"+a.base.Name+"."+a.field.Sel.Name, tn+"."+a.field.Sel.Name, true)
				}
				return
			}
			if first != nil {
				writes[first] = true
			} else {
				writes[id] = true
			}
		})
		ast.Inspect(h, func(c ast.Node) bool {
			switch x := c.(type) {
			case *ast.FuncLit:
				return false // its body is a block of its own
			case *ast.SelectorExpr:
				if sel, ok := r.info.Selections[x]; ok && sel.Kind() == types.FieldVal && r.pk.mutFields[sel.Obj()] {
					if id, ok := x.X.(*ast.Ident); ok {
						if o := r.info.Uses[id]; o != nil && r.params[o] {
							tn := "?"
							if nt := namedOf(o.Type()); nt != nil {
								tn = nt.Obj().Name()
							}
							note("&"+id.Name+"."+x.Sel.Name, tn+"."+x.Sel.Name, writes[x])
						}
					}
				}
			case *ast.Ident:
				if o := r.info.Uses[x]; o != nil && isPkgVar(o) && r.pk.mutVars[o] && o.Pkg() == r.pk.pkg {
					note("&"+x.Name, o.Pkg().Name()+"."+x.Name, writes[x])
				}
			}
			return true
		})
	}
	var b strings.Builder
	for _, k := range order {
		a := seen[k]
		fn := "R"
		if a.write {
			fn = "W"
		}
		fmt.Fprintf(&b, "vsync.%s(%s, %q); ", fn, k, a.text)
		r.events++
		r.used = true
	}
	return b.String()
}

func isNilNode(n ast.Node) bool {
	switch x := n.(type) {
	case ast.Stmt:
		return x == nil
	case ast.Expr:
		return x == nil
	}
	return n == nil
}

func namedOf(t types.Type) *types.Named {
	if p, ok := t.(*types.Pointer); ok {
		t = p.Elem()
	}
	nt, _ := t.(*types.Named)
	return nt
}

// stmtList renders a statement list with access events in front of each statement.
func (r *rw) stmtList(list []ast.Stmt) string {
	var b strings.Builder
	for _, st := range list {
		if ls, ok := st.(*ast.LabeledStmt); ok {
			b.WriteString(ls.Label.Name + ":\n")
			b.WriteString(r.accesses(ls.Stmt))
			b.WriteString(r.render(ls.Stmt))
		} else {
			b.WriteString(r.accesses(st))
			b.WriteString(r.render(st))
		}
		b.WriteString("\n")
	}
	return b.String()
}

func (r *rw) off(p token.Pos) int { return r.fset.Position(p).Offset }

func (r *rw) isChan(e ast.Expr) bool {
	t := r.info.TypeOf(e)
	if t == nil {
		r.refuse = append(r.refuse, fmt.Sprintf("%s: no type for expression at %v", r.name, r.fset.Position(e.Pos())))
		return false
	}
	_, ok := t.Underlying().(*types.Chan)
	return ok
}

func (r *rw) special(n ast.Node) (string, bool) {
	switch x := n.(type) {
	case *ast.ChanType:
		r.used = true
		return "*vsync.Chan[" + r.render(x.Value) + "]", true
	case *ast.CallExpr:
		if id, ok := x.Fun.(*ast.Ident); ok {
			if id.Name == "make" && len(x.Args) >= 1 {
				if ct, ok := x.Args[0].(*ast.ChanType); ok {
					r.used = true
					args := []string{}
					for _, a := range x.Args[1:] {
						args = append(args, r.render(a))
					}
					return "vsync.MakeChan[" + r.render(ct.Value) + "](" + strings.Join(args, ", ") + ")", true
				}
			}
			if id.Name == "close" && len(x.Args) == 1 && r.isChan(x.Args[0]) {
				return r.render(x.Args[0]) + ".Close()", true
			}
			if (id.Name == "cap" || id.Name == "len") && len(x.Args) == 1 && r.isChan(x.Args[0]) {
				return r.render(x.Args[0]) + map[string]string{"cap": ".Cap()", "len": ".Len()"}[id.Name], true
			}
		}
		if sel, ok := x.Fun.(*ast.SelectorExpr); ok {
			if id, ok := sel.X.(*ast.Ident); ok && id.Name == "runtime" && sel.Sel.Name == "NumCPU" {
				r.used = true
				return "vsync.NumCPU()", true
			}
			// runtime.GOMAXPROCS(0) only asks how many processors may run Go code: the same environment answer,
			// owned by the harness.  Any other argument would change the setting: not modelled, refused.
			if id, ok := sel.X.(*ast.Ident); ok && id.Name == "runtime" && sel.Sel.Name == "GOMAXPROCS" {
				if len(x.Args) == 1 {
					if lit, ok := x.Args[0].(*ast.BasicLit); ok && lit.Value == "0" {
						r.used = true
						return "vsync.NumCPU()", true
					}
				}
				r.refuse = append(r.refuse, fmt.Sprintf("%s: runtime.GOMAXPROCS with a non-zero argument at %v is not modelled", r.name, r.fset.Position(x.Pos())))
			}
		}
	case *ast.SendStmt:
		return r.render(x.Chan) + ".Send(" + r.render(x.Value) + ")", true
	case *ast.UnaryExpr:
		if x.Op == token.ARROW {
			return r.render(x.X) + ".Recv()", true
		}
	case *ast.AssignStmt:
		if len(x.Lhs) == 2 && len(x.Rhs) == 1 {
			if u, ok := x.Rhs[0].(*ast.UnaryExpr); ok && u.Op == token.ARROW {
				return r.render(x.Lhs[0]) + ", " + r.render(x.Lhs[1]) + " " + x.Tok.String() + " " + r.render(u.X) + ".Recv2()", true
			}
		}
	case *ast.RangeStmt:
		if r.isChan(x.X) {
			key := "_"
			if x.Key != nil {
				key = r.render(x.Key)
			}
			if x.Value != nil {
				r.refuse = append(r.refuse, fmt.Sprintf("%s: range over channel with two variables at %v", r.name, r.fset.Position(x.Pos())))
			}
			if x.Tok == token.ASSIGN {
				return "for { var vsyncOk bool; " + key + ", vsyncOk = " + r.render(x.X) + ".Recv2(); if !vsyncOk { break }; " + r.render(x.Body) + " }", true
			}
			use := "_ = " + key + "; "
			if key == "_" {
				use = ""
			}
			return "for { " + key + ", vsyncOk := " + r.render(x.X) + ".Recv2(); if !vsyncOk { break }; " + use + r.render(x.Body) + " }", true
		}
	case *ast.GoStmt:
		r.used = true
		return "vsync.Go(func() { " + r.render(x.Call) + " })", true
	case *ast.BlockStmt:
		if r.pk != nil && r.params != nil {
			return "{\n" + r.stmtList(x.List) + "}", true
		}
	case *ast.CaseClause:
		if r.pk != nil && r.params != nil {
			head := "default:"
			if len(x.List) > 0 {
				var es []string
				for _, e := range x.List {
					es = append(es, r.render(e))
				}
				head = "case " + strings.Join(es, ", ") + ":"
			}
			return head + "\n" + r.stmtList(x.Body), true
		}
	case *ast.SelectStmt:
		r.refuse = append(r.refuse, fmt.Sprintf("%s: select statement at %v", r.name, r.fset.Position(x.Pos())))
	case *ast.SelectorExpr:
		if id, ok := x.X.(*ast.Ident); ok && id.Name == "sync" {
			switch x.Sel.Name {
			case "Mutex", "RWMutex", "WaitGroup", "Once", "Pool":
			default:
				r.refuse = append(r.refuse, fmt.Sprintf("%s: sync.%s at %v is not modelled", r.name, x.Sel.Name, r.fset.Position(x.Pos())))
			}
		}
		if id, ok := x.X.(*ast.Ident); ok && id.Name == "atomic" {
			if !atomicModelled[x.Sel.Name] {
				r.refuse = append(r.refuse, fmt.Sprintf("%s: atomic.%s at %v is not modelled", r.name, x.Sel.Name, r.fset.Position(x.Pos())))
			}
		}
	}
	return "", false
}

// render returns the source text of n with all special descendants rewritten.
func (r *rw) render(n ast.Node) string {
	if s, ok := r.special(n); ok {
		return s
	}
	return r.generic(n)
}

func (r *rw) generic(n ast.Node) string {
	var edits []edit
	ast.Inspect(n, func(c ast.Node) bool {
		if c == nil || c == n {
			return true
		}
		if s, ok := r.special(c); ok {
			edits = append(edits, edit{r.off(c.Pos()), r.off(c.End()), s})
			return false
		}
		return true
	})
	start, end := r.off(n.Pos()), r.off(n.End())
	var b strings.Builder
	pos := start
	sort.Slice(edits, func(i, j int) bool { return edits[i].start < edits[j].start })
	for _, e := range edits {
		b.Write(r.src[pos:e.start])
		b.WriteString(e.text)
		pos = e.end
	}
	b.Write(r.src[pos:end])
	return b.String()
}

// atomicModelled lists the names of sync/atomic that rt/vatomic provides.
var atomicModelled = map[string]bool{"Int32": true, "Int64": true, "Uint32": true, "Uint64": true, "Uintptr": true, "Bool": true, "Pointer": true, "Value": true,
	"LoadInt32": true, "LoadInt64": true, "LoadUint32": true, "LoadUint64": true, "StoreInt32": true, "StoreInt64": true, "StoreUint32": true, "StoreUint64": true,
	"SwapInt32": true, "SwapInt64": true, "SwapUint32": true, "SwapUint64": true, "AddInt32": true, "AddInt64": true, "AddUint32": true, "AddUint64": true,
	"CompareAndSwapInt32": true, "CompareAndSwapInt64": true, "CompareAndSwapUint32": true, "CompareAndSwapUint64": true}

func needs(f *ast.File) bool {
	found := false
	for _, im := range f.Imports {
		if im.Path.Value == `"sync"` || im.Path.Value == `"sync/atomic"` {
			found = true
		}
	}
	ast.Inspect(f, func(n ast.Node) bool {
		switch x := n.(type) {
		case *ast.ChanType, *ast.GoStmt, *ast.SendStmt, *ast.SelectStmt:
			found = true
		case *ast.UnaryExpr:
			if x.Op == token.ARROW {
				found = true
			}
		case *ast.SelectorExpr:
			if id, ok := x.X.(*ast.Ident); ok && id.Name == "runtime" && (x.Sel.Name == "NumCPU" || x.Sel.Name == "GOMAXPROCS") {
				found = true
			}
		}
		return true
	})
	return found
}

func main() {
	repo := flag.String("repo", "/repo", "repository root")
	out := flag.String("out", "/verif/.work/rw", "output directory")
	rt := flag.String("rt", "/verif/rt", "runtime package sources")
	vosFiles := flag.String("vos", "render/stl.go,render/svg.go", "files whose os import is replaced by vos")
	access := flag.Bool("access", true, "insert memory access events for shared mutable state (race detection)")
	totalEvents := 0
	flag.Parse()
	os.Chdir(*repo)
	overlay := map[string]string{}
	overlay[filepath.Join(*repo, "verifrt/vsync/vsync.go")] = filepath.Join(*rt, "vsync/vsync.go")
	overlay[filepath.Join(*repo, "verifrt/vos/vos.go")] = filepath.Join(*rt, "vos/vos.go")
	overlay[filepath.Join(*repo, "verifrt/vatomic/vatomic.go")] = filepath.Join(*rt, "vatomic/vatomic.go")
	vosSet := map[string]bool{}
	for _, f := range strings.Split(*vosFiles, ",") {
		vosSet[f] = true
	}
	var refuse []string
	fset := token.NewFileSet()
	imp := importer.ForCompiler(fset, "source", nil)
	count := 0
	for _, pkg := range []string{"sdf", "render", "render/dc", "obj"} {
		dir := filepath.Join(*repo, pkg)
		ents, err := os.ReadDir(dir)
		if err != nil {
			fmt.Fprintln(os.Stderr, "vrewrite:", err)
			os.Exit(3)
		}
		var files []*ast.File
		var names []string
		srcs := map[string][]byte{}
		for _, e := range ents {
			n := e.Name()
			if !strings.HasSuffix(n, ".go") || strings.HasSuffix(n, "_test.go") || strings.HasPrefix(n, "zz_verif_") {
				continue
			}
			p := filepath.Join(dir, n)
			src, _ := os.ReadFile(p)
			f, err := parser.ParseFile(fset, p, src, parser.ParseComments)
			if err != nil {
				fmt.Fprintln(os.Stderr, "vrewrite: parse:", err)
				os.Exit(3)
			}
			files = append(files, f)
			names = append(names, n)
			srcs[n] = src
		}
		anyNeeds := false
		for _, f := range files {
			if needs(f) {
				anyNeeds = true
			}
		}
		if pkg == "render/dc" {
			// these packages are not run under the scheduler; they must not start goroutines or lock
			for i, f := range files {
				ast.Inspect(f, func(n ast.Node) bool {
					if g, ok := n.(*ast.GoStmt); ok {
						refuse = append(refuse, fmt.Sprintf("%s/%s: go statement at %v in a package that is not rewritten", pkg, names[i], fset.Position(g.Pos())))
					}
					return true
				})
			}
			continue
		}
		if !anyNeeds && !*access {
			continue
		}
		info := &types.Info{Types: map[ast.Expr]types.TypeAndValue{}, Uses: map[*ast.Ident]types.Object{}, Defs: map[*ast.Ident]types.Object{}, Selections: map[*ast.SelectorExpr]*types.Selection{}}
		conf := types.Config{Importer: imp, Error: func(error) {}}
		tpkg, _ := conf.Check("github.com/deadsy/sdfx/"+pkg, fset, files, info)
		var facts *pkgFacts
		if *access && tpkg != nil {
			facts = collectFacts(info, files, tpkg)
			var names []string
			for o := range facts.mutVars {
				names = append(names, pkg+"."+o.Name())
			}
			for o := range facts.mutFields {
				names = append(names, pkg+":field "+o.Name())
			}
			sort.Strings(names)
			fmt.Fprintln(os.Stderr, "vrewrite: shared mutable state in", pkg+":", strings.Join(names, ", "))
		}
		for i, f := range files {
			n := names[i]
			r := &rw{fset: fset, src: srcs[n], info: info, name: pkg + "/" + n, pk: facts}
			// file = package clause + decls; imports handled textually
			var b strings.Builder
			b.WriteString("//go:build verif\n\n")
			b.Write(r.src[:r.off(f.Name.End())])
			b.WriteString("\n\nimport vsync \"" + vsyncPath + "\"\n")
			pos := r.off(f.Name.End())
			hasRuntime := false
			for _, d := range f.Decls {
				b.Write(r.src[pos:r.off(d.Pos())])
				if gd, ok := d.(*ast.GenDecl); ok && gd.Tok == token.IMPORT {
					txt := string(r.src[r.off(d.Pos()):r.off(d.End())])
					for _, sp := range gd.Specs {
						is := sp.(*ast.ImportSpec)
						old := string(r.src[r.off(is.Pos()):r.off(is.End())])
						switch is.Path.Value {
						case `"sync"`:
							txt = strings.Replace(txt, old, `sync "`+vsyncPath+`"`, 1)
						case `"os"`:
							if vosSet[pkg+"/"+n] {
								txt = strings.Replace(txt, old, `os "`+vosPath+`"`, 1)
							}
						case `"runtime"`:
							hasRuntime = true
						case `"sync/atomic"`:
							// sequentially consistent atomics, every operation a scheduling point (rt/vatomic)
							txt = strings.Replace(txt, old, `atomic "`+vatomicPath+`"`, 1)
						}
					}
					b.WriteString(txt)
				} else {
					r.params = nil
					r.alias = nil
					if fd, ok := d.(*ast.FuncDecl); ok && facts != nil {
						r.params = funcParams(info, fd.Recv, fd.Type)
						if fd.Body != nil {
							r.alias = collectAliases(info, fd.Body, r.params)
						}
					}
					b.WriteString(r.render(d))
				}
				pos = r.off(d.End())
			}
			b.Write(r.src[pos:])
			b.WriteString("\nvar _ = vsync.NumCPU\n")
			if hasRuntime {
				b.WriteString("\nvar _ = runtime.GOOS\n")
			}
			if !needs(f) && r.events == 0 {
				continue
			}
			totalEvents += r.events
			refuse = append(refuse, r.refuse...)
			dst := filepath.Join(*out, pkg, n)
			os.MkdirAll(filepath.Dir(dst), 0o755)
			if err := os.WriteFile(dst, []byte(b.String()), 0o644); err != nil {
				fmt.Fprintln(os.Stderr, "vrewrite:", err)
				os.Exit(3)
			}
			overlay[filepath.Join(dir, n)] = dst
			count++
		}
	}
	if len(refuse) > 0 {
		for _, s := range refuse {
			fmt.Fprintln(os.Stderr, "vrewrite: REFUSE:", s)
		}
		os.Exit(3)
	}
	fmt.Fprintf(os.Stderr, "vrewrite: %d files rewritten, %d access events inserted\n", count, totalEvents)
	json.NewEncoder(os.Stdout).Encode(map[string]any{"Replace": overlay})
}
