// vrewrite rewrites the concurrent files of deadsy/sdfx so that every synchronisation operation goes
// through the controlled scheduler package vsync (and, for render/stl.go and render/svg.go, package os
// through the in-memory vos).  It prints a go build overlay.  It refuses (exit 3) on constructs it does
// not understand, so no synchronisation operation is ever silently left uninstrumented.
package main

import (
	"encoding/json"
	"flag"
	"fmt"
	"go/ast"
	"go/importer"
	"go/parser"
	"go/token"
	"go/types"
	"os"
	"path/filepath"
	"sort"
	"strings"
)

const vsyncPath = "github.com/deadsy/sdfx/verifrt/vsync"
const vosPath = "github.com/deadsy/sdfx/verifrt/vos"

type edit struct {
	start, end int
	text       string
}

type rw struct {
	fset   *token.FileSet
	src    []byte
	base   int
	info   *types.Info
	refuse []string
	name   string
	used   bool
}

func (r *rw) off(p token.Pos) int { return r.fset.Position(p).Offset }

func (r *rw) isChan(e ast.Expr) bool {
	t := r.info.TypeOf(e)
	if t == nil {
		r.refuse = append(r.refuse, fmt.Sprintf("%s: no type for expression at %v", r.name, r.fset.Position(e.Pos())))
		return false
	}
	_, ok := t.Underlying().(*types.Chan)
	return ok
}

func (r *rw) special(n ast.Node) (string, bool) {
	switch x := n.(type) {
	case *ast.ChanType:
		r.used = true
		return "*vsync.Chan[" + r.render(x.Value) + "]", true
	case *ast.CallExpr:
		if id, ok := x.Fun.(*ast.Ident); ok {
			if id.Name == "make" && len(x.Args) >= 1 {
				if ct, ok := x.Args[0].(*ast.ChanType); ok {
					r.used = true
					args := []string{}
					for _, a := range x.Args[1:] {
						args = append(args, r.render(a))
					}
					return "vsync.MakeChan[" + r.render(ct.Value) + "](" + strings.Join(args, ", ") + ")", true
				}
			}
			if id.Name == "close" && len(x.Args) == 1 && r.isChan(x.Args[0]) {
				return r.render(x.Args[0]) + ".Close()", true
			}
		}
		if sel, ok := x.Fun.(*ast.SelectorExpr); ok {
			if id, ok := sel.X.(*ast.Ident); ok && id.Name == "runtime" && sel.Sel.Name == "NumCPU" {
				r.used = true
				return "vsync.NumCPU()", true
			}
		}
	case *ast.SendStmt:
		return r.render(x.Chan) + ".Send(" + r.render(x.Value) + ")", true
	case *ast.UnaryExpr:
		if x.Op == token.ARROW {
			return r.render(x.X) + ".Recv()", true
		}
	case *ast.AssignStmt:
		if len(x.Lhs) == 2 && len(x.Rhs) == 1 {
			if u, ok := x.Rhs[0].(*ast.UnaryExpr); ok && u.Op == token.ARROW {
				return r.render(x.Lhs[0]) + ", " + r.render(x.Lhs[1]) + " " + x.Tok.String() + " " + r.render(u.X) + ".Recv2()", true
			}
		}
	case *ast.RangeStmt:
		if r.isChan(x.X) {
			key := "_"
			if x.Key != nil {
				key = r.render(x.Key)
			}
			if x.Value != nil {
				r.refuse = append(r.refuse, fmt.Sprintf("%s: range over channel with two variables at %v", r.name, r.fset.Position(x.Pos())))
			}
			if x.Tok == token.ASSIGN {
				return "for { var vsyncOk bool; " + key + ", vsyncOk = " + r.render(x.X) + ".Recv2(); if !vsyncOk { break }; " + r.render(x.Body) + " }", true
			}
			use := "_ = " + key + "; "
			if key == "_" {
				use = ""
			}
			return "for { " + key + ", vsyncOk := " + r.render(x.X) + ".Recv2(); if !vsyncOk { break }; " + use + r.render(x.Body) + " }", true
		}
	case *ast.GoStmt:
		r.used = true
		return "vsync.Go(func() { " + r.render(x.Call) + " })", true
	case *ast.SelectStmt:
		r.refuse = append(r.refuse, fmt.Sprintf("%s: select statement at %v", r.name, r.fset.Position(x.Pos())))
	case *ast.SelectorExpr:
		if id, ok := x.X.(*ast.Ident); ok && id.Name == "sync" {
			switch x.Sel.Name {
			case "Mutex", "RWMutex", "WaitGroup", "Once":
			default:
				r.refuse = append(r.refuse, fmt.Sprintf("%s: sync.%s at %v is not modelled", r.name, x.Sel.Name, r.fset.Position(x.Pos())))
			}
		}
		if id, ok := x.X.(*ast.Ident); ok && id.Name == "atomic" {
			r.refuse = append(r.refuse, fmt.Sprintf("%s: atomic.%s at %v is not modelled", r.name, x.Sel.Name, r.fset.Position(x.Pos())))
		}
	}
	return "", false
}

// render returns the source text of n with all special descendants rewritten.
func (r *rw) render(n ast.Node) string {
	if s, ok := r.special(n); ok {
		return s
	}
	return r.generic(n)
}

func (r *rw) generic(n ast.Node) string {
	var edits []edit
	ast.Inspect(n, func(c ast.Node) bool {
		if c == nil || c == n {
			return true
		}
		if s, ok := r.special(c); ok {
			edits = append(edits, edit{r.off(c.Pos()), r.off(c.End()), s})
			return false
		}
		return true
	})
	start, end := r.off(n.Pos()), r.off(n.End())
	var b strings.Builder
	pos := start
	sort.Slice(edits, func(i, j int) bool { return edits[i].start < edits[j].start })
	for _, e := range edits {
		b.Write(r.src[pos:e.start])
		b.WriteString(e.text)
		pos = e.end
	}
	b.Write(r.src[pos:end])
	return b.String()
}

func needs(f *ast.File) bool {
	found := false
	for _, im := range f.Imports {
		if im.Path.Value == `"sync"` || im.Path.Value == `"sync/atomic"` {
			found = true
		}
	}
	ast.Inspect(f, func(n ast.Node) bool {
		switch x := n.(type) {
		case *ast.ChanType, *ast.GoStmt, *ast.SendStmt, *ast.SelectStmt:
			found = true
		case *ast.UnaryExpr:
			if x.Op == token.ARROW {
				found = true
			}
		case *ast.SelectorExpr:
			if id, ok := x.X.(*ast.Ident); ok && id.Name == "runtime" && x.Sel.Name == "NumCPU" {
				found = true
			}
		}
		return true
	})
	return found
}

func main() {
	repo := flag.String("repo", "/repo", "repository root")
	out := flag.String("out", "/verif/.work/rw", "output directory")
	rt := flag.String("rt", "/verif/rt", "runtime package sources")
	vosFiles := flag.String("vos", "render/stl.go,render/svg.go", "files whose os import is replaced by vos")
	flag.Parse()
	os.Chdir(*repo)
	overlay := map[string]string{}
	overlay[filepath.Join(*repo, "verifrt/vsync/vsync.go")] = filepath.Join(*rt, "vsync/vsync.go")
	overlay[filepath.Join(*repo, "verifrt/vos/vos.go")] = filepath.Join(*rt, "vos/vos.go")
	vosSet := map[string]bool{}
	for _, f := range strings.Split(*vosFiles, ",") {
		vosSet[f] = true
	}
	var refuse []string
	fset := token.NewFileSet()
	imp := importer.ForCompiler(fset, "source", nil)
	count := 0
	for _, pkg := range []string{"sdf", "render", "render/dc", "obj"} {
		dir := filepath.Join(*repo, pkg)
		ents, err := os.ReadDir(dir)
		if err != nil {
			fmt.Fprintln(os.Stderr, "vrewrite:", err)
			os.Exit(3)
		}
		var files []*ast.File
		var names []string
		srcs := map[string][]byte{}
		for _, e := range ents {
			n := e.Name()
			if !strings.HasSuffix(n, ".go") || strings.HasSuffix(n, "_test.go") || strings.HasPrefix(n, "zz_verif_") {
				continue
			}
			p := filepath.Join(dir, n)
			src, _ := os.ReadFile(p)
			f, err := parser.ParseFile(fset, p, src, parser.ParseComments)
			if err != nil {
				fmt.Fprintln(os.Stderr, "vrewrite: parse:", err)
				os.Exit(3)
			}
			files = append(files, f)
			names = append(names, n)
			srcs[n] = src
		}
		anyNeeds := false
		for _, f := range files {
			if needs(f) {
				anyNeeds = true
			}
		}
		if pkg == "render/dc" || pkg == "obj" {
			// these packages are not run under the scheduler; they must not start goroutines or lock
			for i, f := range files {
				ast.Inspect(f, func(n ast.Node) bool {
					if g, ok := n.(*ast.GoStmt); ok {
						refuse = append(refuse, fmt.Sprintf("%s/%s: go statement at %v in a package that is not rewritten", pkg, names[i], fset.Position(g.Pos())))
					}
					return true
				})
			}
			continue
		}
		if !anyNeeds {
			continue
		}
		info := &types.Info{Types: map[ast.Expr]types.TypeAndValue{}}
		conf := types.Config{Importer: imp, Error: func(error) {}}
		conf.Check("github.com/deadsy/sdfx/"+pkg, fset, files, info)
		for i, f := range files {
			if !needs(f) {
				continue
			}
			n := names[i]
			r := &rw{fset: fset, src: srcs[n], info: info, name: pkg + "/" + n}
			// file = package clause + decls; imports handled textually
			var b strings.Builder
			b.WriteString("//go:build verif\n\n")
			b.Write(r.src[:r.off(f.Name.End())])
			b.WriteString("\n\nimport vsync \"" + vsyncPath + "\"\n")
			pos := r.off(f.Name.End())
			hasRuntime := false
			for _, d := range f.Decls {
				b.Write(r.src[pos:r.off(d.Pos())])
				if gd, ok := d.(*ast.GenDecl); ok && gd.Tok == token.IMPORT {
					txt := string(r.src[r.off(d.Pos()):r.off(d.End())])
					for _, sp := range gd.Specs {
						is := sp.(*ast.ImportSpec)
						old := string(r.src[r.off(is.Pos()):r.off(is.End())])
						switch is.Path.Value {
						case `"sync"`:
							txt = strings.Replace(txt, old, `sync "`+vsyncPath+`"`, 1)
						case `"os"`:
							if vosSet[pkg+"/"+n] {
								txt = strings.Replace(txt, old, `os "`+vosPath+`"`, 1)
							}
						case `"runtime"`:
							hasRuntime = true
						case `"sync/atomic"`:
							refuse = append(refuse, r.name+": imports sync/atomic")
						}
					}
					b.WriteString(txt)
				} else {
					b.WriteString(r.render(d))
				}
				pos = r.off(d.End())
			}
			b.Write(r.src[pos:])
			b.WriteString("\nvar _ = vsync.NumCPU\n")
			if hasRuntime {
				b.WriteString("\nvar _ = runtime.GOOS\n")
			}
			refuse = append(refuse, r.refuse...)
			dst := filepath.Join(*out, pkg, n)
			os.MkdirAll(filepath.Dir(dst), 0o755)
			if err := os.WriteFile(dst, []byte(b.String()), 0o644); err != nil {
				fmt.Fprintln(os.Stderr, "vrewrite:", err)
				os.Exit(3)
			}
			overlay[filepath.Join(dir, n)] = dst
			count++
		}
	}
	if len(refuse) > 0 {
		for _, s := range refuse {
			fmt.Fprintln(os.Stderr, "vrewrite: REFUSE:", s)
		}
		os.Exit(3)
	}
	fmt.Fprintf(os.Stderr, "vrewrite: %d files rewritten\n", count)
	json.NewEncoder(os.Stdout).Encode(map[string]any{"Replace": overlay})
}
