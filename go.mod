module verif

go 1.22

require github.com/deadsy/sdfx v0.0.0

require (
	github.com/dhconnelly/rtreego v1.2.0 // indirect
	github.com/golang/freetype v0.0.0-20170609003504-e2365dfdc4a0 // indirect
	golang.org/x/image v0.22.0 // indirect
)

replace github.com/deadsy/sdfx => /repo
