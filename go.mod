module verif

go 1.22

require (
	github.com/deadsy/sdfx v0.0.0
	github.com/hpinc/go3mf v0.24.2
	github.com/yofu/dxf v0.0.0-20240729034626-50c66fc03e0d
)

require (
	github.com/ajstarks/svgo v0.0.0-20211024235047-1546f124cd8b // indirect
	github.com/dhconnelly/rtreego v1.2.0 // indirect
	github.com/golang/freetype v0.0.0-20170609003504-e2365dfdc4a0 // indirect
	github.com/llgcode/draw2d v0.0.0-20240627062922-0ed1ff131195 // indirect
	github.com/qmuntal/opc v0.7.12 // indirect
	golang.org/x/image v0.22.0 // indirect
	gonum.org/v1/gonum v0.15.1 // indirect
)

replace github.com/deadsy/sdfx => /repo
